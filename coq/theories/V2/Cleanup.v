(* C11 - model of nemoguardrails/colang/v2_x/runtime/statemachine.py::_clean_up_state on an
   abstract interpreter state.

   state.flow_states      : dict uid -> FlowState      = `flows`  (association list, insertion order)
   state.flow_id_states   : dict flow_id -> [FlowState] = `by_flow` (the instances by uid)
   state.actions          : dict uid -> Action          = `actions` (the Action is opaque)
   everything else of State                              = `s_rest`  (opaque, never touched)
   A FlowState keeps: flow_id, status (name of the FlowStatus member), status_updated (clock
   ticks), activated, parent_uid, child_flow_uids, action_uids, the matching scores of its heads,
   the flow uids of its open scopes (scopes[name][0]) and `i_rest` (every other field, opaque,
   never touched).

   The function, in the order of the source:
     1. clear head.matching_scores of every head of every flow state;
     2. needed_parent_uids = the parent_uid of every flow state that is not done or is activated
        (computed from the state BEFORE anything is removed);
        states_to_be_removed = uids of the flow states with
          _is_done_flow(fs) and (now - fs.status_updated) > timedelta(seconds=AGE) and fs.activated == 0
          and fs.uid not in needed_parent_uids;
     3. for each of them: if its parent_uid is set, the parent is (still) in flow_states and lists
        it as a child, remove it from the parent's child_flow_uids; remove it from
        flow_id_states[flow_id] (KeyError / ValueError = None); delete it from flow_states;
     3b. (if anything was removed) drop the removed uids from the child_flow_uids of EVERY remaining
        flow state and from the flow lists of their open scopes;
     4. rebuild `actions` from the action_uids of the remaining flow states, in order, first
        occurrence (KeyError = None).
   The constants of step 2 (age, direction of the comparison, the two other conjuncts, the
   statuses of _is_done_flow) are parameters (`cfg`) read from the current source by the
   translator (Gen/C11Consts.v). *)
From Coq Require Import ZArith List String Bool Lia.
Import ListNotations.
Open Scope string_scope.
Open Scope Z_scope.

Record inst := mkInst {
  i_flow : string;
  i_status : string;
  i_updated : Z;
  i_activated : Z;
  i_parent : option string;
  i_children : list string;
  i_actions : list string;
  i_heads : list (string * list Z);
  i_scopes : list (string * list string);
  i_rest : Z
}.

Record state := mkState {
  flows : list (string * inst);
  by_flow : list (string * list string);
  actions : list (string * Z);
  s_rest : Z
}.

Record cfg := mkCfg {
  age : Z;                       (* clock ticks *)
  cmp_gt : bool;                 (* the source compares (now - status_updated) > age *)
  needs_done : bool;
  needs_not_activated : bool;
  done_set : list string;
  purge_children : bool;         (* step 3b present in the source: child lists *)
  purge_scopes : bool;           (* step 3b present in the source: scope flow lists *)
  needs_unneeded : bool          (* the source keeps an ended flow that is the parent of a running or activated flow *)
}.

Fixpoint slook {A} (l : list (string * A)) (k : string) : option A :=
  match l with [] => None | (k', x) :: r => if String.eqb k' k then Some x else slook r k end.

Definition smem (s : string) (l : list string) : bool := existsb (String.eqb s) l.

Definition sdelete {A} (k : string) (l : list (string * A)) : list (string * A) :=
  filter (fun kv => negb (String.eqb (fst kv) k)) l.

Definition supdate {A} (k : string) (x : A) (l : list (string * A)) : list (string * A) :=
  map (fun kv => if String.eqb (fst kv) k then (fst kv, x) else kv) l.

Fixpoint remove_first (s : string) (l : list string) : list string :=
  match l with [] => [] | x :: r => if String.eqb x s then r else x :: remove_first s r end.

Definition set_children (i : inst) (ch : list string) : inst :=
  mkInst (i_flow i) (i_status i) (i_updated i) (i_activated i) (i_parent i) ch (i_actions i) (i_heads i) (i_scopes i) (i_rest i).

Definition clear_heads (i : inst) : inst :=
  mkInst (i_flow i) (i_status i) (i_updated i) (i_activated i) (i_parent i) (i_children i) (i_actions i)
         (map (fun hs => (fst hs, @nil Z)) (i_heads i)) (i_scopes i) (i_rest i).

Definition is_done (c : cfg) (i : inst) : bool := smem (i_status i) (done_set c).

Definition old_enough (c : cfg) (now : Z) (i : inst) : bool :=
  if cmp_gt c then age c <? now - i_updated i else negb (age c <? now - i_updated i).

Definition removable (c : cfg) (now : Z) (i : inst) : bool :=
  (if needs_done c then is_done c i else true)
  && old_enough c now i
  && (if needs_not_activated c then i_activated i =? 0 else true).

(* one iteration of the removal loop *)
Definition remove_one (st : option state) (uid : string) : option state :=
  match st with
  | None => None
  | Some s =>
    match slook (flows s) uid with
    | None => None                                             (* KeyError *)
    | Some fs =>
      let fl1 :=
        match i_parent fs with
        | Some p =>
          if String.eqb p "" then flows s
          else match slook (flows s) p with
               | Some pi =>
                 if smem uid (i_children pi)
                 then supdate p (set_children pi (remove_first uid (i_children pi))) (flows s)
                 else flows s
               | None => flows s
               end
        | None => flows s
        end in
      match slook (by_flow s) (i_flow fs) with
      | None => None                                           (* KeyError *)
      | Some lst =>
        if smem uid lst
        then Some (mkState (sdelete uid fl1) (supdate (i_flow fs) (remove_first uid lst) (by_flow s))
                           (actions s) (s_rest s))
        else None                                              (* ValueError: list.remove(x) *)
      end
    end
  end.

Fixpoint rebuild_actions (old : list (string * Z)) (uids : list string) (acc : list (string * Z)) : option (list (string * Z)) :=
  match uids with
  | [] => Some acc
  | a :: r =>
    match slook acc a with
    | Some _ => rebuild_actions old r acc
    | None =>
      match slook old a with
      | None => None                                           (* KeyError *)
      | Some x => rebuild_actions old r (acc ++ [(a, x)])
      end
    end
  end.

Definition clear_scores (s : state) : state :=
  mkState (map (fun kv => (fst kv, clear_heads (snd kv))) (flows s)) (by_flow s) (actions s) (s_rest s).

(* needed_parent_uids *)
Definition keeps_parent (c : cfg) (i : inst) : bool := negb (is_done c i) || negb (i_activated i =? 0).

Definition needed_parents (c : cfg) (s : state) : list string :=
  flat_map (fun kv => if keeps_parent c (snd kv) then match i_parent (snd kv) with Some p => [p] | None => [] end else [])
           (flows s).

(* the removal condition of step 2, for the instance i stored under uid u; `pre` = the state the
   needed parents are computed from *)
Definition rm (c : cfg) (now : Z) (pre : state) (u : string) (i : inst) : bool :=
  removable c now i && (if needs_unneeded c then negb (smem u (needed_parents c pre)) else true).

Definition to_remove_gen (P : string -> inst -> bool) (s : state) : list string :=
  map fst (filter (fun kv => P (fst kv) (snd kv)) (flows s)).

Definition all_action_uids (s : state) : list string := flat_map (fun kv => i_actions (snd kv)) (flows s).

(* step 3b on one remaining flow state *)
Definition keep_uids (rem : list string) (l : list string) : list string :=
  filter (fun u => negb (smem u rem)) l.

Definition purge_inst (c : cfg) (rem : list string) (i : inst) : inst :=
  mkInst (i_flow i) (i_status i) (i_updated i) (i_activated i) (i_parent i)
         (if purge_children c then keep_uids rem (i_children i) else i_children i)
         (i_actions i) (i_heads i)
         (if purge_scopes c then map (fun kl => (fst kl, keep_uids rem (snd kl))) (i_scopes i) else i_scopes i)
         (i_rest i).

Definition purge_flows (c : cfg) (rem : list string) (l : list (string * inst)) : list (string * inst) :=
  map (fun kv => (fst kv, purge_inst c rem (snd kv))) l.

(* steps 1, 3, 3b, 4 for a removal condition P that is fixed before the loop *)
Definition cleanup_gen (c : cfg) (P : string -> inst -> bool) (s : state) : option state :=
  let s1 := clear_scores s in
  let rem := to_remove_gen P s1 in
  match fold_left remove_one rem (Some s1) with
  | None => None
  | Some s2 =>
    match rebuild_actions (actions s2) (all_action_uids s2) [] with
    | None => None
    | Some acts => Some (mkState (purge_flows c rem (flows s2)) (by_flow s2) acts (s_rest s2))
    end
  end.

Definition cleanup (c : cfg) (now : Z) (s : state) : option state := cleanup_gen c (rm c now s) s.

(* ---------------------------------------------------------------------------------- *)
(* what event dispatch reads (the part modelled for the behavioural claim):
   `index` = state.event_matching_heads : event name -> [(flow uid, head uid)].
   _get_all_head_candidates resolves every entry through state.flow_states[flow_uid].heads[head_uid];
   an entry of a removed instance would raise KeyError. *)
Definition index := list (string * list (string * string)).

Definition resolve (s : state) (e : string * string) : option (string * string * inst) :=
  match slook (flows s) (fst e) with
  | None => None
  | Some i => match slook (i_heads i) (snd e) with
              | None => None
              | Some _ => Some (fst e, snd e, i)
              end
  end.

Definition candidates (ix : index) (s : state) (name : string) : list (option (string * string * inst)) :=
  match slook ix name with None => [] | Some es => map (resolve s) es end.

(* ---------------------------------------------------------------------------------- *)
(* reference closure: every uid a flow state, a scope, a per-flow list or an action list mentions
   resolves (dict lookups of the dispatch: flow_states[uid], actions[uid]).  The harness checks it
   on every real state; clean-up preserves it (Cleanup_proofs.cleanup_preserves_closed). *)
Definition present (s : state) (u : string) : Prop := slook (flows s) u <> None.

Record closed_refs (s : state) : Prop := {
  cr_children : forall u i x, slook (flows s) u = Some i -> In x (i_children i) -> present s x;
  cr_scopes : forall u i k l x, slook (flows s) u = Some i -> slook (i_scopes i) k = Some l -> In x l -> present s x;
  cr_actions : forall u i a, slook (flows s) u = Some i -> In a (i_actions i) -> slook (actions s) a <> None;
  cr_by_flow : forall f l, slook (by_flow s) f = Some l ->
               NoDup l /\ forall u, In u l -> exists i, slook (flows s) u = Some i /\ i_flow i = f
}.

(* decidable version (evaluated on abstracted real states by the harness) *)
Fixpoint nodupb (l : list string) : bool :=
  match l with [] => true | x :: r => negb (smem x r) && nodupb r end.

Definition presentb (s : state) (u : string) : bool := match slook (flows s) u with Some _ => true | None => false end.

Definition refs_okb (s : state) : bool :=
  nodupb (map fst (flows s)) &&
  forallb (fun ui =>
      forallb (presentb s) (i_children (snd ui)) &&
      forallb (fun kl => forallb (presentb s) (snd kl)) (i_scopes (snd ui)) &&
      forallb (fun a => match slook (actions s) a with Some _ => true | None => false end) (i_actions (snd ui)) &&
      match slook (by_flow s) (i_flow (snd ui)) with Some l => smem (fst ui) l | None => false end) (flows s) &&
  forallb (fun fl =>
      nodupb (snd fl) &&
      forallb (fun u => match slook (flows s) u with Some i => String.eqb (i_flow i) (fst fl) | None => false end) (snd fl))
    (by_flow s).

(* sanity *)
Definition ex_cfg : cfg := mkCfg 5 true true true ["FINISHED"; "STOPPED"] true true true.
Definition ex_state : state :=
  mkState
    [ ("m", mkInst "main" "STARTED" 0 0 None ["a1"; "b1"] ["act1"] [("h0", [1; 2])] [("sc", ["a1"; "b1"])] 0);
      ("a1", mkInst "a" "FINISHED" 1 0 (Some "m") [] ["act1"; "act2"] [] [] 1);
      ("b1", mkInst "b" "FINISHED" 1 1 (Some "m") ["a1"] ["act3"] [("h1", [3])] [] 2) ]
    [ ("main", ["m"]); ("a", ["a1"]); ("b", ["b1"]) ]
    [ ("act1", 10); ("act2", 20); ("act3", 30) ]
    7.

Example ex_cleanup :
  cleanup ex_cfg 10 ex_state
  = Some (mkState
            [ ("m", mkInst "main" "STARTED" 0 0 None ["b1"] ["act1"] [("h0", [])] [("sc", ["b1"])] 0);
              ("b1", mkInst "b" "FINISHED" 1 1 (Some "m") [] ["act3"] [("h1", [])] [] 2) ]
            [ ("main", ["m"]); ("a", []); ("b", ["b1"]) ]
            [ ("act1", 10); ("act3", 30) ]
            7).
Proof. vm_compute. reflexivity. Qed.
