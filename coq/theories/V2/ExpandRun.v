(* C12 (Colang 2.x) - correspondence entry point for the expansion model: the model's expansion
   of a source tree, with labels / scopes / fork uids renamed by first occurrence, equals the
   (equally renamed) abstraction of what the real expand_elements produced. *)
From Coq Require Import List String Ascii Bool Arith DecimalString.
From NG Require Import V2.ClosedAst V2.Closed V2.Expand.
Import ListNotations.
Open Scope string_scope.
Open Scope list_scope.

Definition dec (n : nat) : string := NilEmpty.string_of_uint (Nat.to_uint n).

Fixpoint find_idx (s : string) (tbl : list string) (i : nat) : option nat :=
  match tbl with
  | [] => None
  | x :: r => if String.eqb x s then Some i else find_idx s r (S i)
  end.

(* name of (kind, s): kind ++ index of first occurrence in one table shared by all kinds *)
Definition nm (kind s : string) (tbl : list string) : string * list string :=
  let key := String.append kind s in
  match find_idx key tbl 0 with
  | Some i => (String.append kind (dec i), tbl)
  | None => (String.append kind (dec (List.length tbl)), tbl ++ [key])
  end.

Fixpoint nms (kind : string) (ss : list string) (tbl : list string) : list string * list string :=
  match ss with
  | [] => ([], tbl)
  | s :: r => let '(a, t1) := nm kind s tbl in let '(b, t2) := nms kind r t1 in (a :: b, t2)
  end.

Definition nmo (kind : string) (o : option string) (tbl : list string) : option string * list string :=
  match o with None => (None, tbl) | Some s => let '(a, t) := nm kind s tbl in (Some a, t) end.

Definition canon1 (e : elem) (tbl : list string) : elem * list string :=
  match e with
  | ELabel n => let '(a, t) := nm "l" n tbl in (ELabel a, t)
  | EGoto l c => let '(a, t) := nm "l" l tbl in (EGoto a c, t)
  | EFork u ls => let '(a, t) := nm "f" u tbl in let '(b, t2) := nms "l" ls t in (EFork a b, t2)
  | EMerge u => let '(a, t) := nm "f" u tbl in (EMerge a, t)
  | ECatch o => let '(a, t) := nmo "l" o tbl in (ECatch a, t)
  | EBreak o => let '(a, t) := nmo "l" o tbl in (EBreak a, t)
  | EContinue o => let '(a, t) := nmo "l" o tbl in (EContinue a, t)
  | EBegin n => let '(a, t) := nm "s" n tbl in (EBegin a, t)
  | EEnd n => let '(a, t) := nm "s" n tbl in (EEnd a, t)
  | _ => (e, tbl)
  end.

Fixpoint canon_from (es : list elem) (tbl : list string) : list elem :=
  match es with
  | [] => []
  | e :: r => let '(e', t) := canon1 e tbl in e' :: canon_from r t
  end.

Definition canon (es : list elem) : list elem := canon_from es [].

Definition ostr_eqb (a b : option string) : bool :=
  match a, b with
  | None, None => true
  | Some x, Some y => String.eqb x y
  | _, _ => false
  end.

Definition elem_eqb (a b : elem) : bool :=
  match a, b with
  | ELabel x, ELabel y => String.eqb x y
  | EGoto x c, EGoto y d => String.eqb x y && Bool.eqb c d
  | EFork u ls, EFork v ms => String.eqb u v && list_eqb ls ms
  | EMerge u, EMerge v => String.eqb u v
  | EWait, EWait | EAbort, EAbort | EReturn, EReturn | EBlock, EBlock => true
  | ECatch x, ECatch y | EBreak x, EBreak y | EContinue x, EContinue y => ostr_eqb x y
  | EBegin x, EBegin y | EEnd x, EEnd y => String.eqb x y
  | EPlain _, EPlain _ => true        (* which plain class it is does not matter for closedness *)
  | EComposite x, EComposite y => String.eqb x y
  | _, _ => false
  end.

Fixpoint elems_eqb (a b : list elem) : bool :=
  match a, b with
  | [], [] => true
  | x :: a', y :: b' => elem_eqb x y && elems_eqb a' b'
  | _, _ => false
  end.

(* one case: (source tree, renamed abstraction of the real expansion) *)
Definition check_expand (c : list stmt * list elem) : bool :=
  let '(src, real) := c in elems_eqb (canon (expand src)) real.
