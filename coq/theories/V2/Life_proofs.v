(* V2/Life_proofs.v - lemmas about the lifetime model of V2/Life.v.

   Part 1: maps and state accessors.
   Part 2: the primitive mutations of the lifetime layer (`prim`), their closure `steps`, and
           the whole-state relation `Srel R A` they all respect (frame, monotonicity, the Stop
           accounting).  R = the instances an operation may touch, A = the actions.
   Part 3: abort / finish / end_scope decompose into primitive mutations inside the subtree
           of their argument (`*_steps`).
   Part 4: children stop (`Good`), by induction on the fuel.
   Part 5: the statements used by Props/C06.v. *)
From Coq Require Import ZArith NArith List Bool Lia.
From NG Require Import V2.Life.
Import ListNotations.
Open Scope N_scope.



(* ------------------------------------------------------------------------------------ *)
(* Part 1 *)

Lemma get_upd_same : forall A k (v : A) m,
  get k (upd k v m) = match get k m with Some _ => Some v | None => None end.
Proof.
  induction m as [|[k' v'] m IH]; simpl; auto.
  destruct (N.eqb k k') eqn:E; simpl; rewrite E; auto.
Qed.

Lemma get_upd_other : forall A k k' (v : A) m, k <> k' -> get k' (upd k v m) = get k' m.
Proof.
  induction m as [|[k0 v0] m IH]; simpl; intros Hne; auto.
  destruct (N.eqb k k0) eqn:E; simpl.
  - apply N.eqb_eq in E; subst k0.
    destruct (N.eqb k' k) eqn:E'; auto. apply N.eqb_eq in E'; subst; contradiction.
  - destruct (N.eqb k' k0); auto.
Qed.

Lemma getf_setf_same : forall s x i i0, getf s x = Some i0 -> getf (setf s x i) x = Some i.
Proof. unfold getf, setf; simpl; intros; rewrite get_upd_same, H; auto. Qed.

Lemma getf_setf_other : forall s x y i, x <> y -> getf (setf s x i) y = getf s y.
Proof. unfold getf, setf; simpl; intros; apply get_upd_other; auto. Qed.

Lemma getf_setf_none : forall s x y i, getf s y = None -> getf (setf s x i) y = None.
Proof.
  intros. destruct (N.eq_dec x y) as [->|Hne].
  - unfold getf, setf in *; simpl. rewrite get_upd_same, H; auto.
  - rewrite getf_setf_other; auto.
Qed.

Lemma getf_seta : forall s a c y, getf (seta s a c) y = getf s y.
Proof. reflexivity. Qed.
Lemma getf_emit1 : forall s e y, getf (emit1 s e) y = getf s y.
Proof. reflexivity. Qed.
Lemma geta_setf : forall s x i a, geta (setf s x i) a = geta s a.
Proof. reflexivity. Qed.
Lemma geta_emit1 : forall s e a, geta (emit1 s e) a = geta s a.
Proof. reflexivity. Qed.
Lemma geta_seta_same : forall s a c c0, geta s a = Some c0 -> geta (seta s a c) a = Some c.
Proof. unfold geta, seta; simpl; intros; rewrite get_upd_same, H; auto. Qed.
Lemma geta_seta_other : forall s a b c, a <> b -> geta (seta s a c) b = geta s b.
Proof. unfold geta, seta; simpl; intros; apply get_upd_other; auto. Qed.
Lemma out_setf : forall s x i, out (setf s x i) = out s.
Proof. reflexivity. Qed.
Lemma out_seta : forall s a c, out (seta s a c) = out s.
Proof. reflexivity. Qed.
Lemma out_emit1 : forall s e, out (emit1 s e) = out s ++ [e].
Proof. reflexivity. Qed.

Lemma modf_some : forall s x g i, getf s x = Some i -> modf s x g = setf s x (g i).
Proof. unfold modf; intros; rewrite H; auto. Qed.
Lemma modf_none : forall s x g, getf s x = None -> modf s x g = s.
Proof. unfold modf; intros; rewrite H; auto. Qed.

Definition live (x : fstatus) : bool := listening x || is_stopping x.

(* listening / live, of an instance of a state *)
Definition lst (s : st) (x : uid) : bool :=
  match getf s x with Some i => listening (i_status i) | None => false end.
Definition lv (s : st) (x : uid) : bool :=
  match getf s x with Some i => live (i_status i) | None => false end.

Lemma lst_lv : forall s x, lv s x = false -> lst s x = false.
Proof.
  unfold lv, lst, live; intros s x; destruct (getf s x); auto.
  destruct (listening (i_status i)); simpl; auto.
Qed.

Lemma remove1_in : forall x l r c, remove1 x l = Some r -> In c r -> In c l.
Proof.
  induction l as [|y l IH]; simpl; intros r c H Hin; try discriminate.
  destruct (N.eqb x y) eqn:E.
  - inversion H; subst; auto.
  - destruct (remove1 x l) eqn:E1; try discriminate. inversion H; subst.
    destruct Hin as [->|Hin]; auto. right; eapply IH; eauto.
Qed.

Lemma remove1_count_other : forall x l r c, remove1 x l = Some r -> c <> x ->
  count_occ N.eq_dec r c = count_occ N.eq_dec l c.
Proof.
  induction l as [|y l IH]; simpl; intros r c H Hne; try discriminate.
  destruct (N.eqb x y) eqn:E.
  - apply N.eqb_eq in E; subst y. inversion H; subst.
    destruct (N.eq_dec x c); auto. subst; contradiction.
  - destruct (remove1 x l) eqn:E1; try discriminate. inversion H; subst. simpl.
    destruct (N.eq_dec y c); auto.
Qed.

Lemma remove1_in_other : forall x l r c, remove1 x l = Some r -> c <> x -> In c l -> In c r.
Proof.
  intros x l r c H Hne Hin.
  apply (count_occ_In N.eq_dec). rewrite (remove1_count_other _ _ _ _ H Hne).
  apply (count_occ_In N.eq_dec); auto.
Qed.

(* ------------------------------------------------------------------------------------ *)
(* Part 2 *)

(* number of Stop events for action a in a list of emissions *)
Fixpoint nstops (a : uid) (l : list emit) : nat :=
  match l with
  | [] => O
  | EStop b :: l' => (if N.eqb a b then 1 else 0) + nstops a l'
  | _ :: l' => nstops a l'
  end.

Lemma nstops_app : forall a l1 l2, nstops a (l1 ++ l2) = (nstops a l1 + nstops a l2)%nat.
Proof.
  induction l1 as [|e l1 IH]; simpl; intros; auto.
  destruct e; rewrite IH; auto. lia.
Qed.

Section Rel.
  Variable R : uid -> Prop.   (* instances the operation may touch *)
  Variable A : uid -> Prop.   (* actions the operation may touch *)

  (* how the status of an instance may change *)
  Definition status_rel (x : uid) (old new : fstatus) : Prop :=
    new = old \/
    (R x /\ ((new = FStopped /\ live old = true) \/
             ((new = FFinished \/ new = FWaiting) /\ listening old = true))).

  (* how an instance may change: flow id, parent, action list, scopes never; children only lose
     instances of R; activated / new_instance_started / status only inside R *)
  Definition irel (x : uid) (i i' : inst) : Prop :=
    i_flow i' = i_flow i /\ i_parent i' = i_parent i /\ i_actions i' = i_actions i /\
    i_scopes i' = i_scopes i /\
    status_rel x (i_status i) (i_status i') /\
    (forall c, In c (i_children i') -> In c (i_children i)) /\
    (forall c, ~ R c -> count_occ N.eq_dec (i_children i') c = count_occ N.eq_dec (i_children i) c) /\
    ((i_activated i = 0%Z -> i_activated i' = 0%Z) /\
     ((0 < i_activated i')%Z -> (i_activated i' <= i_activated i)%Z) /\
     ((0 <= i_activated i)%Z -> (0 <= i_activated i')%Z)) /\
    (~ R x -> i_activated i' = i_activated i /\ i_nis i' = i_nis i /\ i_status i' = i_status i).

  (* how an action may change: only while STARTING/STARTED, only inside A, the count only
     decreases, and the only status change is to STOPPING with count 0 *)
  Definition arel (a : uid) (c c' : act) : Prop :=
    c' = c \/
    (A a /\ active (a_status c) = true /\ (a_count c' < a_count c)%Z /\
     ((a_status c' = a_status c /\ a_count c' <> 0%Z /\ (0 < a_count c -> 0 < a_count c')%Z) \/
      (a_status c' = AStopping /\ a_count c' = 0%Z))).

  Definition emit_ok (e : emit) : Prop :=
    match e with
    | EStop a => A a
    | EFailed x => R x
    | EFinished x => R x
    | ERestart x _ _ => R x
    | EStarted x => R x
    end.

  Definition ast (s : st) (a : uid) : option astatus := option_map a_status (geta s a).

  Record Srel (s s' : st) : Prop := {
    sr_flows : forall x, match getf s x, getf s' x with
                         | None, None => True
                         | Some i, Some i' => irel x i i'
                         | _, _ => False
                         end;
    sr_acts : forall a, match geta s a, geta s' a with
                        | None, None => True
                        | Some c, Some c' => arel a c c'
                        | _, _ => False
                        end;
    sr_out : exists delta, out s' = out s ++ delta /\ Forall emit_ok delta /\
               forall a, (nstops a delta = 0%nat /\ ast s' a = ast s a) \/
                         (nstops a delta = 1%nat /\ A a /\
                          (exists c, geta s a = Some c /\ active (a_status c) = true) /\
                          geta s' a = Some (mkAct AStopping 0%Z))
  }.

  Lemma status_rel_refl : forall x o, status_rel x o o.
  Proof. left; auto. Qed.

  Lemma status_rel_trans : forall x a b c, status_rel x a b -> status_rel x b c -> status_rel x a c.
  Proof.
    unfold status_rel; intros x a b c H1 H2.
    destruct H1 as [->|[HR H1]]; auto.
    destruct H2 as [->|[_ H2]]; auto.
    right; split; auto.
    destruct H1 as [[-> Hl]|[[->| ->] Hl]]; simpl in *.
    - destruct H2 as [[_ H]|[_ H]]; discriminate.
    - destruct H2 as [[_ H]|[_ H]]; discriminate.
    - destruct H2 as [[-> _]|[Hc _]].
      + left; split; auto. unfold live; rewrite Hl; auto.
      + right; auto.
  Qed.

  Lemma irel_refl : forall x i, irel x i i.
  Proof. unfold irel; intros; repeat split; auto using status_rel_refl; intros; lia. Qed.

  Lemma irel_trans : forall x i1 i2 i3, irel x i1 i2 -> irel x i2 i3 -> irel x i1 i3.
  Proof.
    unfold irel; intros x i1 i2 i3
      (F1 & P1 & A1 & S1 & T1 & C1 & K1 & (Z1 & M1 & G1) & N1) (F2 & P2 & A2 & S2 & T2 & C2 & K2 & (Z2 & M2 & G2) & N2).
    repeat split; try congruence; eauto using status_rel_trans.
    - intros c Hc. rewrite K2, K1; auto.
    - intros Hp. specialize (M2 Hp). assert (0 < i_activated i2)%Z by lia. specialize (M1 H). lia.
    - destruct (N1 H) as (? & ? & ?), (N2 H) as (? & ? & ?); congruence.
    - destruct (N1 H) as (? & ? & ?), (N2 H) as (? & ? & ?); congruence.
    - destruct (N1 H) as (? & ? & ?), (N2 H) as (? & ? & ?); congruence.
  Qed.

  Lemma arel_refl : forall a c, arel a c c.
  Proof. left; auto. Qed.

  Lemma arel_trans : forall a c1 c2 c3, arel a c1 c2 -> arel a c2 c3 -> arel a c1 c3.
  Proof.
    unfold arel; intros a c1 c2 c3 H1 H2.
    destruct H1 as [->|(HA & Hact & Hlt & Hst)]; auto.
    destruct H2 as [->|(_ & Hact2 & Hlt2 & Hst2)]; auto.
    right. destruct Hst as [(Hs & Hnz & Hpos)|[Hs _]].
    - repeat split; auto; try lia.
      destruct Hst2 as [(Hs2 & Hnz2 & Hpos2)|Hs2]; [left|right; auto].
      split; [congruence|split; [auto|lia]].
    - rewrite Hs in Hact2; discriminate.
  Qed.

  Lemma Srel_refl : forall s, Srel s s.
  Proof.
    intros s; split.
    - intros x; destruct (getf s x); auto using irel_refl.
    - intros a; destruct (geta s a); auto using arel_refl.
    - exists []; rewrite app_nil_r; repeat split; auto.
  Qed.

  Lemma Srel_trans : forall s1 s2 s3, Srel s1 s2 -> Srel s2 s3 -> Srel s1 s3.
  Proof.
    intros s1 s2 s3 [F1 A1 (d1 & O1 & E1 & N1)] [F2 A2 (d2 & O2 & E2 & N2)]; split.
    - intros x; specialize (F1 x); specialize (F2 x).
      destruct (getf s1 x), (getf s2 x), (getf s3 x); try tauto; eauto using irel_trans.
    - intros a; specialize (A1 a); specialize (A2 a).
      destruct (geta s1 a), (geta s2 a), (geta s3 a); try tauto; eauto using arel_trans.
    - exists (d1 ++ d2); split; [rewrite O2, O1, app_assoc; auto|split; [apply Forall_app; auto|]].
      intros a; rewrite nstops_app.
      destruct (N1 a) as [[Hn1 Hs1]|(Hn1 & HA & (c & Hc & Hact) & Hg1)];
        destruct (N2 a) as [[Hn2 Hs2]|(Hn2 & HA2 & (c2 & Hc2 & Hact2) & Hg2)].
      + left; split; [lia|congruence].
      + right; repeat split; auto; try lia.
        unfold ast in Hs1. rewrite Hc2 in Hs1.
        destruct (geta s1 a) as [c1|] eqn:E1'; simpl in Hs1; try discriminate.
        exists c1; split; auto. inversion Hs1; congruence.
      + right; repeat split; auto; try lia; eauto.
        specialize (A2 a). rewrite Hg1 in A2.
        unfold ast in Hs2. rewrite Hg1 in Hs2.
        destruct (geta s3 a) as [c3|]; try tauto.
        destruct A2 as [->|(_ & Hact2 & _)]; auto. discriminate.
      + rewrite Hg1 in Hc2. inversion Hc2; subst c2. discriminate.
  Qed.

  Lemma srel_fwd : forall s s' x i, Srel s s' -> getf s x = Some i ->
    exists i', getf s' x = Some i' /\ irel x i i'.
  Proof.
    intros s s' x i [F _ _] H. specialize (F x). rewrite H in F.
    destruct (getf s' x) as [i'|]; try tauto. eauto.
  Qed.

  Lemma srel_bwd : forall s s' x i', Srel s s' -> getf s' x = Some i' ->
    exists i, getf s x = Some i /\ irel x i i'.
  Proof.
    intros s s' x i' [F _ _] H. specialize (F x). rewrite H in F.
    destruct (getf s x) as [i|]; try tauto. eauto.
  Qed.

  Lemma srel_none : forall s s' x, Srel s s' -> getf s x = None -> getf s' x = None.
  Proof.
    intros s s' x [F _ _] H. specialize (F x). rewrite H in F.
    destruct (getf s' x); tauto.
  Qed.

  (* only the flows component changes, at x *)
  Lemma srel_setf : forall s x i i', getf s x = Some i -> irel x i i' -> Srel s (setf s x i').
  Proof.
    intros s x i i' H Hi; split.
    - intros y. destruct (N.eq_dec x y) as [<-|Hne].
      + rewrite H, (getf_setf_same _ _ _ _ H); auto.
      + rewrite getf_setf_other; auto. destruct (getf s y); auto using irel_refl.
    - intros a. rewrite geta_setf. destruct (geta s a); auto using arel_refl.
    - exists []. rewrite out_setf, app_nil_r. repeat split; auto.
  Qed.

  Lemma srel_set_activated : forall s x i v, R x -> getf s x = Some i ->
    (v = 0 \/ (0 < i_activated i /\ v = i_activated i - 1))%Z ->
    Srel s (setf s x (set_activated v i)).
  Proof.
    intros s x i v HR H Hv. eapply srel_setf; eauto.
    unfold irel; simpl. repeat split; auto using status_rel_refl; try tauto; intros; lia.
  Qed.

  Lemma srel_set_nis : forall s x i v, R x -> getf s x = Some i -> Srel s (setf s x (set_nis v i)).
  Proof.
    intros s x i v HR H. eapply srel_setf; eauto.
    unfold irel; simpl. repeat split; auto using status_rel_refl; try tauto; intros; lia.
  Qed.

  Lemma srel_set_status : forall s x i v, R x -> getf s x = Some i ->
    ((v = FStopped /\ live (i_status i) = true) \/
     ((v = FFinished \/ v = FWaiting) /\ listening (i_status i) = true)) ->
    Srel s (setf s x (set_status v i)).
  Proof.
    intros s x i v HR H Hv. eapply srel_setf; eauto.
    unfold irel; simpl. repeat split; auto; try tauto; try (intros; lia).
    right; auto.
  Qed.

  Lemma srel_unlink : forall s x s', R x -> unlink s x = Ok s' -> Srel s s'.
  Proof.
    unfold unlink; intros s x s' HR H.
    destruct (getf s x) as [i|] eqn:E; try discriminate.
    destruct (i_activated i =? 0)%Z; [|inversion H; apply Srel_refl].
    destruct (i_parent i) as [p|]; [|inversion H; apply Srel_refl].
    destruct (getf s p) as [pi|] eqn:Ep; [|inversion H; apply Srel_refl].
    destruct (remove1 x (i_children pi)) as [l|] eqn:El; inversion H; subst.
    eapply srel_setf; eauto.
    unfold irel; simpl. repeat split; auto using status_rel_refl; try (intros; lia).
    - intros c Hc; eapply remove1_in; eauto.
    - intros c Hc; eapply remove1_count_other; eauto. intros ->; contradiction.
  Qed.

  Lemma srel_emit : forall s e, emit_ok e -> (forall a, e <> EStop a) -> Srel s (emit1 s e).
  Proof.
    intros s e He Hns; split.
    - intros x; rewrite getf_emit1; destruct (getf s x); auto using irel_refl.
    - intros a; rewrite geta_emit1; destruct (geta s a); auto using arel_refl.
    - exists [e]; rewrite out_emit1; repeat split; auto.
      intros a; left; split; auto.
      destruct e; simpl; auto. exfalso; eapply Hns; eauto.
  Qed.

  Lemma srel_stop_action : forall s a s', A a -> stop_action s a = Ok s' -> Srel s s'.
  Proof.
    unfold stop_action; intros s a s' HA H.
    destruct (geta s a) as [c|] eqn:E; try discriminate.
    destruct (active (a_status c)) eqn:Eact; [|inversion H; apply Srel_refl].
    destruct (a_count c - 1 =? 0)%Z eqn:Ez; inversion H; subst; clear H.
    - apply Z.eqb_eq in Ez. split.
      + intros x; rewrite getf_emit1, getf_seta; destruct (getf s x); auto using irel_refl.
      + intros b; rewrite geta_emit1. destruct (N.eq_dec a b) as [<-|Hne].
        * rewrite E, (geta_seta_same _ _ _ _ E). right; simpl; repeat split; auto; lia.
        * rewrite geta_seta_other; auto. destruct (geta s b); auto using arel_refl.
      + exists [EStop a]; rewrite out_emit1, out_seta; repeat split; auto.
        intros b. destruct (N.eq_dec a b) as [<-|Hne].
        * right; simpl. rewrite N.eqb_refl; repeat split; auto.
          -- exists c; auto.
          -- rewrite geta_emit1, (geta_seta_same _ _ _ _ E), Ez; auto.
        * left; simpl. destruct (N.eqb b a) eqn:Eb; [apply N.eqb_eq in Eb; subst; contradiction|].
          split; auto. unfold ast. rewrite geta_emit1, geta_seta_other; auto.
    - apply Z.eqb_neq in Ez. split.
      + intros x; rewrite getf_seta; destruct (getf s x); auto using irel_refl.
      + intros b. destruct (N.eq_dec a b) as [<-|Hne].
        * rewrite E, (geta_seta_same _ _ _ _ E). right; simpl; repeat split; auto; try lia.
          left; repeat split; auto; lia.
        * rewrite geta_seta_other; auto. destruct (geta s b); auto using arel_refl.
      + exists []; rewrite out_seta, app_nil_r; repeat split; auto.
        intros b; left; split; auto. unfold ast. destruct (N.eq_dec a b) as [<-|Hne].
        * rewrite E, (geta_seta_same _ _ _ _ E); auto.
        * rewrite geta_seta_other; auto.
  Qed.

  (* R is closed under the children relation of s; A contains the actions of R *)
  Definition closed (s : st) : Prop :=
    forall x i c, R x -> getf s x = Some i -> In c (i_children i) -> R c.
  Definition owns (s : st) : Prop :=
    forall x i a, R x -> getf s x = Some i -> In a (i_actions i) -> A a.

  Lemma srel_closed : forall s s', Srel s s' -> closed s -> closed s'.
  Proof.
    intros s s' HS Hc x i' c HR H Hin.
    destruct (srel_bwd _ _ _ _ HS H) as (i & Hi & Hrel).
    eapply Hc; eauto. apply Hrel; auto.
  Qed.

  Lemma srel_owns : forall s s', Srel s s' -> owns s -> owns s'.
  Proof.
    intros s s' HS Hc x i' c HR H Hin.
    destruct (srel_bwd _ _ _ _ HS H) as (i & Hi & Hrel).
    eapply Hc; eauto. destruct Hrel as (_ & _ & Ha & _). rewrite <- Ha; auto.
  Qed.
End Rel.

(* ------------------------------------------------------------------------------------ *)
(* Part 3 *)

Lemma bind_ok : forall A B (r : res A) (k : A -> res B) b,
  bind r k = Ok b -> exists a, r = Ok a /\ k a = Ok b.
Proof. intros A B [a|e] k b H; simpl in H; [eauto|discriminate]. Qed.

Ltac bind_inv H :=
  let a := fresh "s" in let H1 := fresh "Hb" in
  apply bind_ok in H; destruct H as (a & H1 & H).

Lemma modf_srel_activated0 : forall (R A : uid -> Prop) s x, R x -> Srel R A s (modf s x (set_activated 0%Z)).
Proof.
  intros R A s x HR. unfold modf. destruct (getf s x) as [i|] eqn:E; [|apply Srel_refl].
  apply srel_set_activated; auto.
Qed.

Lemma stop_actions_srel : forall (R A : uid -> Prop) l s s',
  (forall a, In a l -> A a) -> stop_actions l s = Ok s' -> Srel R A s s'.
Proof.
  induction l as [|a l IH]; simpl; intros s s' HA H.
  - inversion H; apply Srel_refl.
  - bind_inv H. eapply Srel_trans; [eapply srel_stop_action; eauto|eapply IH; eauto].
Qed.

Lemma stop_action_flows : forall s a s', stop_action s a = Ok s' -> flows s' = flows s.
Proof.
  unfold stop_action; intros s a s' H. destruct (geta s a); try discriminate.
  destruct (active (a_status a0)); [|inversion H; auto].
  destruct (a_count a0 - 1 =? 0)%Z; inversion H; auto.
Qed.

Lemma stop_actions_flows : forall l s s', stop_actions l s = Ok s' -> flows s' = flows s.
Proof.
  induction l as [|a l IH]; simpl; intros s s' H; [inversion H; auto|].
  bind_inv H. rewrite (IH _ _ H). eapply stop_action_flows; eauto.
Qed.

(* well-foundedness of the children relation ("the hierarchy is a forest / a DAG") *)
Definition ranked (rk : uid -> nat) (s : st) : Prop :=
  forall x i c, getf s x = Some i -> In c (i_children i) -> (rk c < rk x)%nat.

Lemma srel_ranked : forall (R A : uid -> Prop) rk s s', Srel R A s s' -> ranked rk s -> ranked rk s'.
Proof.
  intros R A rk s s' HS Hr x i' c H Hin.
  destruct (srel_bwd _ _ _ _ _ _ HS H) as (i & Hi & Hrel).
  eapply Hr; eauto. apply Hrel; auto.
Qed.

Definition below (rk : uid -> nat) (f : uid) : uid -> Prop := fun y => (rk y < rk f)%nat.
Definition anyA : uid -> Prop := fun _ => True.

Lemma below_closed : forall rk s f, ranked rk s -> closed (below rk f) s.
Proof. unfold closed, below; intros rk s f Hr x i c Hx H Hin. specialize (Hr _ _ _ H Hin). lia. Qed.

Lemma anyA_owns : forall R s, owns R anyA s.
Proof. unfold owns, anyA; auto. Qed.

Section Pass.
  Variable rk : uid -> nat.
  Variable ab : st -> uid -> bool -> res st.
  Hypothesis Hab : forall (R A : uid -> Prop) s c d s',
    ranked rk s -> closed R s -> owns R A s -> R c -> ab s c d = Ok s' -> Srel R A s s'.

  Section Loops.
  Variables R A : uid -> Prop.

  Lemma abort_same_srel : forall fid l s s',
    ranked rk s -> closed R s -> owns R A s -> Forall R l -> abort_same ab fid l s = Ok s' -> Srel R A s s'.
  Proof.
    induction l as [|c l IH]; simpl; intros s s' Hr Hc Ho Hl H.
    - inversion H; apply Srel_refl.
    - inversion Hl; subst. destruct (getf s c) as [ci|] eqn:E; try discriminate.
      destruct (N.eqb (i_flow ci) fid).
      + bind_inv H.
        assert (S1 : Srel R A s s0) by (eapply Hab; eauto).
        assert (S2 : Srel R A s0 (modf s0 c (set_activated 0%Z))) by (apply modf_srel_activated0; auto).
        assert (S3 : Srel R A s (modf s0 c (set_activated 0%Z))) by (eapply Srel_trans; eauto).
        eapply Srel_trans; [exact S3|].
        eapply IH; eauto using srel_closed, srel_owns, srel_ranked.
      + eapply IH; eauto.
  Qed.

  Lemma abort_children_srel : forall l s s',
    ranked rk s -> closed R s -> owns R A s -> Forall R l -> abort_children ab l s = Ok s' -> Srel R A s s'.
  Proof.
    induction l as [|c l IH]; simpl; intros s s' Hr Hc Ho Hl H.
    - inversion H; apply Srel_refl.
    - inversion Hl; subst. destruct (getf s c) as [ci|] eqn:E; [|eapply IH; eauto].
      destruct (is_child_activated s ci); [eapply IH; eauto|].
      bind_inv H.
      assert (S1 : Srel R A s s0) by (eapply Hab; eauto).
      eapply Srel_trans; [exact S1|].
      eapply IH; eauto using srel_closed, srel_owns, srel_ranked.
  Qed.

  Lemma scope_flows_srel : forall l s s',
    ranked rk s -> closed R s -> owns R A s -> Forall R l -> scope_flows ab l s = Ok s' -> Srel R A s s'.
  Proof.
    induction l as [|c l IH]; simpl; intros s s' Hr Hc Ho Hl H.
    - inversion H; apply Srel_refl.
    - inversion Hl; subst. destruct (getf s c) as [ci|] eqn:E; [|eapply IH; eauto].
      destruct (listening (i_status ci)); [|eapply IH; eauto].
      bind_inv H.
      assert (S1 : Srel R A s s0) by (eapply Hab; eauto).
      eapply Srel_trans; [exact S1|].
      eapply IH; eauto using srel_closed, srel_owns, srel_ranked.
  Qed.

  Lemma children_in_R : forall s f i, closed R s -> R f -> getf s f = Some i -> Forall R (i_children i).
  Proof. intros s f i Hc HR H. apply Forall_forall. intros c Hin. eapply Hc; eauto. Qed.

  Lemma deactivate_srel : forall s f d s1 b,
    ranked rk s -> closed R s -> owns R A s -> R f -> deactivate ab s f d = Ok (s1, b) -> Srel R A s s1.
  Proof.
    unfold deactivate; intros s f d s1 b Hr Hc Ho HR H.
    destruct (getf s f) as [i|] eqn:E; try discriminate.
    apply bind_ok in H. destruct H as (isref & Hisref & H).
    destruct isref; [|inversion H; apply Srel_refl].
    assert (Hpos : (0 < i_activated i)%Z).
    { destruct d; [|discriminate]. unfold is_ref_activated in Hisref.
      destruct (0 <? i_activated i)%Z eqn:Ez; [apply Z.ltb_lt in Ez; auto|discriminate]. }
    assert (S1 : Srel R A s (modf s f (set_activated (i_activated i - 1)%Z))).
    { rewrite (modf_some _ _ _ _ E). apply srel_set_activated; auto. }
    destruct (i_activated i - 1 =? 0)%Z.
    - bind_inv H. inversion H; subst.
      eapply Srel_trans; [exact S1|].
      eapply (abort_same_srel (i_flow i) (i_children i)); eauto using srel_closed, srel_owns, srel_ranked.
      eapply children_in_R; eauto.
    - inversion H; subst; auto.
  Qed.
  End Loops.

  (* the children loop does not touch f itself (f is not below f) *)
  Lemma abort_children_self : forall l s s' f i,
    ranked rk s -> Forall (below rk f) l -> abort_children ab l s = Ok s' -> getf s f = Some i ->
    exists i', getf s' f = Some i' /\ i_status i' = i_status i /\ i_activated i' = i_activated i /\
               i_nis i' = i_nis i /\ i_flow i' = i_flow i /\ i_parent i' = i_parent i /\
               i_actions i' = i_actions i /\ (forall c, In c (i_children i') -> In c (i_children i)).
  Proof.
    intros l s s' f i Hr Hl H E.
    assert (S : Srel (below rk f) anyA s s').
    { eapply abort_children_srel; eauto using below_closed, anyA_owns. }
    destruct (srel_fwd _ _ _ _ _ _ S E) as (i' & E' & Hrel).
    exists i'; split; auto.
    destruct Hrel as (F1 & P1 & A1 & _ & _ & C1 & _ & _ & N1).
    destruct N1 as (? & ? & ?); [unfold below; lia|]. repeat split; auto.
  Qed.

  Lemma prologue_srel : forall (R A : uid -> Prop) skip s f d s3 go,
    ranked rk s -> closed R s -> owns R A s -> R f -> prologue ab skip s f d = Ok (s3, go) ->
    Srel R A s s3 /\
    (go = true -> exists i3, getf s3 f = Some i3 /\ skip (i_status i3) = false).
  Proof.
    unfold prologue; intros R A skip s f d s3 go Hr Hc Ho HR H.
    apply bind_ok in H. destruct H as ([s1 b] & Hd & H). simpl in H.
    assert (S1 : Srel R A s s1) by (eapply deactivate_srel; eauto).
    destruct b; [|inversion H; subst; split; auto; discriminate].
    destruct (getf s1 f) as [i1|] eqn:E1; try discriminate.
    destruct (skip (i_status i1)) eqn:Esk; [inversion H; subst; split; auto; discriminate|].
    bind_inv H.
    assert (Hr1 : ranked rk s1) by (eapply srel_ranked; eauto).
    assert (S2 : Srel R A s1 s0).
    { eapply (abort_children_srel R A (i_children i1)); eauto using srel_closed, srel_owns.
      apply (children_in_R R s1 f i1); auto. eapply srel_closed; eauto. }
    assert (S12 : Srel R A s s0) by (eapply Srel_trans; eauto).
    destruct (abort_children_self (i_children i1) s1 s0 f i1) as (i2 & E2 & Hst & _); auto.
    { apply Forall_forall. intros c Hin. eapply Hr1; eauto. }
    rewrite E2 in H.
    bind_inv H. inversion H; subst. split.
    - eapply Srel_trans; [exact S12|].
      eapply stop_actions_srel; eauto.
      intros a Hin. eapply (srel_owns _ _ _ _ S12 Ho); eauto.
    - intros _. exists i2. unfold getf. rewrite (stop_actions_flows _ _ _ Hb0).
      split; auto. congruence.
  Qed.
End Pass.

Lemma restart_srel : forall (R A : uid -> Prop) s f d s', R f -> restart s f d = Ok s' -> Srel R A s s'.
Proof.
  unfold restart; intros R A s f d s' HR H.
  destruct (getf s f) as [i|] eqn:E; try discriminate.
  destruct (negb d && (0 <? i_activated i)%Z && negb (i_nis i)); [|inversion H; apply Srel_refl].
  apply bind_ok in H. destruct H as (src & _ & H). inversion H; subst.
  eapply Srel_trans.
  - apply srel_emit with (e := ERestart f src (i_activated i)); simpl; auto. discriminate.
  - unfold modf. rewrite getf_emit1, E. apply srel_set_nis; auto.
Qed.

Lemma modf_srel_status : forall (R A : uid -> Prop) s f v i, R f -> getf s f = Some i ->
  ((v = FStopped /\ live (i_status i) = true) \/
   ((v = FFinished \/ v = FWaiting) /\ listening (i_status i) = true)) ->
  Srel R A s (modf s f (set_status v)).
Proof. intros. rewrite (modf_some _ _ _ _ H0). apply srel_set_status; auto. Qed.

Lemma unlink_getf_status : forall s f s' i, unlink s f = Ok s' -> getf s f = Some i ->
  exists i', getf s' f = Some i' /\ i_status i' = i_status i.
Proof.
  unfold unlink; intros s f s' i H E. rewrite E in H.
  destruct (i_activated i =? 0)%Z; [|inversion H; subst; eauto].
  destruct (i_parent i) as [p|]; [|inversion H; subst; eauto].
  destruct (getf s p) as [pi|] eqn:Ep; [|inversion H; subst; eauto].
  destruct (remove1 f (i_children pi)) as [l|]; inversion H; subst.
  destruct (N.eq_dec p f) as [->|Hne].
  - rewrite (getf_setf_same _ _ _ _ Ep). rewrite E in Ep; inversion Ep; subst. eexists; split; eauto.
  - rewrite getf_setf_other; eauto.
Qed.

Lemma epilogue_abort_srel : forall (R A : uid -> Prop) s3 f d s' i,
  R f -> getf s3 f = Some i -> live (i_status i) = true ->
  epilogue_abort s3 f d = Ok s' -> Srel R A s3 s'.
Proof.
  unfold epilogue_abort; intros R A s3 f d s' i HR E Hl H.
  bind_inv H.
  destruct (unlink_getf_status _ _ _ _ Hb E) as (i4 & E4 & Hst).
  eapply Srel_trans; [eapply srel_unlink; eauto|].
  eapply Srel_trans; [eapply modf_srel_status with (v := FStopped); eauto|].
  { left; split; auto. congruence. }
  eapply Srel_trans; [apply srel_emit with (e := EFailed f); simpl; auto; discriminate|].
  eapply restart_srel; eauto.
Qed.

Lemma epilogue_finish_srel : forall (R A : uid -> Prop) s3 f d s' i,
  R f -> getf s3 f = Some i -> listening (i_status i) = true ->
  epilogue_finish s3 f d = Ok s' -> Srel R A s3 s'.
Proof.
  unfold epilogue_finish; intros R A s3 f d s' i HR E Hl H. rewrite E in H.
  destruct (N.eqb (i_flow i) main_id).
  - inversion H; subst. eapply modf_srel_status; eauto.
  - bind_inv H.
    eapply Srel_trans; [eapply modf_srel_status with (v := FFinished); eauto|].
    eapply Srel_trans; [eapply srel_unlink; eauto|].
    eapply Srel_trans; [apply srel_emit with (e := EFinished f); simpl; auto; discriminate|].
    eapply restart_srel; eauto.
Qed.

Lemma skip_abort_live : forall x, skip_abort x = false -> live x = true.
Proof. unfold skip_abort, live; intros x; destruct (listening x), (is_stopping x); simpl; auto. Qed.
Lemma skip_finish_listening : forall x, skip_finish x = false -> listening x = true.
Proof. unfold skip_finish; intros x; destruct (listening x); simpl; auto. Qed.

Theorem abort_srel : forall rk n (R A : uid -> Prop) s f d s',
  ranked rk s -> closed R s -> owns R A s -> R f -> abort n s f d = Ok s' -> Srel R A s s'.
Proof.
  induction n as [|n IH]; simpl; intros R A s f d s' Hr Hc Ho HR H; try discriminate.
  apply bind_ok in H. destruct H as ([s3 go] & Hp & H). simpl in H.
  destruct (prologue_srel rk (abort n) IH R A _ _ _ _ _ _ Hr Hc Ho HR Hp) as (S & Hgo).
  destruct go; [|inversion H; subst; auto].
  destruct (Hgo eq_refl) as (i3 & E3 & Hsk).
  eapply Srel_trans; [exact S|].
  eapply epilogue_abort_srel; eauto using skip_abort_live.
Qed.

Theorem finish_srel : forall rk n (R A : uid -> Prop) s f d s',
  ranked rk s -> closed R s -> owns R A s -> R f -> finish n s f d = Ok s' -> Srel R A s s'.
Proof.
  unfold finish; intros rk n R A s f d s' Hr Hc Ho HR H.
  apply bind_ok in H. destruct H as ([s3 go] & Hp & H). simpl in H.
  destruct (prologue_srel rk (abort n) (abort_srel rk n) R A _ _ _ _ _ _ Hr Hc Ho HR Hp) as (S & Hgo).
  destruct go; [|inversion H; subst; auto].
  destruct (Hgo eq_refl) as (i3 & E3 & Hsk).
  eapply Srel_trans; [exact S|].
  eapply epilogue_finish_srel; eauto using skip_finish_listening.
Qed.

(* ------------------------------------------------------------------------------------ *)
(* Part 4: children stop *)

Definition anyR : uid -> Prop := fun _ => True.
Notation SrelT := (Srel anyR anyA).

Lemma anyR_closed : forall s, closed anyR s.
Proof. unfold closed, anyR; auto. Qed.

Lemma irel_lst : forall (R : uid -> Prop) x i i', irel R x i i' -> listening (i_status i) = false -> listening (i_status i') = false.
Proof.
  intros R x i i' (_ & _ & _ & _ & [->|(_ & [(-> & _)|([->| ->] & Hl)])] & _) H; auto; congruence.
Qed.

Lemma irel_lv : forall (R : uid -> Prop) x i i', irel R x i i' -> live (i_status i) = false -> live (i_status i') = false.
Proof.
  intros R x i i' (_ & _ & _ & _ & [->|(_ & [(-> & Hl)|([->| ->] & Hl)])] & _) H; auto; try congruence.
  unfold live in H. rewrite Hl in H. discriminate.
Qed.

Lemma lst_mono : forall (R A : uid -> Prop) s s' x, Srel R A s s' -> lst s x = false -> lst s' x = false.
Proof.
  unfold lst; intros R A s s' x HS H. destruct (getf s' x) as [i'|] eqn:E'; auto.
  destruct (srel_bwd _ _ _ _ _ _ HS E') as (i & E & Hrel). rewrite E in H.
  eapply irel_lst; eauto.
Qed.

Lemma lv_mono : forall (R A : uid -> Prop) s s' x, Srel R A s s' -> lv s x = false -> lv s' x = false.
Proof.
  unfold lv; intros R A s s' x HS H. destruct (getf s' x) as [i'|] eqn:E'; auto.
  destruct (srel_bwd _ _ _ _ _ _ HS E') as (i & E & Hrel). rewrite E in H.
  eapply irel_lv; eauto.
Qed.

Definition Zinv (Z : uid -> Prop) (s : st) : Prop :=
  forall c i, Z c -> getf s c = Some i -> i_activated i = 0%Z.

Lemma zinv_mono : forall (R A : uid -> Prop) Z s s', Srel R A s s' -> Zinv Z s -> Zinv Z s'.
Proof.
  intros R A Z s s' HS HZ c i' Hc E'.
  destruct (srel_bwd _ _ _ _ _ _ HS E') as (i & E & Hrel).
  destruct Hrel as (_ & _ & _ & _ & _ & _ & _ & Hz & _). apply Hz. eapply HZ; eauto.
Qed.

(* an instance that disappears from a children list is not listening afterwards *)
Definition Rem (s s' : st) : Prop :=
  forall x i i' c, getf s x = Some i -> getf s' x = Some i' ->
    In c (i_children i) -> ~ In c (i_children i') -> lst s' c = false.

(* when a running instance x ends, the children it started (Z: activated = 0) are not listening *)
Definition Good (Z : uid -> Prop) (s s' : st) : Prop :=
  forall x i c, getf s x = Some i -> live (i_status i) = true -> lv s' x = false ->
    In c (i_children i) -> Z c -> lst s' c = false.

Definition Seg (Z : uid -> Prop) (s s' : st) : Prop := SrelT s s' /\ Rem s s' /\ Good Z s s'.

(* steps that keep every status and children list *)
Definition same_shape (s s' : st) : Prop :=
  forall x, match getf s x, getf s' x with
            | Some i, Some i' => i_status i' = i_status i /\ i_children i' = i_children i
            | None, None => True
            | _, _ => False
            end.

Lemma same_shape_seg : forall Z s s', SrelT s s' -> same_shape s s' -> Seg Z s s'.
Proof.
  intros Z s s' HS Hsh; split; [auto|split].
  - intros x i i' c E E' Hin Hnin. specialize (Hsh x). rewrite E, E' in Hsh.
    destruct Hsh as (_ & Hc). rewrite Hc in Hnin. contradiction.
  - intros x i c E Hl Hlv. specialize (Hsh x). rewrite E in Hsh. unfold lv in Hlv.
    destruct (getf s' x) as [i'|]; try tauto. destruct Hsh as (Hs & _). congruence.
Qed.

Lemma same_shape_refl : forall s, same_shape s s.
Proof. intros s x; destruct (getf s x); auto. Qed.

Lemma seg_refl : forall Z s, Seg Z s s.
Proof. intros; apply same_shape_seg; auto using Srel_refl, same_shape_refl. Qed.

Lemma seg_trans : forall Z s1 s2 s3, Seg Z s1 s2 -> Seg Z s2 s3 -> Seg Z s1 s3.
Proof.
  intros Z s1 s2 s3 (S1 & R1 & G1) (S2 & R2 & G2); split; [eapply Srel_trans; eauto|split].
  - intros x i i3 c E E3 Hin Hnin.
    destruct (srel_fwd _ _ _ _ _ _ S1 E) as (i2 & E2 & _).
    destruct (in_dec N.eq_dec c (i_children i2)) as [Hin2|Hnin2].
    + eapply R2; eauto.
    + eapply lst_mono; eauto.
  - intros x i c E Hl Hlv Hin HZ.
    destruct (srel_fwd _ _ _ _ _ _ S1 E) as (i2 & E2 & _).
    destruct (live (i_status i2)) eqn:El2.
    + destruct (in_dec N.eq_dec c (i_children i2)) as [Hin2|Hnin2].
      * eapply G2; eauto.
      * eapply lst_mono; eauto.
    + eapply lst_mono; eauto. eapply G1; eauto. unfold lv; rewrite E2; auto.
Qed.

Lemma same_shape_setf : forall s x i i', getf s x = Some i ->
  i_status i' = i_status i -> i_children i' = i_children i -> same_shape s (setf s x i').
Proof.
  intros s x i i' E Hs Hc y. destruct (N.eq_dec x y) as [<-|Hne].
  - rewrite E, (getf_setf_same _ _ _ _ E); auto.
  - rewrite getf_setf_other; auto. destruct (getf s y); auto.
Qed.

Lemma same_shape_flows : forall s s', flows s' = flows s -> same_shape s s'.
Proof. intros s s' H x. unfold getf. rewrite H. destruct (get x (flows s)); auto. Qed.

(* does this call go past the deactivate prologue? *)
Definition proceeds (s : st) (f : uid) (d : bool) : bool :=
  match getf s f with
  | None => false
  | Some i =>
    if d then match is_ref_activated s i with
              | Ok true => (i_activated i =? 1)%Z
              | _ => true
              end
    else true
  end.

Lemma zinv_not_ref : forall Z s c i, Zinv Z s -> Z c -> getf s c = Some i ->
  is_ref_activated s i = Ok false /\ is_child_activated s i = false.
Proof.
  intros Z s c i HZ Hc E. specialize (HZ _ _ Hc E).
  unfold is_ref_activated, is_child_activated. rewrite HZ. simpl; auto.
Qed.

Section Pass2.
  Variable rk : uid -> nat.
  Variable ab : st -> uid -> bool -> res st.
  Hypothesis Hab1 : forall (R A : uid -> Prop) s c d s',
    ranked rk s -> closed R s -> owns R A s -> R c -> ab s c d = Ok s' -> Srel R A s s'.
  Hypothesis Hab2 : forall Z s c d s',
    ranked rk s -> Zinv Z s -> ab s c d = Ok s' ->
    Seg Z s s' /\ (proceeds s c d = true -> lv s' c = false).

  Lemma modf_activated0_seg : forall Z s c, Seg Z s (modf s c (set_activated 0%Z)).
  Proof.
    intros Z s c. unfold modf. destruct (getf s c) as [i|] eqn:E; [|apply seg_refl].
    apply same_shape_seg.
    - apply srel_set_activated; unfold anyR; auto.
    - eapply same_shape_setf; eauto.
  Qed.

  Lemma abort_same_seg : forall Z fid l s s',
    ranked rk s -> Zinv Z s -> abort_same ab fid l s = Ok s' -> Seg Z s s'.
  Proof.
    induction l as [|c l IH]; simpl; intros s s' Hr HZ H.
    - inversion H; apply seg_refl.
    - destruct (getf s c) as [ci|] eqn:E; try discriminate.
      destruct (N.eqb (i_flow ci) fid); [|eapply IH; eauto].
      bind_inv H.
      destruct (Hab2 Z _ _ _ _ Hr HZ Hb) as (G1 & _).
      assert (G2 : Seg Z s (modf s0 c (set_activated 0%Z))).
      { eapply seg_trans; [exact G1|apply modf_activated0_seg]. }
      eapply seg_trans; [exact G2|].
      destruct G2 as (S2 & _).
      eapply IH; eauto using srel_ranked, zinv_mono.
  Qed.

  Lemma abort_children_seg : forall Z l s s',
    ranked rk s -> Zinv Z s -> abort_children ab l s = Ok s' ->
    Seg Z s s' /\ (forall c, In c l -> Z c -> lst s' c = false).
  Proof.
    induction l as [|c l IH]; simpl; intros s s' Hr HZ H.
    - inversion H; split; [apply seg_refl|tauto].
    - destruct (getf s c) as [ci|] eqn:E.
      + destruct (is_child_activated s ci) eqn:Eca.
        * destruct (IH _ _ Hr HZ H) as (G & Hd). split; auto.
          intros c' [<-|Hin] Hc'; auto.
          destruct (zinv_not_ref _ _ _ _ HZ Hc' E) as (_ & Hn). congruence.
        * bind_inv H.
          destruct (Hab2 Z _ _ _ _ Hr HZ Hb) as (G1 & Hp).
          assert (S1 : SrelT s s0) by apply G1.
          destruct (IH _ _ (srel_ranked _ _ _ _ _ S1 Hr) (zinv_mono _ _ _ _ _ S1 HZ) H) as (G2 & Hd).
          split; [eapply seg_trans; eauto|].
          intros c' [<-|Hin] Hc'; auto.
          destruct (zinv_not_ref _ _ _ _ HZ Hc' E) as (Hn & _).
          eapply lst_mono; [apply G2|]. apply lst_lv. apply Hp.
          unfold proceeds. rewrite E, Hn. auto.
      + destruct (IH _ _ Hr HZ H) as (G & Hd). split; auto.
        intros c' [<-|Hin] Hc'; auto.
        unfold lst. destruct G as (S & _). rewrite (srel_none _ _ _ _ _ S E); auto.
  Qed.

  Lemma deactivate_seg : forall Z s f d s1 b,
    ranked rk s -> Zinv Z s -> deactivate ab s f d = Ok (s1, b) ->
    Seg Z s s1 /\ (proceeds s f d = true -> b = true).
  Proof.
    unfold deactivate, proceeds; intros Z s f d s1 b Hr HZ H.
    destruct (getf s f) as [i|] eqn:E; try discriminate.
    apply bind_ok in H. destruct H as (isref & Hisref & H).
    destruct isref.
    - destruct d; [|discriminate]. rewrite Hisref.
      assert (G1 : Seg Z s (modf s f (set_activated (i_activated i - 1)%Z))).
      { rewrite (modf_some _ _ _ _ E). apply same_shape_seg.
        - apply srel_set_activated; unfold anyR; auto. right; split; auto.
          unfold is_ref_activated in Hisref.
          destruct (0 <? i_activated i)%Z eqn:Ez; [apply Z.ltb_lt in Ez; auto|discriminate].
        - eapply same_shape_setf; eauto. }
      destruct (i_activated i - 1 =? 0)%Z eqn:Ez.
      + bind_inv H. inversion H; subst. split; auto.
        eapply seg_trans; [exact G1|]. destruct G1 as (S1 & _).
        eapply abort_same_seg; eauto using srel_ranked, zinv_mono.
      + inversion H; subst. split; auto.
        intros Hp. apply Z.eqb_eq in Hp. apply Z.eqb_neq in Ez. lia.
    - inversion H; subst. split; [apply seg_refl|auto].
  Qed.

  Lemma prologue_seg : forall Z skip s f d s3 go,
    ranked rk s -> Zinv Z s -> prologue ab skip s f d = Ok (s3, go) ->
    Seg Z s s3 /\
    (go = true -> exists i3, getf s3 f = Some i3 /\ skip (i_status i3) = false /\
                  forall c, In c (i_children i3) -> Z c -> lst s3 c = false) /\
    (go = false -> proceeds s f d = true ->
       exists i3, getf s3 f = Some i3 /\ skip (i_status i3) = true).
  Proof.
    unfold prologue; intros Z skip s f d s3 go Hr HZ H.
    apply bind_ok in H. destruct H as ([s1 b] & Hd & H). simpl in H.
    destruct (deactivate_seg Z _ _ _ _ _ Hr HZ Hd) as (G1 & Hpb).
    assert (S1 : SrelT s s1) by apply G1.
    destruct b.
    2:{ inversion H; subst. split; auto. split; [discriminate|].
        intros _ Hp. specialize (Hpb Hp). discriminate. }
    destruct (getf s1 f) as [i1|] eqn:E1; try discriminate.
    destruct (skip (i_status i1)) eqn:Esk.
    { inversion H; subst. split; auto. split; [discriminate|]. intros _ _. eauto. }
    bind_inv H.
    assert (Hr1 : ranked rk s1) by (eapply srel_ranked; eauto).
    assert (HZ1 : Zinv Z s1) by (eapply zinv_mono; eauto).
    destruct (abort_children_seg Z _ _ _ Hr1 HZ1 Hb) as (G2 & Hdone).
    destruct (abort_children_self rk ab Hab1 (i_children i1) s1 s0 f i1) as (i2 & E2 & Hst & _ & _ & _ & _ & _ & Hch); auto.
    { apply Forall_forall. intros c Hin. eapply Hr1; eauto. }
    rewrite E2 in H. bind_inv H. inversion H; subst.
    assert (Hfl : flows s3 = flows s0) by (eapply stop_actions_flows; eauto).
    assert (G3 : Seg Z s0 s3).
    { apply same_shape_seg; [|apply same_shape_flows; auto].
      eapply stop_actions_srel; eauto. unfold anyA; auto. }
    split; [eapply seg_trans; [exact G1|eapply seg_trans; eauto]|].
    split; [|discriminate].
    intros _. exists i2. unfold getf. rewrite Hfl. split; auto. split; [congruence|].
    intros c Hin Hc. unfold lst, getf. rewrite Hfl. apply Hdone; auto.
  Qed.
End Pass2.

Lemma restart_getf : forall s f d s' x i, restart s f d = Ok s' -> getf s x = Some i ->
  exists i', getf s' x = Some i' /\ i_status i' = i_status i /\ i_children i' = i_children i /\
             i_activated i' = i_activated i.
Proof.
  unfold restart; intros s f d s' x i H E.
  destruct (getf s f) as [fi|] eqn:Ef; try discriminate.
  destruct (negb d && (0 <? i_activated fi)%Z && negb (i_nis fi)); [|inversion H; subst; eauto].
  apply bind_ok in H. destruct H as (src & _ & H). inversion H; subst.
  unfold modf. rewrite getf_emit1, Ef.
  destruct (N.eq_dec f x) as [->|Hne].
  - rewrite (getf_setf_same _ _ _ fi); [|rewrite getf_emit1; auto].
    rewrite Ef in E; inversion E; subst. eexists; split; eauto.
  - rewrite getf_setf_other; auto. rewrite getf_emit1. eauto.
Qed.

Lemma epilogue_abort_status : forall s3 f d s' i, epilogue_abort s3 f d = Ok s' -> getf s3 f = Some i ->
  exists i', getf s' f = Some i' /\ i_status i' = FStopped.
Proof.
  unfold epilogue_abort; intros s3 f d s' i H E. bind_inv H.
  destruct (unlink_getf_status _ _ _ _ Hb E) as (i4 & E4 & _).
  assert (E5 : getf (emit1 (modf s f (set_status FStopped)) (EFailed f)) f = Some (set_status FStopped i4)).
  { rewrite getf_emit1, (modf_some _ _ _ _ E4). eapply getf_setf_same; eauto. }
  destruct (restart_getf _ _ _ _ _ _ H E5) as (i' & E' & Hs & _). eauto.
Qed.

Lemma count_occ_in_iff : forall (l : list uid) c, In c l <-> (count_occ N.eq_dec l c > 0)%nat.
Proof. intros; apply count_occ_In. Qed.

(* an operation confined to the single instance f (R = eq f) *)
Lemma single_seg : forall (Z : uid -> Prop) s s' f i,
  Srel (eq f) anyA s s' -> SrelT s s' -> getf s f = Some i ->
  lst s' f = false ->
  (forall c, In c (i_children i) -> Z c -> lst s c = false) ->
  Seg Z s s'.
Proof.
  intros Z s s' f i S ST E Hf Hdone; split; [auto|split].
  - intros x xi xi' c Ex Ex' Hin Hnin.
    destruct (N.eq_dec c f) as [->|Hne]; auto.
    exfalso. apply Hnin.
    pose proof (sr_flows _ _ _ _ S x) as F. rewrite Ex, Ex' in F.
    destruct F as (_ & _ & _ & _ & _ & _ & K & _).
    apply count_occ_in_iff. rewrite K; [apply count_occ_in_iff; auto|congruence].
  - intros x xi c Ex Hl Hlv Hin HZ.
    destruct (N.eq_dec f x) as [<-|Hne].
    + rewrite E in Ex; inversion Ex; subst. eapply lst_mono; eauto.
    + exfalso. pose proof (sr_flows _ _ _ _ S x) as F. rewrite Ex in F. unfold lv in Hlv.
      destruct (getf s' x) as [xi'|]; try tauto.
      destruct F as (_ & _ & _ & _ & _ & _ & _ & _ & N). destruct (N Hne) as (_ & _ & Hs). congruence.
Qed.

Lemma epilogue_abort_seg : forall (Z : uid -> Prop) s3 f d s' i3,
  getf s3 f = Some i3 -> live (i_status i3) = true ->
  (forall c, In c (i_children i3) -> Z c -> lst s3 c = false) ->
  epilogue_abort s3 f d = Ok s' -> Seg Z s3 s' /\ lv s' f = false.
Proof.
  intros Z s3 f d s' i3 E Hl Hdone H.
  destruct (epilogue_abort_status _ _ _ _ _ H E) as (i' & E' & Hs).
  assert (Hlv : lv s' f = false) by (unfold lv; rewrite E', Hs; auto).
  split; auto.
  eapply single_seg; eauto.
  - eapply epilogue_abort_srel; eauto.
  - eapply epilogue_abort_srel; eauto. unfold anyR; auto.
  - apply lst_lv; auto.
Qed.

Theorem abort_good : forall rk n (Z : uid -> Prop) s f d s',
  ranked rk s -> Zinv Z s -> abort n s f d = Ok s' ->
  Seg Z s s' /\ (proceeds s f d = true -> lv s' f = false).
Proof.
  induction n as [|n IH]; simpl; intros Z s f d s' Hr HZ H; try discriminate.
  apply bind_ok in H. destruct H as ([s3 go] & Hp & H). simpl in H.
  destruct (prologue_seg rk (abort n) (abort_srel rk n) IH Z _ _ _ _ _ _ Hr HZ Hp) as (G & Hgo & Hstop).
  destruct go.
  - destruct (Hgo eq_refl) as (i3 & E3 & Hsk & Hdone).
    destruct (epilogue_abort_seg Z _ _ _ _ _ E3 (skip_abort_live _ Hsk) Hdone H) as (G2 & Hlv).
    split; auto. eapply seg_trans; eauto.
  - inversion H; subst. split; auto.
    intros Hpr. destruct (Hstop eq_refl Hpr) as (i3 & E3 & Hsk).
    unfold lv. rewrite E3. unfold skip_abort in Hsk. unfold live.
    destruct (listening (i_status i3)), (is_stopping (i_status i3)); simpl in *; auto; discriminate.
Qed.

(* ------------------------------------------------------------------------------------ *)
(* Part 5: statements *)

(* activated = 0 in state s: "started", not activated *)
Definition act0 (s : st) (c : uid) : Prop := forall i, getf s c = Some i -> i_activated i = 0%Z.

(* the flows f started, transitively, through instances that are running *)
Inductive started_by (s : st) (f : uid) : uid -> Prop :=
| sb_child : forall i c, getf s f = Some i -> In c (i_children i) -> act0 s c -> started_by s f c
| sb_trans : forall c ci d, started_by s f c -> getf s c = Some ci -> listening (i_status ci) = true ->
    In d (i_children ci) -> act0 s d -> started_by s f d.

Lemma act0_zinv : forall s, Zinv (act0 s) s.
Proof. unfold Zinv, act0; intros; auto. Qed.

Lemma listening_ended : forall (R : uid -> Prop) x i i', irel R x i i' ->
  listening (i_status i) = true -> listening (i_status i') = false -> live (i_status i') = false.
Proof.
  intros R x i i' (_ & _ & _ & _ & [Hs|(_ & [(Hs & _)|([Hs|Hs] & _)])] & _) Hl Hl'; rewrite Hs in *; auto; congruence.
Qed.

Lemma started_chain : forall s s' f,
  Seg (act0 s) s s' ->
  (forall i c, getf s f = Some i -> In c (i_children i) -> act0 s c -> lst s' c = false) ->
  forall x, started_by s f x -> lst s' x = false.
Proof.
  intros s s' f (S & _ & G) H1 x Hx. induction Hx as [i c E Hin Hz|c ci d Hc IH E Hl Hin Hz]; eauto.
  eapply G; eauto.
  - unfold live; rewrite Hl; auto.
  - destruct (srel_fwd _ _ _ _ _ _ S E) as (ci' & E' & Hrel).
    unfold lst in IH. unfold lv. rewrite E' in *. eapply listening_ended; eauto.
Qed.

(* after _abort_flow of a running instance f, no flow started by f (transitively) is listening *)
Theorem abort_children_stop : forall rk n s f d s',
  ranked rk s -> abort n s f d = Ok s' -> proceeds s f d = true -> lv s f = true ->
  lv s' f = false /\ forall x, started_by s f x -> lst s' x = false.
Proof.
  intros rk n s f d s' Hr H Hp Hl.
  destruct (abort_good rk n (act0 s) _ _ _ _ Hr (act0_zinv s) H) as (G & He).
  specialize (He Hp). split; auto.
  apply started_chain; auto.
  intros i c E Hin Hz. destruct G as (_ & _ & G). eapply G; eauto.
  unfold lv in Hl. rewrite E in Hl; auto.
Qed.

Lemma epilogue_finish_srelT : forall s3 f d s' i,
  getf s3 f = Some i -> listening (i_status i) = true -> epilogue_finish s3 f d = Ok s' -> SrelT s3 s'.
Proof. intros; eapply epilogue_finish_srel; eauto. unfold anyR; auto. Qed.

(* ... and the same after _finish_flow *)
Theorem finish_children_stop : forall rk n s f d s',
  ranked rk s -> finish n s f d = Ok s' -> proceeds s f d = true -> lst s f = true ->
  forall x, started_by s f x -> lst s' x = false.
Proof.
  unfold finish; intros rk n s f d s' Hr H Hp Hl.
  apply bind_ok in H. destruct H as ([s3 go] & Hpr & H). simpl in H.
  destruct (prologue_seg rk (abort n) (abort_srel rk n) (abort_good rk n) (act0 s) _ _ _ _ _ _ Hr (act0_zinv s) Hpr)
    as (G & Hgo & Hstop).
  assert (S : SrelT s s3) by apply G.
  assert (H3 : forall x, started_by s f x -> lst s3 x = false).
  { apply started_chain; auto. intros i c E Hin Hz.
    destruct (srel_fwd _ _ _ _ _ _ S E) as (i3 & E3 & Hrel).
    destruct go.
    - destruct (Hgo eq_refl) as (i3' & E3' & _ & Hdone). rewrite E3 in E3'; inversion E3'; subst i3'.
      destruct (in_dec N.eq_dec c (i_children i3)) as [Hin3|Hnin3]; auto.
      destruct G as (_ & Rm & _). eapply Rm; eauto.
    - destruct (Hstop eq_refl Hp) as (i3' & E3' & Hsk). rewrite E3 in E3'; inversion E3'; subst i3'.
      destruct G as (_ & _ & Gd). eapply Gd; eauto.
      + unfold lst in Hl. rewrite E in Hl. unfold live; rewrite Hl; auto.
      + unfold lv; rewrite E3. eapply listening_ended; eauto.
        * unfold lst in Hl; rewrite E in Hl; auto.
        * unfold skip_finish in Hsk. destruct (listening (i_status i3)); auto; discriminate. }
  destruct go; [|inversion H; subst; auto].
  destruct (Hgo eq_refl) as (i3 & E3 & Hsk & _).
  intros x Hx. eapply lst_mono; [eapply epilogue_finish_srelT; eauto using skip_finish_listening|auto].
Qed.

(* the subtree of f: everything reachable through children lists *)
Inductive reach (s : st) (f : uid) : uid -> Prop :=
| reach_self : reach s f f
| reach_child : forall x i c, reach s f x -> getf s x = Some i -> In c (i_children i) -> reach s f c.

Definition owned (s : st) (f : uid) (a : uid) : Prop :=
  exists x i, reach s f x /\ getf s x = Some i /\ In a (i_actions i).

Lemma reach_closed : forall s f, closed (reach s f) s.
Proof. intros s f x i c Hx E Hin. eapply reach_child; eauto. Qed.

Lemma reach_owns : forall s f, owns (reach s f) (owned s f) s.
Proof. intros s f x i a Hx E Hin. exists x, i; auto. Qed.

(* everything except the children list *)
Definition same_but_children (i i' : inst) : Prop :=
  i_flow i' = i_flow i /\ i_status i' = i_status i /\ i_parent i' = i_parent i /\
  i_actions i' = i_actions i /\ i_scopes i' = i_scopes i /\ i_activated i' = i_activated i /\
  i_nis i' = i_nis i.

(* whole-state frame: what an operation confined to (R, A) leaves alone *)
Definition frame (R A : uid -> Prop) (s s' : st) : Prop :=
  (forall x, ~ R x ->
     match getf s x, getf s' x with
     | None, None => True
     | Some i, Some i' =>
         same_but_children i i' /\
         (forall c, In c (i_children i') -> In c (i_children i)) /\
         (forall c, ~ R c -> count_occ N.eq_dec (i_children i') c = count_occ N.eq_dec (i_children i) c)
     | _, _ => False
     end) /\
  (forall x, getf s x = None -> getf s' x = None) /\
  (forall a, ~ A a -> geta s' a = geta s a) /\
  (forall a, geta s a = None -> geta s' a = None) /\
  (exists delta, out s' = out s ++ delta /\ Forall (emit_ok R A) delta).

Lemma srel_frame : forall (R A : uid -> Prop) s s', Srel R A s s' -> frame R A s s'.
Proof.
  intros R A s s' [F Ac (delta & O & E & _)]. repeat split.
  - intros x Hx. specialize (F x). destruct (getf s x) as [i|], (getf s' x) as [i'|]; auto.
    destruct F as (F1 & P1 & A1 & S1 & _ & C1 & K1 & _ & N1). destruct (N1 Hx) as (? & ? & ?).
    unfold same_but_children. repeat split; auto.
  - intros x Hx. specialize (F x). rewrite Hx in F. destruct (getf s' x); tauto.
  - intros a Ha. specialize (Ac a). destruct (geta s a) as [c|], (geta s' a) as [c'|]; try tauto.
    destruct Ac as [->|(HA & _)]; tauto.
  - intros a Ha. specialize (Ac a). rewrite Ha in Ac. destruct (geta s' a); tauto.
  - eauto.
Qed.

Theorem abort_frame : forall rk n s f d s',
  ranked rk s -> abort n s f d = Ok s' -> frame (reach s f) (owned s f) s s'.
Proof.
  intros. apply srel_frame. eapply abort_srel; eauto using reach_closed, reach_owns, reach_self.
Qed.

Theorem finish_frame : forall rk n s f d s',
  ranked rk s -> finish n s f d = Ok s' -> frame (reach s f) (owned s f) s s'.
Proof.
  intros. apply srel_frame. eapply finish_srel; eauto using reach_closed, reach_owns, reach_self.
Qed.

(* ------------------------------------------------------------------------------------ *)
(* Stop accounting *)

Lemma arel_count_le : forall (A : uid -> Prop) a c c', arel A a c c' -> (a_count c' <= a_count c)%Z.
Proof. intros A a c c' [->|(_ & _ & Hlt & _)]; lia. Qed.

Lemma srel_acts_fwd : forall (R A : uid -> Prop) s s' a c, Srel R A s s' -> geta s a = Some c ->
  exists c', geta s' a = Some c' /\ arel A a c c'.
Proof.
  intros R A s s' a c [_ Ac _] H. specialize (Ac a). rewrite H in Ac.
  destruct (geta s' a) as [c'|]; try tauto. eauto.
Qed.

(* what the Stop events emitted by an operation say about the actions *)
Definition stops_spec (A : uid -> Prop) (s s' : st) : Prop :=
  exists delta, out s' = out s ++ delta /\
    forall a,
      (nstops a delta <= 1)%nat /\
      (nstops a delta = 1%nat <->
         (exists c, geta s a = Some c /\ active (a_status c) = true) /\
         geta s' a = Some (mkAct AStopping 0%Z)) /\
      (nstops a delta = 1%nat -> A a) /\
      (nstops a delta = 0%nat -> ast s' a = ast s a).

Lemma srel_stops : forall (R A : uid -> Prop) s s', Srel R A s s' -> stops_spec A s s'.
Proof.
  intros R A s s' [_ _ (delta & O & _ & N)]. exists delta; split; auto.
  intros a. destruct (N a) as [(Hn & Hs)|(Hn & HA & (c & Hc & Hact) & Hg)].
  - rewrite Hn. repeat split; auto; try discriminate.
    intros ((c & Hc & Hact) & Hg). exfalso. unfold ast in Hs. rewrite Hc, Hg in Hs. simpl in Hs.
    inversion Hs as [Hs']. rewrite <- Hs' in Hact. discriminate.
  - rewrite Hn. repeat split; auto; try discriminate; eauto.
Qed.

Lemma stop_actions_decr : forall l s s', stop_actions l s = Ok s' ->
  forall a c, In a l -> geta s a = Some c -> active (a_status c) = true ->
  exists c', geta s' a = Some c' /\ (a_count c' < a_count c)%Z.
Proof.
  induction l as [|a0 l IH]; simpl; intros s s' H a c Hin Hc Hact; [tauto|].
  bind_inv H.
  assert (S0 : Srel anyR anyA s s0) by (eapply srel_stop_action; eauto; exact I).
  assert (S1 : Srel anyR anyA s0 s') by (eapply stop_actions_srel; eauto; intros; exact I).
  destruct (srel_acts_fwd _ _ _ _ _ _ S0 Hc) as (c0 & Hc0 & Hr0).
  destruct (srel_acts_fwd _ _ _ _ _ _ S1 Hc0) as (c' & Hc' & Hr1).
  pose proof (arel_count_le _ _ _ _ Hr1) as Hle.
  destruct Hr0 as [->|(_ & _ & Hlt & _)]; [|exists c'; split; auto; lia].
  destruct Hin as [<-|Hin]; [|eapply IH; eauto].
  exists c'; split; auto.
  unfold stop_action in Hb. rewrite Hc, Hact in Hb.
  destruct (a_count c - 1 =? 0)%Z; inversion Hb; subst.
  - rewrite geta_emit1, (geta_seta_same _ _ _ _ Hc) in Hc0.
    apply (f_equal (option_map a_count)) in Hc0. simpl in Hc0. inversion Hc0. lia.
  - rewrite (geta_seta_same _ _ _ _ Hc) in Hc0.
    apply (f_equal (option_map a_count)) in Hc0. simpl in Hc0. inversion Hc0. lia.
Qed.

Section Pass3.
  Variable rk : uid -> nat.
  Variable ab : st -> uid -> bool -> res st.
  Hypothesis Hab1 : forall (R A : uid -> Prop) s c d s',
    ranked rk s -> closed R s -> owns R A s -> R c -> ab s c d = Ok s' -> Srel R A s s'.

  (* the deactivate prologue leaves status / children / actions of f itself alone *)
  Lemma deactivate_self : forall s f d s1 b i,
    ranked rk s -> deactivate ab s f d = Ok (s1, b) -> getf s f = Some i ->
    exists i1, getf s1 f = Some i1 /\ i_status i1 = i_status i /\ i_actions i1 = i_actions i /\
               i_flow i1 = i_flow i /\ i_parent i1 = i_parent i /\ i_nis i1 = i_nis i /\
               (b = true -> (i_activated i1 = i_activated i \/ i_activated i1 = 0%Z)) /\
               (d = false -> s1 = s) /\
               (d = true -> is_ref_activated s i = Ok true -> b = true -> i_activated i1 = 0%Z).
  Proof.
    unfold deactivate; intros s f d s1 b i Hr H E. rewrite E in H.
    apply bind_ok in H. destruct H as (isref & Hisref & H).
    destruct isref.
    2:{ inversion H; subst. exists i; repeat split; auto.
        intros Hd Hx _. subst d. rewrite Hx in Hisref. discriminate. }
    destruct d; [|discriminate].
    assert (Hpos : (0 < i_activated i)%Z).
    { unfold is_ref_activated in Hisref.
      destruct (0 <? i_activated i)%Z eqn:Ez; [apply Z.ltb_lt in Ez; auto|discriminate]. }
    set (sm := modf s f (set_activated (i_activated i - 1)%Z)) in *.
    assert (Em : getf sm f = Some (set_activated (i_activated i - 1)%Z i)).
    { unfold sm. rewrite (modf_some _ _ _ _ E). eapply getf_setf_same; eauto. }
    assert (Sm : Srel anyR anyA s sm).
    { unfold sm. rewrite (modf_some _ _ _ _ E). apply srel_set_activated; unfold anyR; auto. }
    destruct (i_activated i - 1 =? 0)%Z eqn:Ez.
    - bind_inv H. inversion H; subst.
      assert (S : Srel (below rk f) anyA sm s1).
      { eapply (abort_same_srel rk ab Hab1 (below rk f) anyA (i_flow i) (i_children i));
          eauto using below_closed, anyA_owns, srel_ranked.
        apply Forall_forall. intros c Hin. eapply Hr; eauto. }
      destruct (srel_fwd _ _ _ _ _ _ S Em) as (i1 & E1 & Hrel).
      exists i1. destruct Hrel as (F1 & P1 & A1 & _ & _ & _ & _ & _ & N1).
      destruct N1 as (Ha & Hn & Hs); [unfold below; lia|]. simpl in *.
      apply Z.eqb_eq in Ez.
      repeat match goal with |- _ /\ _ => split end; auto; try discriminate; intros; try lia;
        try (right; lia).
    - inversion H; subst. eexists; split; [exact Em|]. simpl. repeat split; auto; discriminate.
  Qed.

  Lemma prologue_inv : forall skip s f d s3 i,
    ranked rk s -> prologue ab skip s f d = Ok (s3, true) -> getf s f = Some i ->
    exists s1 s0 i1 i2,
      deactivate ab s f d = Ok (s1, true) /\ getf s1 f = Some i1 /\ skip (i_status i1) = false /\
      abort_children ab (i_children i1) s1 = Ok s0 /\ getf s0 f = Some i2 /\
      stop_actions (i_actions i2) s0 = Ok s3 /\
      i_actions i2 = i_actions i /\ i_status i2 = i_status i /\ i_nis i2 = i_nis i /\
      i_flow i2 = i_flow i /\ i_parent i2 = i_parent i /\
      (i_activated i2 = i_activated i \/ i_activated i2 = 0%Z) /\
      Srel (below rk f) anyA s1 s0 /\ (d = false -> s1 = s) /\ i_activated i2 = i_activated i1.
  Proof.
    unfold prologue; intros skip s f d s3 i Hr H E.
    apply bind_ok in H. destruct H as ([s1 b] & Hd & H). simpl in H.
    destruct b; [|discriminate].
    destruct (deactivate_self _ _ _ _ _ _ Hr Hd E) as (i1 & E1 & Hs1 & Ha1 & Hf1 & Hp1 & Hn1 & Hact1 & Hd1 & _).
    rewrite E1 in H.
    destruct (skip (i_status i1)) eqn:Esk; [discriminate|].
    bind_inv H.
    assert (Hr1 : ranked rk s1).
    { eapply srel_ranked; [|exact Hr].
      eapply (deactivate_srel rk ab Hab1 anyR anyA); eauto using anyR_closed, anyA_owns. exact I. }
    assert (Hl : Forall (below rk f) (i_children i1)).
    { apply Forall_forall. intros c Hin. eapply Hr1; eauto. }
    assert (S : Srel (below rk f) anyA s1 s0).
    { eapply (abort_children_srel rk ab Hab1 (below rk f) anyA (i_children i1)); eauto using below_closed, anyA_owns. }
    destruct (abort_children_self rk ab Hab1 _ _ _ f i1 Hr1 Hl Hb E1) as (i2 & E2 & Hs2 & Hact2 & Hn2 & Hf2 & Hp2 & Ha2 & _).
    rewrite E2 in H. bind_inv H. inversion H; subst.
    assert (Hact' : i_activated i2 = i_activated i \/ i_activated i2 = 0%Z).
    { destruct (Hact1 eq_refl) as [Hx|Hx]; [left|right]; congruence. }
    exists s1, s0, i1, i2.
    repeat match goal with |- _ /\ _ => split end; auto; congruence.
  Qed.
End Pass3.

(* every unfinished action of an instance that ends gives up one share (or is stopped) *)
Theorem abort_own_actions : forall rk n s f d s' i,
  ranked rk s -> abort n s f d = Ok s' -> proceeds s f d = true -> getf s f = Some i ->
  live (i_status i) = true ->
  forall a c, In a (i_actions i) -> geta s a = Some c -> active (a_status c) = true ->
  exists c', geta s' a = Some c' /\ (a_count c' < a_count c)%Z.
Proof.
  destruct n as [|n]; simpl; intros s f d s' i Hr H Hp E Hl a c Hin Hc Hact; try discriminate.
  apply bind_ok in H. destruct H as ([s3 go] & Hpr & H). simpl in H.
  destruct (prologue_seg rk (abort n) (abort_srel rk n) (abort_good rk n) (act0 s) _ _ _ _ _ _ Hr (act0_zinv s) Hpr)
    as (G & _ & Hstop).
  destruct go.
  2:{ exfalso. destruct (Hstop eq_refl Hp) as (i3 & E3 & Hsk).
      (* f was live, the prologue does not touch f's status: skip cannot hold *)
      unfold prologue in Hpr. apply bind_ok in Hpr. destruct Hpr as ([s1 b] & Hd & Hpr). simpl in Hpr.
      destruct (deactivate_self rk (abort n) (abort_srel rk n) _ _ _ _ _ _ Hr Hd E) as (i1 & E1 & Hs1 & _).
      destruct b.
      - rewrite E1 in Hpr. destruct (skip_abort (i_status i1)) eqn:Esk.
        + rewrite Hs1 in Esk. unfold skip_abort, live in *.
          destruct (listening (i_status i)), (is_stopping (i_status i)); simpl in *; discriminate.
        + bind_inv Hpr. destruct (getf s0 f); try discriminate. bind_inv Hpr. discriminate.
      - destruct (deactivate_seg rk (abort n) (abort_good rk n) (act0 s) _ _ _ _ _ Hr (act0_zinv s) Hd) as (_ & Hb).
        specialize (Hb Hp). discriminate. }
  destruct (prologue_inv rk (abort n) (abort_srel rk n) _ _ _ _ _ _ Hr Hpr E)
    as (s1 & s0 & i1 & i2 & Hd & E1 & Hsk & Hch & E2 & Hsa & Ha2 & _).
  assert (S10 : SrelT s s0).
  { eapply Srel_trans.
    - eapply (deactivate_srel rk (abort n) (abort_srel rk n) anyR anyA); eauto using anyR_closed, anyA_owns. exact I.
    - assert (S1 : SrelT s s1).
      { eapply (deactivate_srel rk (abort n) (abort_srel rk n) anyR anyA); eauto using anyR_closed, anyA_owns. exact I. }
      eapply (abort_children_srel rk (abort n) (abort_srel rk n) anyR anyA (i_children i1));
        eauto using anyR_closed, anyA_owns, srel_ranked.
      apply Forall_forall; intros; exact I. }
  destruct (srel_acts_fwd _ _ _ _ _ _ S10 Hc) as (c0 & Hc0 & Hr0).
  assert (S3 : SrelT s0 s3) by (eapply stop_actions_srel; eauto; intros; exact I).
  assert (S4 : SrelT s3 s').
  { destruct (prologue_seg rk (abort n) (abort_srel rk n) (abort_good rk n) (act0 s) _ _ _ _ _ _ Hr (act0_zinv s) Hpr)
      as (_ & Hgo & _). destruct (Hgo eq_refl) as (i3 & E3 & Hsk3 & _).
    eapply epilogue_abort_srel; eauto using skip_abort_live. exact I. }
  destruct Hr0 as [->|(_ & _ & Hlt & _)].
  - rewrite Ha2 in Hsa.
    destruct (stop_actions_decr _ _ _ Hsa a c Hin Hc0 Hact) as (c3 & Hc3 & Hlt3).
    destruct (srel_acts_fwd _ _ _ _ _ _ S4 Hc3) as (c' & Hc' & Hr').
    exists c'; split; auto. pose proof (arel_count_le _ _ _ _ Hr'). lia.
  - destruct (srel_acts_fwd _ _ _ _ _ _ S3 Hc0) as (c3 & Hc3 & Hr3).
    destruct (srel_acts_fwd _ _ _ _ _ _ S4 Hc3) as (c' & Hc' & Hr').
    exists c'; split; auto.
    pose proof (arel_count_le _ _ _ _ Hr3). pose proof (arel_count_le _ _ _ _ Hr'). lia.
Qed.

(* ------------------------------------------------------------------------------------ *)
(* Restart of activated flows *)

Definition restart_src (s : st) (i : inst) (f : uid) : uid :=
  match i_parent i with
  | None => f
  | Some p => match getf s p with
              | Some pi => if N.eqb (i_flow pi) (i_flow i) then p else f
              | None => f
              end
  end.

Definition restart_events (s : st) (i : inst) (f : uid) : list emit :=
  if (0 <? i_activated i)%Z && negb (i_nis i)
  then [ERestart f (restart_src s i f) (i_activated i)] else [].

Lemma unlink_out : forall s f s', unlink s f = Ok s' -> out s' = out s.
Proof.
  unfold unlink; intros s f s' H. destruct (getf s f) as [i|]; try discriminate.
  destruct (i_activated i =? 0)%Z; [|inversion H; auto].
  destruct (i_parent i) as [p|]; [|inversion H; auto].
  destruct (getf s p) as [pi|]; [|inversion H; auto].
  destruct (remove1 f (i_children pi)); inversion H; auto.
Qed.

Lemma modf_out : forall s x g, out (modf s x g) = out s.
Proof. unfold modf; intros; destruct (getf s x); auto. Qed.

Lemma restart_out : forall s f d s' i, restart s f d = Ok s' -> getf s f = Some i ->
  out s' = out s ++ (if d then [] else restart_events s i f) /\
  (d = false -> (0 < i_activated i)%Z -> i_nis i = false ->
     exists i', getf s' f = Some i' /\ i_nis i' = true).
Proof.
  unfold restart, restart_events, restart_src; intros s f d s' i H E. rewrite E in H.
  destruct d; simpl in *.
  - inversion H; subst. rewrite app_nil_r. split; auto; discriminate.
  - destruct ((0 <? i_activated i)%Z && negb (i_nis i)) eqn:Ec.
    + apply bind_ok in H. destruct H as (src & Hsrc & H). inversion H; subst.
      rewrite modf_out, out_emit1. split.
      * f_equal. f_equal. f_equal.
        destruct (i_parent i) as [p|]; [|inversion Hsrc; auto].
        destruct (getf s p) as [pi|]; [|discriminate]. inversion Hsrc; auto.
      * intros _ _ _. unfold modf. rewrite getf_emit1, E.
        eexists; split; [eapply getf_setf_same; rewrite getf_emit1; eauto|auto].
    + inversion H; subst. rewrite app_nil_r. split; auto.
      intros _ Hp Hn. apply Z.ltb_lt in Hp. rewrite Hp, Hn in Ec. discriminate.
Qed.

Lemma unlink_getf_fields : forall s f s' x i, unlink s f = Ok s' -> getf s x = Some i ->
  exists i', getf s' x = Some i' /\ i_flow i' = i_flow i /\ i_activated i' = i_activated i /\
             i_nis i' = i_nis i /\ i_parent i' = i_parent i /\ i_status i' = i_status i.
Proof.
  unfold unlink; intros s f s' x i H E.
  destruct (getf s f) as [fi|]; try discriminate.
  destruct (i_activated fi =? 0)%Z; [|inversion H; subst; eauto 10].
  destruct (i_parent fi) as [p|]; [|inversion H; subst; eauto 10].
  destruct (getf s p) as [pi|] eqn:Ep; [|inversion H; subst; eauto 10].
  destruct (remove1 f (i_children pi)) as [l|]; inversion H; subst.
  destruct (N.eq_dec p x) as [->|Hne].
  - rewrite (getf_setf_same _ _ _ _ Ep). rewrite E in Ep; inversion Ep; subst. eexists; split; eauto 10.
  - rewrite getf_setf_other; eauto 10.
Qed.

(* what an ending instance emits last: its FlowFailed, then - unless it is being deactivated -
   the restart if it is activated and has not yet started its next instance; nothing before
   that mentions f itself *)
Theorem abort_emits : forall rk n s f d s' i,
  ranked rk s -> abort n s f d = Ok s' -> proceeds s f d = true -> getf s f = Some i ->
  live (i_status i) = true ->
  exists pre, out s' = out s ++ pre ++ EFailed f :: (if d then [] else restart_events s i f) /\
              Forall (emit_ok (below rk f) anyA) pre.
Proof.
  destruct n as [|n]; simpl; intros s f d s' i Hr H Hp E Hl; try discriminate.
  apply bind_ok in H. destruct H as ([s3 go] & Hpr & H). simpl in H.
  assert (Hgo : go = true).
  { destruct go; auto. exfalso.
    destruct (prologue_seg rk (abort n) (abort_srel rk n) (abort_good rk n) (act0 s) _ _ _ _ _ _ Hr (act0_zinv s) Hpr)
      as (_ & _ & Hstop).
    destruct (Hstop eq_refl Hp) as (i3 & E3 & Hsk).
    unfold prologue in Hpr. apply bind_ok in Hpr. destruct Hpr as ([s1 b] & Hd & Hpr). simpl in Hpr.
    destruct (deactivate_self rk (abort n) (abort_srel rk n) _ _ _ _ _ _ Hr Hd E) as (i1 & E1 & Hs1 & _).
    destruct b.
    - rewrite E1 in Hpr. destruct (skip_abort (i_status i1)) eqn:Esk.
      + rewrite Hs1 in Esk. unfold skip_abort, live in *.
        destruct (listening (i_status i)), (is_stopping (i_status i)); simpl in *; discriminate.
      + bind_inv Hpr. destruct (getf s0 f); try discriminate. bind_inv Hpr. discriminate.
    - destruct (deactivate_seg rk (abort n) (abort_good rk n) (act0 s) _ _ _ _ _ Hr (act0_zinv s) Hd) as (_ & Hb).
      specialize (Hb Hp). discriminate. }
  subst go.
  destruct (prologue_inv rk (abort n) (abort_srel rk n) _ _ _ _ _ _ Hr Hpr E)
    as (s1 & s0 & i1 & i2 & Hd & E1 & Hsk & Hch & E2 & Hsa & Ha2 & Hs2 & Hn2 & Hf2 & Hp2 & _ & S10 & Hds & Hact21).
  (* output up to s3 *)
  assert (Hr1 : ranked rk s1).
  { eapply srel_ranked; [|exact Hr].
    eapply (deactivate_srel rk (abort n) (abort_srel rk n) anyR anyA); eauto using anyR_closed, anyA_owns. exact I. }
  assert (Sd : Srel (below rk f) anyA (modf s f (fun x => x)) s1 \/ True) by (right; exact I). clear Sd.
  (* deactivate: either s1 = s or a decrement of f followed by aborts below f *)
  assert (Od : exists p1, out s1 = out s ++ p1 /\ Forall (emit_ok (below rk f) anyA) p1).
  { unfold deactivate in Hd. rewrite E in Hd.
    apply bind_ok in Hd. destruct Hd as (isref & Hisref & Hd).
    destruct isref; [|inversion Hd; subst; exists []; rewrite app_nil_r; auto].
    destruct (i_activated i - 1 =? 0)%Z; [|discriminate].
    bind_inv Hd. inversion Hd; subst s2.
    assert (Sx : Srel (below rk f) anyA (modf s f (set_activated (i_activated i - 1)%Z)) s1).
    { eapply (abort_same_srel rk (abort n) (abort_srel rk n) (below rk f) anyA (i_flow i) (i_children i));
        eauto using below_closed, anyA_owns.
      - eapply srel_ranked; [|exact Hr]. rewrite (modf_some _ _ _ _ E).
        apply (srel_set_activated anyR anyA); unfold anyR; auto. right; split; auto.
        destruct d; [|discriminate]. unfold is_ref_activated in Hisref.
        destruct (0 <? i_activated i)%Z eqn:Ez; [apply Z.ltb_lt in Ez; auto|discriminate].
      - apply below_closed. eapply srel_ranked; [|exact Hr]. rewrite (modf_some _ _ _ _ E).
        apply (srel_set_activated anyR anyA); unfold anyR; auto. right; split; auto.
        destruct d; [|discriminate]. unfold is_ref_activated in Hisref.
        destruct (0 <? i_activated i)%Z eqn:Ez; [apply Z.ltb_lt in Ez; auto|discriminate].
      - apply Forall_forall. intros c Hin. eapply Hr; eauto. }
    destruct Sx as [_ _ (p1 & O1 & F1 & _)]. rewrite modf_out in O1. eauto. }
  destruct Od as (p1 & O1 & F1).
  destruct S10 as [_ _ (p2 & O2 & F2 & _)].
  assert (S3 : Srel (below rk f) (fun _ => True) s0 s3).
  { eapply stop_actions_srel; eauto. }
  destruct S3 as [_ _ (p3 & O3 & F3 & _)].
  (* the epilogue *)
  assert (E3 : getf s3 f = Some i2).
  { unfold getf. rewrite (stop_actions_flows _ _ _ Hsa). exact E2. }
  unfold epilogue_abort in H. bind_inv H.
  destruct (unlink_getf_fields _ _ _ _ _ Hb E3) as (i4 & E4 & Hf4 & Ha4 & Hn4 & Hp4 & Hs4).
  assert (E5 : getf (emit1 (modf s2 f (set_status FStopped)) (EFailed f)) f = Some (set_status FStopped i4)).
  { rewrite getf_emit1, (modf_some _ _ _ _ E4). eapply getf_setf_same; eauto. }
  destruct (restart_out _ _ _ _ _ H E5) as (O5 & _).
  exists (p1 ++ p2 ++ p3). split.
  - rewrite O5, out_emit1, modf_out, (unlink_out _ _ _ Hb), O3, O2, O1.
    repeat rewrite <- app_assoc. simpl. do 4 f_equal.
    destruct d; auto.
    (* d = false: s1 = s, so activated / nis / parent / flow ids are those of s *)
    specialize (Hds eq_refl). subst s1. rewrite E in E1; inversion E1; subst i1.
    unfold restart_events, restart_src; simpl.
    rewrite Ha4, Hn4, Hp4, Hf4, Hact21, Hn2, Hp2, Hf2.
    destruct ((0 <? i_activated i)%Z && negb (i_nis i)); auto.
    f_equal. f_equal.
    destruct (i_parent i) as [p|]; auto.
    rewrite getf_emit1.
    (* flow id of the parent is the same in s and in the state before the restart *)
    assert (Hpf : forall pi, getf s p = Some pi ->
              exists pi', getf (modf s2 f (set_status FStopped)) p = Some pi' /\ i_flow pi' = i_flow pi).
    { intros pi Ep.
      assert (S03 : SrelT s s3).
      { eapply Srel_trans; [|eapply Srel_trans].
        - eapply (abort_children_srel rk (abort n) (abort_srel rk n) anyR anyA (i_children i));
            eauto using anyR_closed, anyA_owns. apply Forall_forall; intros; exact I.
        - eapply stop_actions_srel; eauto; intros; exact I.
        - apply Srel_refl. }
      destruct (srel_fwd _ _ _ _ _ _ S03 Ep) as (pi3 & Ep3 & Hrel3).
      destruct (unlink_getf_fields _ _ _ _ _ Hb Ep3) as (pi4 & Ep4 & Hpf4 & _).
      destruct Hrel3 as (Hpf3 & _).
      unfold modf. rewrite E4.
      destruct (N.eq_dec f p) as [<-|Hne].
      - rewrite (getf_setf_same _ _ _ _ E4). rewrite E4 in Ep4; inversion Ep4; subst.
        eexists; split; eauto. simpl. congruence.
      - rewrite getf_setf_other; auto. eexists; split; eauto. congruence. }
    destruct (getf s p) as [pi|] eqn:Ep.
    + destruct (Hpf pi eq_refl) as (pi' & Ep' & Hfl). rewrite Ep', Hfl. auto.
    + assert (S03 : SrelT s s3).
      { eapply Srel_trans; [|eapply Srel_trans].
        - eapply (abort_children_srel rk (abort n) (abort_srel rk n) anyR anyA (i_children i));
            eauto using anyR_closed, anyA_owns. apply Forall_forall; intros; exact I.
        - eapply stop_actions_srel; eauto; intros; exact I.
        - apply Srel_refl. }
      pose proof (srel_none _ _ _ _ _ S03 Ep) as Ep3.
      assert (Ep4 : getf s2 p = None).
      { unfold unlink in Hb. rewrite E3 in Hb.
        destruct (i_activated i2 =? 0)%Z; [|inversion Hb; subst; auto].
        destruct (i_parent i2) as [q|]; [|inversion Hb; subst; auto].
        destruct (getf s3 q) as [qi|] eqn:Eq; [|inversion Hb; subst; auto].
        destruct (remove1 f (i_children qi)); inversion Hb; subst.
        apply getf_setf_none; auto. }
      unfold modf. rewrite E4.
      rewrite getf_setf_none; auto.
  - repeat (apply Forall_app; split); auto.
Qed.

(* output and own fields after the common prologue (ranked: the loops work strictly below f) *)
Lemma prologue_out : forall rk n skip s f d s3 i,
  ranked rk s -> prologue (abort n) skip s f d = Ok (s3, true) -> getf s f = Some i ->
  exists pre i3,
    out s3 = out s ++ pre /\ Forall (emit_ok (below rk f) anyA) pre /\
    getf s3 f = Some i3 /\ skip (i_status i3) = false /\ i_status i3 = i_status i /\
    i_flow i3 = i_flow i /\ i_parent i3 = i_parent i /\ i_nis i3 = i_nis i /\
    (d = false -> i_activated i3 = i_activated i) /\ SrelT s s3.
Proof.
  intros rk n skip s f d s3 i Hr Hpr E.
  destruct (prologue_inv rk (abort n) (abort_srel rk n) _ _ _ _ _ _ Hr Hpr E)
    as (s1 & s0 & i1 & i2 & Hd & E1 & Hsk & Hch & E2 & Hsa & Ha2 & Hs2 & Hn2 & Hf2 & Hp2 & _ & S10 & Hds & Hact21).
  assert (Sd : SrelT s s1).
  { eapply (deactivate_srel rk (abort n) (abort_srel rk n) anyR anyA); eauto using anyR_closed, anyA_owns. exact I. }
  assert (Hr1 : ranked rk s1) by (eapply srel_ranked; eauto).
  assert (Od : exists p1, out s1 = out s ++ p1 /\ Forall (emit_ok (below rk f) anyA) p1).
  { unfold deactivate in Hd. rewrite E in Hd.
    apply bind_ok in Hd. destruct Hd as (isref & Hisref & Hd).
    destruct isref; [|inversion Hd; subst; exists []; rewrite app_nil_r; auto].
    destruct (i_activated i - 1 =? 0)%Z; [|discriminate].
    bind_inv Hd. inversion Hd; subst s2.
    assert (Hpos : (0 < i_activated i)%Z).
    { destruct d; [|discriminate]. unfold is_ref_activated in Hisref.
      destruct (0 <? i_activated i)%Z eqn:Ez; [apply Z.ltb_lt in Ez; auto|discriminate]. }
    assert (Hrm : ranked rk (modf s f (set_activated (i_activated i - 1)%Z))).
    { eapply srel_ranked; [|exact Hr]. rewrite (modf_some _ _ _ _ E).
      apply (srel_set_activated anyR anyA); unfold anyR; auto. }
    assert (Sx : Srel (below rk f) anyA (modf s f (set_activated (i_activated i - 1)%Z)) s1).
    { eapply (abort_same_srel rk (abort n) (abort_srel rk n) (below rk f) anyA (i_flow i) (i_children i));
        eauto using below_closed, anyA_owns.
      apply Forall_forall. intros c Hin. eapply Hr; eauto. }
    destruct Sx as [_ _ (p1 & O1 & F1 & _)]. rewrite modf_out in O1. eauto. }
  destruct Od as (p1 & O1 & F1).
  assert (S10' : SrelT s1 s0).
  { eapply (abort_children_srel rk (abort n) (abort_srel rk n) anyR anyA (i_children i1));
      eauto using anyR_closed, anyA_owns. apply Forall_forall; intros; exact I. }
  destruct S10 as [_ _ (p2 & O2 & F2 & _)].
  assert (S3 : Srel (below rk f) anyA s0 s3) by (eapply stop_actions_srel; eauto; intros; exact I).
  assert (S3' : SrelT s0 s3) by (eapply stop_actions_srel; eauto; intros; exact I).
  destruct S3 as [_ _ (p3 & O3 & F3 & _)].
  exists (p1 ++ p2 ++ p3), i2.
  repeat match goal with |- _ /\ _ => split end; auto.
  - rewrite O3, O2, O1. repeat rewrite <- app_assoc. auto.
  - repeat (apply Forall_app; split); auto.
  - unfold getf. rewrite (stop_actions_flows _ _ _ Hsa). exact E2.
  - destruct (deactivate_self rk (abort n) (abort_srel rk n) _ _ _ _ _ _ Hr Hd E) as (i1' & E1' & Hs1 & _).
    rewrite E1 in E1'; inversion E1'; subst i1'. rewrite Hs2, <- Hs1. exact Hsk.
  - intros Hd0. specialize (Hds Hd0). subst s1. rewrite E in E1; inversion E1; subst i1. auto.
  - eapply Srel_trans; [exact Sd|eapply Srel_trans; eauto].
Qed.

Lemma parent_flow_stable : forall s s3 p pi, SrelT s s3 -> getf s p = Some pi ->
  exists pi3, getf s3 p = Some pi3 /\ i_flow pi3 = i_flow pi.
Proof.
  intros s s3 p pi S E. destruct (srel_fwd _ _ _ _ _ _ S E) as (pi3 & E3 & (Hf & _)). eauto.
Qed.

(* _finish_flow of a running non-main instance: FlowFinished, then the restart *)
Theorem finish_emits : forall rk n s f d s' i,
  ranked rk s -> finish n s f d = Ok s' -> proceeds s f d = true -> getf s f = Some i ->
  listening (i_status i) = true -> i_flow i <> main_id ->
  exists pre, out s' = out s ++ pre ++ EFinished f :: (if d then [] else restart_events s i f) /\
              Forall (emit_ok (below rk f) anyA) pre.
Proof.
  unfold finish; intros rk n s f d s' i Hr H Hp E Hl Hmain.
  apply bind_ok in H. destruct H as ([s3 go] & Hpr & H). simpl in H.
  assert (Hgo : go = true).
  { destruct go; auto. exfalso.
    destruct (prologue_seg rk (abort n) (abort_srel rk n) (abort_good rk n) (act0 s) _ _ _ _ _ _ Hr (act0_zinv s) Hpr)
      as (_ & _ & Hstop).
    destruct (Hstop eq_refl Hp) as (i3 & E3 & Hsk).
    unfold prologue in Hpr. apply bind_ok in Hpr. destruct Hpr as ([s1 b] & Hd & Hpr). simpl in Hpr.
    destruct (deactivate_self rk (abort n) (abort_srel rk n) _ _ _ _ _ _ Hr Hd E) as (i1 & E1 & Hs1 & _).
    destruct b.
    - rewrite E1 in Hpr. destruct (skip_finish (i_status i1)) eqn:Esk.
      + rewrite Hs1 in Esk. unfold skip_finish in *. rewrite Hl in Esk. discriminate.
      + bind_inv Hpr. destruct (getf s0 f); try discriminate. bind_inv Hpr. discriminate.
    - destruct (deactivate_seg rk (abort n) (abort_good rk n) (act0 s) _ _ _ _ _ Hr (act0_zinv s) Hd) as (_ & Hb).
      specialize (Hb Hp). discriminate. }
  subst go.
  destruct (prologue_out rk n _ _ _ _ _ _ Hr Hpr E)
    as (pre & i3 & O3 & F3 & E3 & Hsk & Hs3 & Hf3 & Hp3 & Hn3 & Ha3 & S03).
  unfold epilogue_finish in H. rewrite E3 in H.
  destruct (N.eqb (i_flow i3) main_id) eqn:Em.
  { apply N.eqb_eq in Em. congruence. }
  bind_inv H.
  assert (E4 : getf (modf s3 f (set_status FFinished)) f = Some (set_status FFinished i3)).
  { rewrite (modf_some _ _ _ _ E3). eapply getf_setf_same; eauto. }
  destruct (unlink_getf_fields _ _ _ _ _ Hb E4) as (i5 & E5 & Hf5 & Ha5 & Hn5 & Hp5 & Hs5).
  assert (E6 : getf (emit1 s0 (EFinished f)) f = Some i5) by (rewrite getf_emit1; auto).
  destruct (restart_out _ _ _ _ _ H E6) as (O6 & _).
  exists pre. split; auto.
  rewrite O6, out_emit1, (unlink_out _ _ _ Hb), modf_out, O3.
  repeat rewrite <- app_assoc. simpl. do 3 f_equal.
  destruct d; auto.
  unfold restart_events, restart_src; simpl in *.
  rewrite Ha5, Hn5, Hp5, Hf5, (Ha3 eq_refl), Hn3, Hp3, Hf3.
  destruct ((0 <? i_activated i)%Z && negb (i_nis i)); auto.
  f_equal. f_equal.
  destruct (i_parent i) as [p|]; auto.
  rewrite getf_emit1.
  destruct (getf s p) as [pi|] eqn:Ep.
  - destruct (parent_flow_stable _ _ _ _ S03 Ep) as (pi3 & Ep3 & Hpf3).
    assert (Ep4 : exists pi4, getf (modf s3 f (set_status FFinished)) p = Some pi4 /\ i_flow pi4 = i_flow pi3).
    { unfold modf. rewrite E3. destruct (N.eq_dec f p) as [<-|Hne].
      - rewrite (getf_setf_same _ _ _ _ E3). rewrite E3 in Ep3; inversion Ep3; subst. eauto.
      - rewrite getf_setf_other; eauto. }
    destruct Ep4 as (pi4 & Ep4 & Hpf4).
    destruct (unlink_getf_fields _ _ _ _ _ Hb Ep4) as (pi5 & Ep5 & Hpf5 & _).
    rewrite Ep5. rewrite Hpf5, Hpf4, Hpf3. auto.
  - pose proof (srel_none _ _ _ _ _ S03 Ep) as Ep3.
    assert (Ep4 : getf (modf s3 f (set_status FFinished)) p = None).
    { unfold modf. rewrite E3. apply getf_setf_none; auto. }
    assert (Ep5 : getf s0 p = None).
    { unfold unlink in Hb. rewrite E4 in Hb. simpl in Hb.
      destruct (i_activated i3 =? 0)%Z; [|inversion Hb; subst; auto].
      destruct (i_parent i3) as [q|]; [|inversion Hb; subst; auto].
      destruct (getf (modf s3 f (set_status FFinished)) q) as [qi|] eqn:Eq; [|inversion Hb; subst; auto].
      destruct (remove1 f (i_children qi)); inversion Hb; subst.
      apply getf_setf_none; auto. }
    rewrite Ep5. auto.
Qed.

(* the main flow restarts in place: WAITING again, nothing emitted for it *)
Theorem finish_main : forall rk n s f d s' i,
  ranked rk s -> finish n s f d = Ok s' -> proceeds s f d = true -> getf s f = Some i ->
  listening (i_status i) = true -> i_flow i = main_id ->
  (exists i', getf s' f = Some i' /\ i_status i' = FWaiting) /\
  exists pre, out s' = out s ++ pre /\ Forall (emit_ok (below rk f) anyA) pre.
Proof.
  unfold finish; intros rk n s f d s' i Hr H Hp E Hl Hmain.
  apply bind_ok in H. destruct H as ([s3 go] & Hpr & H). simpl in H.
  assert (Hgo : go = true).
  { destruct go; auto. exfalso.
    destruct (prologue_seg rk (abort n) (abort_srel rk n) (abort_good rk n) (act0 s) _ _ _ _ _ _ Hr (act0_zinv s) Hpr)
      as (_ & _ & Hstop).
    destruct (Hstop eq_refl Hp) as (i3 & E3 & Hsk).
    unfold prologue in Hpr. apply bind_ok in Hpr. destruct Hpr as ([s1 b] & Hd & Hpr). simpl in Hpr.
    destruct (deactivate_self rk (abort n) (abort_srel rk n) _ _ _ _ _ _ Hr Hd E) as (i1 & E1 & Hs1 & _).
    destruct b.
    - rewrite E1 in Hpr. destruct (skip_finish (i_status i1)) eqn:Esk.
      + rewrite Hs1 in Esk. unfold skip_finish in *. rewrite Hl in Esk. discriminate.
      + bind_inv Hpr. destruct (getf s0 f); try discriminate. bind_inv Hpr. discriminate.
    - destruct (deactivate_seg rk (abort n) (abort_good rk n) (act0 s) _ _ _ _ _ Hr (act0_zinv s) Hd) as (_ & Hb).
      specialize (Hb Hp). discriminate. }
  subst go.
  destruct (prologue_out rk n _ _ _ _ _ _ Hr Hpr E)
    as (pre & i3 & O3 & F3 & E3 & Hsk & Hs3 & Hf3 & Hp3 & Hn3 & Ha3 & S03).
  unfold epilogue_finish in H. rewrite E3 in H. rewrite Hf3, Hmain, N.eqb_refl in H.
  inversion H; subst. split.
  - rewrite (modf_some _ _ _ _ E3). eexists; split; [eapply getf_setf_same; eauto|auto].
  - exists pre. rewrite modf_out. auto.
Qed.
