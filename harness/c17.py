"""C17 - Arbitrary LLM output never breaks a turn and is treated as data.

Model: coq/theories/Svc/TextPost.v (text post-processing helpers, the multi-step shrink loop,
_process_start_flow, the AddFlowsAction fallback, literal_eval-only value generation);
Pipe/Taint.v (taint discipline of one turn); theorems: Props/C17.v.
Ties: (T) Gen/C17Consts.v - prefixes / quote characters / fallbacks read from the current source
with Python's ast; (X1) differential of every modelled helper against the real function on a
hostile corpus + mutations, model evaluated inside Coq; (X2) END-TO-END direct oracle (the
property text): hostile output at every LLM call position of <=3-turn conversations driving the
real LLMRails.generate in passthrough / general / three-step dialog / single-call / multi-step
(Colang 1.0) and the Colang 2 LLM flows (intent detection, flow continuation, value generation).
Every end-to-end batch runs in a child process under `timeout` (a hang is a violation).
"""
from __future__ import annotations

import json
import os
import random
import sys
import time

from harness import common as C

PID = "C17"
GEN = ["C17Consts"]
CFG_ROOT = os.path.join(C.BUILD, "c17", "cfg")
WORK = os.path.join(C.BUILD, "c17", "work")

# context variables set for every conversation; their VALUES must never show up in a reply
CTX = {"secret": "S3CR3TVAL", "x": "XVALUE77", "user_name": "UNAMEVAL"}
FORBIDDEN = ["S3CR3TVAL", "XVALUE77", "UNAMEVAL", "1337"]          # 1337 = 7*191
MARKERS = ["{{ 7*191 }}", "$secret", "{$x}", "{{ secret }}", "{{user_name}}", "${secret}", "{% if 1 %}Y{% endif %}"]

# ---------------------------------------------------------------------------------------
# configurations (written to build/c17/cfg/<mode>/ on every run)

_CONFIG_PY = """import sys
sys.path.insert(0, %r)
from harness.c17 import register_provider


def init(app):
    register_provider(app)
""" % C.VERIF

_YML_HEAD = """models:
  - type: main
    engine: openai
    model: gpt-3.5-turbo-instruct
core:
  embedding_search_provider:
    name: verif
knowledge_base:
  embedding_search_provider:
    name: verif
"""

_V1_DIALOG_CO = """define user express greeting
  "hello"
  "hi"

define user ask capabilities
  "what can you do"

define user ask price
  "how much is it"

define bot express greeting
  "Hey there!"

define flow greeting
  user express greeting
  bot express greeting

define flow capabilities
  user ask capabilities
  bot inform capabilities

define flow price
  user ask price
  bot inform price
  bot ask anything else
"""

_V2_HEAD = """colang_version: "2.x"
""" + _YML_HEAD

_V2_LLM_CO = '''import core
import llm

flow main
  activate llm continuation
  activate greeting
  activate other reactions

flow greeting
  user expressed greeting
  bot say "Hello world!"

flow other reactions
  user expressed to be bored
  bot say "No problem!"

flow user expressed greeting
  """User expressed greeting in any way or form."""
  user said "hi"

flow user expressed to be bored
  """User expressed to be bored."""
  user said "This is boring"

flow bot inform capabilities
  bot say "I can talk."
'''

_V2_VALUE_CO = '''import core
import llm

flow main
  global $secret
  global $x
  $secret = "S3CR3TVAL"
  $x = "XVALUE77"
  activate answering

flow answering
  user said something
  $v = ..."Return a single string that answers the user"
  bot say $v
'''

_V2_SAYLIKE_CO = '''import core
import llm

flow main
  global $secret
  global $x
  $secret = "S3CR3TVAL"
  $x = "XVALUE77"
  activate answering

flow answering
  user said something
  bot say something like "Hello there"
'''

_V2_PASS_CO = '''import core
import llm

flow main
  global $secret
  global $x
  $secret = "S3CR3TVAL"
  $x = "XVALUE77"
  activate answering

flow answering
  user said something as $u
  $t = await PassthroughLLMAction(user_message=$u.transcript)
  bot say $t
'''

MODES = {
    "v1_general": {"yml": _YML_HEAD, "co": None, "v": 1},
    "v1_passthrough": {"yml": _YML_HEAD + "passthrough: true\n", "co": None, "v": 1},
    "v1_dialog": {"yml": _YML_HEAD, "co": _V1_DIALOG_CO, "v": 1},
    "v1_single_call": {"yml": _YML_HEAD + "rails:\n  dialog:\n    single_call:\n      enabled: true\n", "co": _V1_DIALOG_CO, "v": 1},
    "v1_multi_step": {"yml": _YML_HEAD + "enable_multi_step_generation: true\n", "co": _V1_DIALOG_CO, "v": 1},
    "v2_llm": {"yml": _V2_HEAD, "co": _V2_LLM_CO, "v": 2},
    "v2_value": {"yml": _V2_HEAD, "co": _V2_VALUE_CO, "v": 2},
    "v2_saylike": {"yml": _V2_HEAD, "co": _V2_SAYLIKE_CO, "v": 2},
    "v2_passthrough": {"yml": _V2_HEAD, "co": _V2_PASS_CO, "v": 2},
}
# user turns per mode (<= 3 turns): chosen so that every LLM call kind of the mode is reached
TURNS = {
    "v1_general": ["hi", "tell me more", "bye"],
    "v1_passthrough": ["hi", "tell me more", "bye"],
    "v1_dialog": ["hi", "what is the weather", "how much is it"],
    "v1_single_call": ["hi", "what is the weather", "how much is it"],
    "v1_multi_step": ["hi", "what is the weather", "how much is it"],
    "v2_llm": ["hello there", "tell me a joke", "hi"],
    "v2_value": ["hi", "and now", "more"],
    "v2_saylike": ["hi", "and now"],
    "v2_passthrough": ["hi", "and now"],
}


def write_cfgs():
    for name, m in MODES.items():
        d = os.path.join(CFG_ROOT, name)
        os.makedirs(d, exist_ok=True)
        files = {"config.yml": m["yml"], "config.py": _CONFIG_PY}
        if m["co"]:
            files["rails.co"] = m["co"]
        for fn, text in files.items():
            p = os.path.join(d, fn)
            if not os.path.exists(p) or open(p).read() != text:
                with open(p, "w") as f:
                    f.write(text)


# ---------------------------------------------------------------------------------------
# offline embedding-search provider (registered through the configuration's config.py)

_INDEX_CLS = None


def _index_cls():
    global _INDEX_CLS
    if _INDEX_CLS is not None:
        return _INDEX_CLS
    import re

    from nemoguardrails.embeddings.index import EmbeddingsIndex

    def tok(s):
        return set(re.findall(r"[a-z0-9]+", (s or "").lower()))

    class VerifIndex(EmbeddingsIndex):
        """Deterministic token-overlap ranking; no model, no network."""

        def __init__(self, **kwargs):
            self.items = []

        @property
        def embedding_size(self):
            return 0

        @property
        def cache_config(self):
            return None

        async def add_item(self, item):
            self.items.append(item)

        async def add_items(self, items):
            self.items.extend(items)

        async def build(self):
            pass

        async def search(self, text, max_results=20, threshold=None):
            q = tok(text if isinstance(text, str) else str(text))
            scored = []
            for i, it in enumerate(self.items):
                t = tok(it.text)
                s = (2 if it.text == text else 0) + (len(q & t) / (1 + len(q | t)))
                scored.append((-s, i, it))
            scored.sort(key=lambda x: (x[0], x[1]))
            return [it for _, _, it in scored[:max_results]]

    _INDEX_CLS = VerifIndex
    return VerifIndex


def register_provider(app):
    app.register_embedding_search_provider("verif", _index_cls())


# ---------------------------------------------------------------------------------------
# scripted LLM: well-formed answer for every call kind, hostile text substituted at chosen
# call indices (or at every call with the given texts)


def classify_prompt(prompt: str, mode: str) -> str:
    p = prompt if isinstance(prompt, str) else json.dumps(prompt)
    tail = p.rstrip()[-200:]
    if "generate the next steps and finish with the bot message" in p:
        return "single_call"
    if "# This is how the user talks:" in p:
        return "user_intent"
    if "# This is how the bot thinks:" in p and tail.endswith("="):
        return "value"
    if "# This is how the bot thinks:" in p:
        return "next_steps"
    if "# This is how the bot talks:" in p:
        return "bot_message"
    if tail.endswith("user intent:"):
        return "v2_user_intent"
    if tail.endswith("bot intent:"):
        return "v2_flow_continuation"
    if "# Complete the following flow based on its name:" in p:
        return "v2_flow_from_name"
    if "# Complete the following flow based on its instruction:" in p:
        return "v2_flow_from_instructions"
    if tail.endswith("="):
        return "v2_value"
    if tail.endswith("Assistant:"):
        return "general"
    return "passthrough" if "passthrough" in mode else "other"


GOOD = {
    "general": "Sure, happy to help.",
    "passthrough": "Sure, happy to help.",
    "other": "Sure, happy to help.",
    "user_intent": "  ask something else",
    "next_steps": "bot provide help",
    "bot_message": '  "Here is some help."',
    "single_call": '  ask something else\nbot provide help\n  "Here is some help."',
    "value": '"some value"',
    "v2_user_intent": "user asked something else",
    "v2_flow_continuation": 'bot provide help\nbot action: bot say "Here is some help."',
    "v2_flow_from_name": '  bot say "Here is some help."',
    "v2_flow_from_instructions": '  bot say "Here is some help."',
    "v2_value": '"Here is some help."',
}


def _mk_llm(mode, subst, every):
    from typing import Any, List, Mapping, Optional

    from langchain_core.language_models.llms import LLM

    class ScriptLLM(LLM):
        mode_name: str = ""
        subst: dict = {}
        every: list = []
        calls: list = []
        i: int = 0

        @property
        def _llm_type(self) -> str:
            return "verif-script"

        def _answer(self, prompt):
            kind = classify_prompt(prompt, self.mode_name)
            k = self.i
            self.i += 1
            if str(k) in self.subst:
                text = self.subst[str(k)]
                hostile = True
            elif self.every:
                text = self.every[k % len(self.every)]
                hostile = True
            else:
                text = GOOD.get(kind, GOOD["other"])
                hostile = False
            self.calls.append({"i": k, "kind": kind, "hostile": hostile, "text": text if hostile else None})
            return text

        def _call(self, prompt: str, stop: Optional[List[str]] = None, run_manager=None, **kwargs: Any) -> str:
            return self._answer(prompt)

        async def _acall(self, prompt: str, stop: Optional[List[str]] = None, run_manager=None, **kwargs: Any) -> str:
            return self._answer(prompt)

        @property
        def _identifying_params(self) -> Mapping[str, Any]:
            return {}

    return ScriptLLM(mode_name=mode, subst=dict(subst or {}), every=list(every or []), calls=[])


def _raiser(tb):
    """(exception type, innermost nemoguardrails function, file:line) of a traceback."""
    import traceback

    frames = traceback.extract_tb(tb)
    ours = [f for f in frames if "nemoguardrails" in f.filename]
    f = ours[-1] if ours else frames[-1]
    return f.name, os.path.basename(f.filename) + ":" + str(f.lineno)


def well_formed(mode, r):
    if not isinstance(r, dict):
        return "reply is not a dict: %r" % (type(r).__name__,)
    role = r.get("role")
    if role == "assistant":
        if not isinstance(r.get("content"), str):
            return "assistant content is not a str: %r" % (type(r.get("content")).__name__,)
        return None
    if role == "exception":
        c = r.get("content")
        if isinstance(c, dict) and isinstance(c.get("type"), str) and c["type"].endswith("Exception"):
            return None
        return "malformed exception message"
    return "role is %r" % (role,)


def run_conversation(case, cfg_cache):
    """Drive the real LLMRails.generate.  case = {mode, turns, subst:{idx:text}, every:[texts]}.
    Returns a JSON-able result with the replies, the LLM calls made and any oracle failure."""
    from nemoguardrails import LLMRails, RailsConfig

    mode = case["mode"]
    if mode not in cfg_cache:
        cfg_cache[mode] = RailsConfig.from_path(os.path.join(CFG_ROOT, mode))
    config = cfg_cache[mode]
    llm = _mk_llm(mode, case.get("subst"), case.get("every"))
    res = {"replies": [], "calls": llm.calls, "fail": None}
    try:
        app = LLMRails(config, llm=llm)
    except BaseException as e:  # construction is not part of the property, but must not fail
        res["fail"] = {"kind": "init-raised", "exc": type(e).__name__, "msg": str(e)[:300]}
        return res
    v2 = MODES[mode]["v"] == 2
    history = [] if v2 else [{"role": "context", "content": dict(CTX)}]
    state = {} if v2 else None
    for t, msg in enumerate(case["turns"]):
        history.append({"role": "user", "content": msg})
        try:
            if v2:
                out = app.generate(messages=[{"role": "user", "content": msg}], state=state)
                state = out.state
                r = out.response[0] if isinstance(out.response, list) and out.response else out.response
            else:
                r = app.generate(messages=history)
        except BaseException as e:
            fn, where = _raiser(e.__traceback__)
            res["fail"] = {"kind": "raised", "turn": t, "exc": type(e).__name__, "fn": fn, "where": where,
                           "msg": str(e)[:300]}
            return res
        wf = well_formed(mode, r)
        res["replies"].append(r if wf is None else repr(r)[:500])
        if wf is not None:
            res["fail"] = {"kind": "malformed", "turn": t, "why": wf}
            return res
        content = r.get("content")
        text = content if isinstance(content, str) else json.dumps(content, default=str)
        for bad in FORBIDDEN:
            if bad in text:
                res["fail"] = {"kind": "evaluated", "turn": t, "found": bad, "reply": text[:300]}
                return res
        history.append(r)
    return res


def e2e_worker(inp, outp):
    sys.path.insert(1, C.REPO)
    import logging

    logging.disable(logging.CRITICAL)
    cases = json.load(open(inp))
    cache = {}
    results = []
    with open(outp + ".progress", "w") as prog:
        for i, case in enumerate(cases):
            prog.seek(0)
            prog.write(json.dumps({"current": i, "case": case}))
            prog.truncate()
            prog.flush()
            t0 = time.time()
            r = run_conversation(case, cache)
            r["s"] = round(time.time() - t0, 3)
            results.append(r)
    with open(outp, "w") as f:
        json.dump(results, f)


if __name__ == "__main__":
    if len(sys.argv) >= 4 and sys.argv[1] == "--e2e-worker":
        # silence the library's prints
        devnull = open(os.devnull, "w")
        sys.stdout = devnull
        sys.stderr = devnull
        e2e_worker(sys.argv[2], sys.argv[3])
        os._exit(0)
