(* Proofs about V2/Bind.v (C08). *)
From Coq Require Import ZArith List String Ascii Bool Decimal DecimalNat DecimalString Lia Arith.
From NG Require Import Val.Value V2.Bind.
Import ListNotations.
Open Scope string_scope.
Open Scope list_scope.
Open Scope nat_scope.

(* ---------------------------------------------------------------------------------- *)
(* association lists                                                                   *)

Lemma NoDup_snoc {B : Type} (l : list B) (a : B) : NoDup l -> ~ In a l -> NoDup (l ++ [a]).
Proof.
  induction l as [|x r IH]; simpl; intros H Hn.
  - constructor; auto.
  - inversion H as [|y l' Hx Hr]; subst. constructor.
    + rewrite in_app_iff. simpl. intros [H1 | [H1 | []]]; [auto | subst; apply Hn; auto].
    + apply IH; auto.
Qed.

Section AssocLemmas.
  Context {A : Type}.
  Implicit Types d e : list (string * A).

  Lemma aget_aset_same k v d : aget k (aset k v d) = Some v.
  Proof.
    induction d as [|[k' v'] r IH]; simpl.
    - now rewrite String.eqb_refl.
    - destruct (String.eqb k k') eqn:E; simpl; rewrite E; auto.
  Qed.

  Lemma aget_aset_other k k' v d : k <> k' -> aget k' (aset k v d) = aget k' d.
  Proof.
    intros Hne. induction d as [|[k0 v0] r IH]; simpl.
    - destruct (String.eqb k' k) eqn:E; auto. apply String.eqb_eq in E. congruence.
    - destruct (String.eqb k k0) eqn:E; simpl.
      + apply String.eqb_eq in E. subst k0.
        destruct (String.eqb k' k) eqn:E2; auto. apply String.eqb_eq in E2. congruence.
      + destruct (String.eqb k' k0); auto.
  Qed.

  Lemma ahas_aset_same k v d : ahas k (aset k v d) = true.
  Proof. unfold ahas. now rewrite aget_aset_same. Qed.

  Lemma ahas_aset_other k k' v d : k <> k' -> ahas k' (aset k v d) = ahas k' d.
  Proof. intros. unfold ahas. now rewrite aget_aset_other. Qed.

  Lemma aget_none_not_in k d : aget k d = None <-> ~ In k (map fst d).
  Proof.
    induction d as [|[k' v'] r IH]; simpl.
    - tauto.
    - destruct (String.eqb k k') eqn:E.
      + apply String.eqb_eq in E. subst. split; [discriminate | intros H; exfalso; apply H; auto].
      + apply String.eqb_neq in E. rewrite IH. split.
        * intros H [H1 | H1]; [congruence | auto].
        * intros H H1. apply H. auto.
  Qed.

  Lemma keys_aset_in k v d : ahas k d = true -> map fst (aset k v d) = map fst d.
  Proof.
    unfold ahas. induction d as [|[k' v'] r IH]; simpl.
    - discriminate.
    - destruct (String.eqb k k') eqn:E; simpl; auto. intros H. now rewrite IH.
  Qed.

  Lemma keys_aset_new k v d : ahas k d = false -> map fst (aset k v d) = map fst d ++ [k].
  Proof.
    unfold ahas. induction d as [|[k' v'] r IH]; simpl.
    - auto.
    - destruct (String.eqb k k') eqn:E; simpl; [discriminate|]. intros H. now rewrite IH.
  Qed.

  Lemma aset_keys_NoDup k v d : NoDup (map fst d) -> NoDup (map fst (aset k v d)).
  Proof.
    intros H. destruct (ahas k d) eqn:E.
    - now rewrite keys_aset_in.
    - rewrite keys_aset_new by auto. apply NoDup_snoc; auto.
      unfold ahas in E. destruct (aget k d) eqn:E2; [discriminate|]. now apply aget_none_not_in.
  Qed.

  Lemma aupdate_keys_NoDup d e : NoDup (map fst d) -> NoDup (map fst (aupdate d e)).
  Proof.
    unfold aupdate. revert d. induction e as [|[k v] r IH]; intros d H; simpl; auto.
    apply IH. now apply aset_keys_NoDup.
  Qed.

  (* e is a dict: its keys are distinct *)
  Lemma aget_aupdate k d e :
    NoDup (map fst e) ->
    aget k (aupdate d e) = match aget k e with Some v => Some v | None => aget k d end.
  Proof.
    unfold aupdate. revert d. induction e as [|[k' v'] r IH]; intros d Hnd; simpl.
    - reflexivity.
    - simpl in Hnd. inversion Hnd as [|x l Hnotin Hnd']; subst.
      rewrite IH by auto. destruct (String.eqb k k') eqn:E.
      + apply String.eqb_eq in E. subst k'.
        apply aget_none_not_in in Hnotin. rewrite Hnotin. apply aget_aset_same.
      + apply String.eqb_neq in E. destruct (aget k r); auto. rewrite aget_aset_other; auto.
  Qed.
  Lemma aget_aupdate_none k d e : aget k e = None -> aget k (aupdate d e) = aget k d.
  Proof.
    unfold aupdate. revert d. induction e as [|[k' v'] r IH]; intros d H; simpl in *; auto.
    destruct (String.eqb k k') eqn:E; [discriminate|]. apply String.eqb_neq in E.
    rewrite IH by auto. apply aget_aset_other. congruence.
  Qed.
End AssocLemmas.

Lemma mem_In k l : mem k l = true <-> In k l.
Proof.
  unfold mem. rewrite existsb_exists. split.
  - intros [x [H1 H2]]. apply String.eqb_eq in H2. now subst.
  - intros H. exists k. split; auto. apply String.eqb_refl.
Qed.

Lemma mem_false k l : mem k l = false <-> ~ In k l.
Proof. rewrite <- mem_In. destruct (mem k l); split; congruence. Qed.

Lemma nodupb_NoDup l : nodupb l = true -> NoDup l.
Proof.
  induction l as [|x r IH]; simpl; intros H.
  - constructor.
  - apply andb_true_iff in H. destruct H as [H1 H2]. constructor; auto.
    apply negb_true_iff in H1. now apply mem_false.
Qed.

(* ---------------------------------------------------------------------------------- *)
(* positional keys                                                                     *)

Lemma pos_key_inj i j : pos_key i = pos_key j -> i = j.
Proof.
  unfold pos_key. intros H. injection H as H.
  apply (f_equal NilEmpty.uint_of_string) in H. rewrite !NilEmpty.usu in H.
  injection H as H. apply (f_equal Nat.of_uint) in H. now rewrite !Unsigned.of_to in H.
Qed.

Lemma pos_key_not_plain i : plain (pos_key i) = false.
Proof. reflexivity. Qed.

Lemma plain_ne_pos_key s i : plain s = true -> s <> pos_key i.
Proof. intros H E. subst. now rewrite pos_key_not_plain in H. Qed.

(* ---------------------------------------------------------------------------------- *)

Section BindProofs.
  Variable expr : Type.
  Variable eval : ctx -> expr -> value.

  Notation param := (param expr).
  Notation default_val := (default_val expr eval).
  Notation cfi_named := (cfi_named expr eval).
  Notation cfi_pos := (cfi_pos expr).
  Notation cfi_ret := (cfi_ret expr eval).
  Notation bind := (bind expr eval).
  Notation ev_value := (ev_value expr eval).

  (* value chosen by the first loop of create_flow_instance *)
  Definition named_or_default (ev : ctx) (p : param) : value :=
    match aget (p_name p) ev with Some v => v | None => default_val (p_default p) end.

  Lemma cfi_named_other ps : forall ev args c k,
    ~ In k (map p_name ps) ->
    aget k (fst (cfi_named ps ev args c)) = aget k args /\
    aget k (snd (cfi_named ps ev args c)) = aget k c.
  Proof.
    induction ps as [|p ps IH]; intros ev args c k Hk; simpl.
    - auto.
    - simpl in Hk. destruct (IH ev (aset (p_name p) (named_or_default ev p) args)
                                   (aset (p_name p) (named_or_default ev p) c) k) as [H1 H2].
      { intros H. apply Hk. auto. }
      unfold named_or_default in *. rewrite H1, H2.
      rewrite !aget_aset_other; auto.
  Qed.

  Lemma cfi_named_in ps : forall ev args c p,
    NoDup (map p_name ps) -> In p ps ->
    aget (p_name p) (fst (cfi_named ps ev args c)) = Some (named_or_default ev p) /\
    aget (p_name p) (snd (cfi_named ps ev args c)) = Some (named_or_default ev p).
  Proof.
    induction ps as [|q ps IH]; intros ev args c p Hnd Hin; simpl.
    - destruct Hin.
    - simpl in Hnd. inversion Hnd as [|x l Hnotin Hnd']; subst.
      destruct Hin as [Heq | Hin].
      + subst q.
        destruct (cfi_named_other ps ev (aset (p_name p) (named_or_default ev p) args)
                                  (aset (p_name p) (named_or_default ev p) c) (p_name p) Hnotin) as [H1 H2].
        unfold named_or_default in *. rewrite H1, H2. now rewrite !aget_aset_same.
      + apply IH; auto.
  Qed.

  Lemma cfi_named_keys ps : forall ev args c,
    NoDup (map p_name ps) ->
    (forall p, In p ps -> ahas (p_name p) args = false) ->
    map fst (fst (cfi_named ps ev args c)) = map fst args ++ map p_name ps.
  Proof.
    induction ps as [|q ps IH]; intros ev args c Hnd Hfresh; simpl.
    - now rewrite app_nil_r.
    - simpl in Hnd. inversion Hnd as [|x l Hnotin Hnd']; subst.
      rewrite IH; auto.
      + rewrite keys_aset_new by (apply Hfresh; simpl; auto). now rewrite <- app_assoc.
      + intros p Hp. rewrite ahas_aset_other.
        * apply Hfresh. simpl; auto.
        * intros E. apply Hnotin. rewrite E. now apply in_map.
  Qed.

  (* second loop: positional overrides in `arguments` *)
  Lemma cfi_pos_other ps : forall idx ev args k,
    ~ In k (map p_name ps) -> (forall j, k <> pos_key j) ->
    aget k (cfi_pos ps idx ev args) = aget k args.
  Proof.
    induction ps as [|p ps IH]; intros idx ev args k Hk Hpk; simpl.
    - reflexivity.
    - simpl in Hk. rewrite IH; auto.
      destruct (aget (pos_key idx) ev); auto.
      rewrite aget_aset_other by (intros E; apply (Hpk idx); auto).
      rewrite aget_aset_other; auto.
  Qed.

  Lemma cfi_pos_name ps : forall idx ev args i p,
    NoDup (map p_name ps) -> (forall q, In q ps -> plain (p_name q) = true) ->
    nth_error ps i = Some p ->
    aget (p_name p) (cfi_pos ps idx ev args)
    = match aget (pos_key (idx + i)) ev with Some v => Some v | None => aget (p_name p) args end.
  Proof.
    induction ps as [|q ps IH]; intros idx ev args i p Hnd Hplain Hnth.
    - destruct i; discriminate.
    - simpl in Hnd. inversion Hnd as [|x l Hnotin Hnd']; subst.
      destruct i as [|i]; simpl in Hnth.
      + injection Hnth as Hq. subst q. simpl. rewrite Nat.add_0_r.
        rewrite cfi_pos_other; auto.
        * destruct (aget (pos_key idx) ev) eqn:E; auto.
          rewrite aget_aset_other, aget_aset_same; auto.
          intros E2. symmetry in E2. revert E2. apply plain_ne_pos_key. apply Hplain. simpl; auto.
        * intros j. apply plain_ne_pos_key. apply Hplain. simpl; auto.
      + simpl. rewrite IH with (i := i); auto.
        * replace (S idx + i) with (idx + S i) by lia.
          destruct (aget (pos_key (idx + S i)) ev); auto.
          destruct (aget (pos_key idx) ev); auto.
          assert (Hp : In p ps) by (eapply nth_error_In; eauto).
          rewrite aget_aset_other.
          -- rewrite aget_aset_other; auto. intros E. apply Hnotin. rewrite E. now apply in_map.
          -- intros E. symmetry in E. revert E. apply plain_ne_pos_key. apply Hplain. simpl; auto.
        * intros q0 Hq0. apply Hplain. simpl; auto.
  Qed.

  (* keys `$idx+i` that the second loop appends *)
  Fixpoint pos_present (n idx : nat) (ev : ctx) : list string :=
    match n with
    | O => []
    | S n' => (if ahas (pos_key idx) ev then [pos_key idx] else []) ++ pos_present n' (S idx) ev
    end.

  Lemma cfi_pos_poskey ps : forall idx ev args j,
    (forall q, In q ps -> plain (p_name q) = true) ->
    aget (pos_key j) (cfi_pos ps idx ev args)
    = if (idx <=? j) && (j <? idx + List.length ps)
      then match aget (pos_key j) ev with Some v => Some v | None => aget (pos_key j) args end
      else aget (pos_key j) args.
  Proof.
    induction ps as [|q ps IH]; intros idx ev args j Hplain; simpl.
    - replace (idx + 0) with idx by lia.
      destruct (idx <=? j) eqn:E1, (j <? idx) eqn:E2; simpl; auto.
      apply Nat.leb_le in E1. apply Nat.ltb_lt in E2. lia.
    - rewrite IH by (intros q0 Hq0; apply Hplain; simpl; auto).
      destruct (Nat.eq_dec j idx) as [-> | Hne].
      + replace (S idx <=? idx) with false by (symmetry; apply Nat.leb_gt; lia).
        replace (idx <=? idx) with true by (symmetry; apply Nat.leb_le; lia).
        replace (idx <? idx + S (List.length ps)) with true by (symmetry; apply Nat.ltb_lt; lia).
        simpl. destruct (aget (pos_key idx) ev); auto. now rewrite aget_aset_same.
      + assert (Hk : pos_key idx <> pos_key j) by (intros E; apply pos_key_inj in E; lia).
        assert (Hsame : aget (pos_key j)
                          match aget (pos_key idx) ev with
                          | Some v => aset (pos_key idx) v (aset (p_name q) v args)
                          | None => args
                          end = aget (pos_key j) args).
        { destruct (aget (pos_key idx) ev); auto.
          rewrite aget_aset_other; auto. rewrite aget_aset_other; auto.
          apply plain_ne_pos_key. apply Hplain. simpl; auto. }
        rewrite Hsame.
        destruct (S idx <=? j) eqn:E1, (idx <=? j) eqn:E2;
          destruct (j <? S idx + List.length ps) eqn:E3, (j <? idx + S (List.length ps)) eqn:E4; simpl; auto;
          repeat match goal with
                 | H : (_ <=? _) = true |- _ => apply Nat.leb_le in H
                 | H : (_ <=? _) = false |- _ => apply Nat.leb_gt in H
                 | H : (_ <? _) = true |- _ => apply Nat.ltb_lt in H
                 | H : (_ <? _) = false |- _ => apply Nat.ltb_ge in H
                 end; lia.
  Qed.

  Lemma cfi_pos_keys ps : forall idx ev args,
    (forall q, In q ps -> plain (p_name q) = true) ->
    (forall q, In q ps -> ahas (p_name q) args = true) ->
    (forall j, idx <= j -> ahas (pos_key j) args = false) ->
    map fst (cfi_pos ps idx ev args) = map fst args ++ pos_present (List.length ps) idx ev.
  Proof.
    induction ps as [|q ps IH]; intros idx ev args Hplain Hin Hfresh; simpl.
    - now rewrite app_nil_r.
    - unfold ahas at 1. destruct (aget (pos_key idx) ev) eqn:E.
      + rewrite IH.
        * rewrite keys_aset_new.
          -- rewrite keys_aset_in by (apply Hin; simpl; auto). now rewrite <- app_assoc.
          -- rewrite ahas_aset_other.
             ++ apply Hfresh. lia.
             ++ apply plain_ne_pos_key. apply Hplain. simpl; auto.
        * intros q0 Hq0. apply Hplain. simpl; auto.
        * intros q0 Hq0. rewrite ahas_aset_other.
          -- destruct (String.eqb (p_name q) (p_name q0)) eqn:E2.
             ++ apply String.eqb_eq in E2. rewrite <- E2. apply ahas_aset_same.
             ++ apply String.eqb_neq in E2. rewrite ahas_aset_other; auto. apply Hin. simpl; auto.
          -- intros E2. symmetry in E2. revert E2. apply plain_ne_pos_key. apply Hplain. simpl; auto.
        * intros j Hj. rewrite ahas_aset_other.
          -- rewrite ahas_aset_other.
             ++ apply Hfresh. lia.
             ++ apply plain_ne_pos_key. apply Hplain. simpl; auto.
          -- intros E2. apply pos_key_inj in E2. lia.
      + simpl. apply IH.
        * intros q0 Hq0. apply Hplain. simpl; auto.
        * intros q0 Hq0. apply Hin. simpl; auto.
        * intros j Hj. apply Hfresh. lia.
  Qed.

  (* third loop *)
  Lemma cfi_ret_other rs : forall c k,
    ~ In k (map p_name rs) -> aget k (cfi_ret rs c) = aget k c.
  Proof.
    induction rs as [|r rs IH]; intros c k Hk; simpl.
    - reflexivity.
    - simpl in Hk. rewrite IH by (intros H; apply Hk; auto).
      apply aget_aset_other. intros E. apply Hk. auto.
  Qed.

  (* ---- _start_flow ---- *)
  Notation sf_loop := (sf_loop).
  Notation pos_contig := (pos_contig).

  (* the context component of sf_loop, without the bookkeeping of last_idx *)
  Fixpoint set_pos (ks : list string) (idx : nat) (ev c : ctx) : ctx :=
    match ks with
    | [] => c
    | a :: r => match aget (pos_key idx) ev with
                | Some v => set_pos r (S idx) ev (aset a v c)
                | None => c
                end
    end.

  Lemma sf_loop_fst ks : forall idx ev c next, fst (sf_loop ks idx ev c next) = set_pos ks idx ev c.
  Proof.
    induction ks as [|a r IH]; intros idx ev c next; simpl; auto.
    destruct (aget (pos_key idx) ev); auto.
  Qed.

  Lemma contig_some ev k i : pos_contig ev k -> i < k -> exists v, aget (pos_key i) ev = Some v.
  Proof.
    intros H Hi. specialize (H i). unfold ahas in H.
    destruct (aget (pos_key i) ev) eqn:E; eauto.
    symmetry in H. apply Nat.ltb_ge in H. lia.
  Qed.

  Lemma contig_none ev k i : pos_contig ev k -> k <= i -> aget (pos_key i) ev = None.
  Proof.
    intros H Hi. specialize (H i). unfold ahas in H.
    destruct (aget (pos_key i) ev) eqn:E; auto.
    symmetry in H. apply Nat.ltb_lt in H. lia.
  Qed.

  (* last_idx + 1 after the loop, for contiguous positional keys $0..$(k-1) *)
  Lemma sf_loop_snd ks : forall idx ev c next k,
    pos_contig ev k -> idx <= k ->
    snd (sf_loop ks idx ev c next)
    = if List.length ks <=? k - idx
      then (if List.length ks =? 0 then next else idx + List.length ks)
      else S k.
  Proof.
    induction ks as [|a r IH]; intros idx ev c next k Hc Hle.
    - reflexivity.
    - cbn [Bind.sf_loop]. change (List.length (a :: r)) with (S (List.length r)).
      destruct (Nat.eq_dec idx k) as [-> | Hne].
      + rewrite (contig_none ev k k Hc) by lia. cbn [snd].
        replace (k - k) with 0 by lia. reflexivity.
      + destruct (contig_some ev k idx Hc) as [v Hv]; [lia|]. rewrite Hv.
        rewrite IH with (k := k) by (auto; lia).
        destruct (List.length r <=? k - S idx) eqn:E1.
        * apply Nat.leb_le in E1.
          replace (S (List.length r) <=? k - idx) with true by (symmetry; apply Nat.leb_le; lia).
          destruct (List.length r =? 0) eqn:E2.
          -- apply Nat.eqb_eq in E2. cbn [Nat.eqb]. lia.
          -- cbn [Nat.eqb]. lia.
        * apply Nat.leb_gt in E1.
          replace (S (List.length r) <=? k - idx) with false by (symmetry; apply Nat.leb_gt; lia).
          reflexivity.
  Qed.

  Lemma set_pos_other ks : forall idx ev c k a,
    pos_contig ev k ->
    (forall j, idx + j < k -> nth_error ks j <> Some a) ->
    aget a (set_pos ks idx ev c) = aget a c.
  Proof.
    induction ks as [|a0 r IH]; intros idx ev c k a Hc Hnot; simpl; auto.
    destruct (aget (pos_key idx) ev) eqn:E; auto.
    assert (Hidx : idx < k).
    { destruct (Nat.lt_ge_cases idx k); auto. rewrite (contig_none ev k idx Hc) in E by lia. discriminate. }
    rewrite IH with (k := k); auto.
    - apply aget_aset_other. intros E2. subst a0. apply (Hnot 0); [lia | reflexivity].
    - intros j Hj. apply (Hnot (S j)). lia.
  Qed.

  Lemma set_pos_get ks : forall idx ev c k i a,
    pos_contig ev k ->
    nth_error ks i = Some a -> idx + i < k ->
    (forall j, j <> i -> idx + j < k -> nth_error ks j <> Some a) ->
    aget a (set_pos ks idx ev c) = aget (pos_key (idx + i)) ev.
  Proof.
    induction ks as [|a0 r IH]; intros idx ev c k i a Hc Hnth Hi Huniq.
    - destruct i; discriminate.
    - simpl. destruct (contig_some ev k idx Hc) as [v Hv]; [lia|]. rewrite Hv.
      destruct i as [|i]; simpl in Hnth.
      + injection Hnth as ->. rewrite Nat.add_0_r, Hv.
        rewrite set_pos_other with (k := k); auto.
        * apply aget_aset_same.
        * intros j Hj. apply (Huniq (S j)); lia.
      + replace (idx + S i) with (S idx + i) by lia.
        apply IH with (k := k); auto; try lia.
        intros j Hj1 Hj2. apply (Huniq (S j)); lia.
  Qed.

  (* ---- the binding theorem on an evaluated argument dict ---- *)

  Lemma wf_sig_parts ps rs :
    wf_signature expr ps rs = true ->
    NoDup (map p_name ps)
    /\ (forall p, In p ps -> plain (p_name p) = true)
    /\ (forall p, In p ps -> ~ In (p_name p) reserved_keys)
    /\ (forall r, In r rs -> ~ In (p_name r) (map p_name ps)).
  Proof.
    unfold wf_signature. intros H.
    apply andb_true_iff in H. destruct H as [H H3].
    apply andb_true_iff in H. destruct H as [H1 H2].
    rewrite forallb_forall in H2, H3.
    repeat split.
    - now apply nodupb_NoDup.
    - intros p Hp. specialize (H2 p Hp). apply andb_true_iff in H2. tauto.
    - intros p Hp. specialize (H2 p Hp). apply andb_true_iff in H2. destruct H2 as [_ H2].
      apply negb_true_iff in H2. now apply mem_false.
    - intros r Hr. specialize (H3 r Hr). apply negb_true_iff in H3. now apply mem_false.
  Qed.

  Lemma nth_error_names (ps : list param) i p : nth_error ps i = Some p -> nth_error (map p_name ps) i = Some (p_name p).
  Proof. intros H. now rewrite nth_error_map, H. Qed.

  Lemma NoDup_nth_unique {B} (l : list B) i j a :
    NoDup l -> nth_error l i = Some a -> nth_error l j = Some a -> i = j.
  Proof.
    intros Hnd Hi Hj. apply (proj1 (NoDup_nth_error l) Hnd); [apply nth_error_Some; congruence | congruence].
  Qed.

  Lemma pos_present_length n : forall idx ev, List.length (pos_present n idx ev) <= n.
  Proof.
    induction n as [|n IH]; intros idx ev; simpl; auto.
    rewrite app_length. specialize (IH (S idx) ev). destruct (ahas (pos_key idx) ev); simpl; lia.
  Qed.

  Lemma pos_present_none n : forall idx ev k, pos_contig ev k -> k <= idx -> pos_present n idx ev = [].
  Proof.
    induction n as [|n IH]; intros idx ev k Hc Hle; simpl; auto.
    rewrite (Hc idx). replace (idx <? k) with false by (symmetry; apply Nat.ltb_ge; lia).
    simpl. apply IH with (k := k); auto.
  Qed.

  Lemma pos_present_contig n : forall idx ev k, pos_contig ev k -> idx <= k ->
    pos_present n idx ev = map pos_key (seq idx (Nat.min n (k - idx))).
  Proof.
    induction n as [|n IH]; intros idx ev k Hc Hle; simpl; auto.
    rewrite (Hc idx). destruct (Nat.eq_dec idx k) as [-> | Hne].
    - replace (k <? k) with false by (symmetry; apply Nat.ltb_ge; lia).
      replace (k - k) with 0 by lia. simpl. apply pos_present_none with (k := k); auto.
    - replace (idx <? k) with true by (symmetry; apply Nat.ltb_lt; lia).
      replace (k - idx) with (S (k - S idx)) by lia. simpl.
      f_equal. apply IH; auto. lia.
  Qed.

  (* keys of `arguments` after create_flow_instance: the parameter names, then the `$i` given *)
  Lemma arguments_keys ps ev c0 :
    NoDup (map p_name ps) -> (forall p, In p ps -> plain (p_name p) = true) ->
    map fst (cfi_pos ps 0 ev (fst (cfi_named ps ev [] c0)))
    = map p_name ps ++ pos_present (List.length ps) 0 ev.
  Proof.
    intros Hnd Hplain.
    rewrite cfi_pos_keys; auto.
    - rewrite cfi_named_keys; auto.
    - intros q Hq. unfold ahas. destruct (cfi_named_in ps ev [] c0 q Hnd Hq) as [H _]. now rewrite H.
    - intros j _. unfold ahas.
      destruct (cfi_named_other ps ev [] c0 (pos_key j)) as [H _].
      + intros Hin. apply in_map_iff in Hin. destruct Hin as [q [E Hq]].
        revert E. apply plain_ne_pos_key. auto.
      + now rewrite H.
  Qed.

  Theorem bind_spec : forall ps rs ev k,
    wf_signature expr ps rs = true ->
    pos_contig ev k -> k <= List.length ps ->
    exists a c, bind ps rs ev = Bound a c /\
      (forall i p, nth_error ps i = Some p ->
         aget (p_name p) c = Some (ev_value ev i p) /\ aget (p_name p) a = Some (ev_value ev i p)) /\
      map fst a = map p_name ps ++ map pos_key (seq 0 k).
  Proof.
    intros ps rs ev k Hwf Hc Hk.
    destruct (wf_sig_parts ps rs Hwf) as [Hnd [Hplain [Hres Hrets]]].
    unfold Bind.bind, bind_in, create_flow_instance.
    destruct (cfi_named ps ev [] []) as [args0 c0] eqn:Ecfi.
    assert (Ea : args0 = fst (cfi_named ps ev [] [])) by now rewrite Ecfi.
    assert (Ec : c0 = snd (cfi_named ps ev [] [])) by now rewrite Ecfi.
    assert (Hkeys : map fst (cfi_pos ps 0 ev args0) = map p_name ps ++ map pos_key (seq 0 k)).
    { rewrite Ea, arguments_keys; auto. f_equal.
      rewrite pos_present_contig with (k := k); auto; try lia.
      do 2 f_equal. lia. }
    unfold start_flow.
    destruct (sf_loop (map fst (cfi_pos ps 0 ev args0)) 0 ev (cfi_ret rs c0) 0) as [c' next] eqn:Esf.
    assert (Ec' : c' = set_pos (map fst (cfi_pos ps 0 ev args0)) 0 ev (cfi_ret rs c0)).
    { rewrite <- sf_loop_fst with (next := 0). now rewrite Esf. }
    assert (Enext : next = snd (sf_loop (map fst (cfi_pos ps 0 ev args0)) 0 ev (cfi_ret rs c0) 0)) by now rewrite Esf.
    rewrite sf_loop_snd with (k := k) in Enext; auto; try lia.
    rewrite Hkeys, app_length, !map_length, seq_length in Enext.
    assert (Hnext : ahas (pos_key next) ev = false).
    { rewrite (Hc next). apply Nat.ltb_ge. subst next.
      destruct (List.length ps + k <=? k - 0) eqn:E1.
      - apply Nat.leb_le in E1. destruct (List.length ps + k =? 0) eqn:E2.
        + apply Nat.eqb_eq in E2. lia.
        + lia.
      - lia. }
    rewrite Hnext.
    exists (cfi_pos ps 0 ev args0), c'. split; [reflexivity|]. split; [|exact Hkeys].
    intros i p Hnth.
    assert (Hin : In p ps) by (eapply nth_error_In; eauto).
    destruct (cfi_named_in ps ev [] [] p Hnd Hin) as [Hargs Hctx].
    rewrite <- Ea in Hargs. rewrite <- Ec in Hctx.
    split.
    - (* context *)
      subst c'. rewrite Hkeys.
      destruct (Nat.lt_ge_cases i k) as [Hlt | Hge].
      + (* positional *)
        rewrite set_pos_get with (k := k) (i := i); auto.
        * simpl. unfold Bind.ev_value. destruct (contig_some ev k i Hc Hlt) as [v Hv]. now rewrite Hv.
        * rewrite nth_error_app1 by (rewrite map_length; apply nth_error_Some; congruence).
          now apply nth_error_names.
        * intros j Hji Hjk. simpl in Hjk.
          rewrite nth_error_app1 by (rewrite map_length; lia).
          intros E. apply Hji. eapply NoDup_nth_unique; eauto. now apply nth_error_names.
      + (* not positional: the value of the first loop survives *)
        rewrite set_pos_other with (k := k); auto.
        * rewrite cfi_ret_other.
          -- rewrite Hctx. unfold Bind.ev_value, named_or_default.
             now rewrite (contig_none ev k i Hc Hge).
          -- intros Hr. apply in_map_iff in Hr. destruct Hr as [r [E Hr]].
             apply (Hrets r Hr). rewrite E. now apply in_map.
        * intros j Hj. simpl in Hj.
          rewrite nth_error_app1 by (rewrite map_length; lia).
          intros E. assert (i = j) by (eapply NoDup_nth_unique; eauto; now apply nth_error_names). lia.
    - (* arguments *)
      rewrite cfi_pos_name with (i := i); auto. simpl.
      unfold Bind.ev_value. destruct (aget (pos_key i) ev); auto.
  Qed.

  (* ---- call syntax ---- *)
  Notation arg := (arg expr).
  Notation parse_args := (parse_args expr).
  Notation eval_args := (eval_args expr eval).
  Notation pos_exprs := (pos_exprs expr).
  Notation named_names := (named_names expr).
  Notation named_expr := (named_expr expr).

  Lemma parse_args_pos (l : list arg) : forall idx acc i,
    forallb plain (named_names l) = true ->
    aget (pos_key i) (parse_args l idx acc)
    = if idx <=? i
      then match nth_error (pos_exprs l) (i - idx) with Some e => Some e | None => aget (pos_key i) acc end
      else aget (pos_key i) acc.
  Proof.
    induction l as [|a r IH]; intros idx acc i Hplain.
    - simpl. destruct (idx <=? i); auto. now destruct (i - idx).
    - destruct a as [e | n e]; simpl in *.
      + rewrite IH by auto.
        destruct (Nat.eq_dec i idx) as [-> | Hne].
        * replace (S idx <=? idx) with false by (symmetry; apply Nat.leb_gt; lia).
          replace (idx <=? idx) with true by (symmetry; apply Nat.leb_le; lia).
          replace (idx - idx) with 0 by lia. simpl. apply aget_aset_same.
        * assert (Hk : pos_key idx <> pos_key i) by (intros E; apply pos_key_inj in E; lia).
          rewrite aget_aset_other by auto.
          destruct (S idx <=? i) eqn:E1, (idx <=? i) eqn:E2; auto.
          -- apply Nat.leb_le in E1. replace (i - idx) with (S (i - S idx)) by lia. reflexivity.
          -- apply Nat.leb_le in E1. apply Nat.leb_gt in E2. lia.
          -- apply Nat.leb_gt in E1. apply Nat.leb_le in E2. lia.
      + apply andb_true_iff in Hplain. destruct Hplain as [Hn Hplain].
        rewrite IH by auto.
        rewrite aget_aset_other; auto. now apply plain_ne_pos_key.
  Qed.

  Lemma parse_args_named (l : list arg) : forall idx acc n,
    plain n = true ->
    aget n (parse_args l idx acc)
    = match named_expr n l with Some e => Some e | None => aget n acc end.
  Proof.
    induction l as [|a r IH]; intros idx acc n Hn.
    - reflexivity.
    - destruct a as [e | m e]; simpl.
      + rewrite IH by auto. destruct (named_expr n r); auto.
        apply aget_aset_other. intros E. symmetry in E. revert E. now apply plain_ne_pos_key.
      + rewrite IH by auto. destruct (named_expr n r); auto.
        destruct (String.eqb n m) eqn:E.
        * apply String.eqb_eq in E. subst m. apply aget_aset_same.
        * apply String.eqb_neq in E. apply aget_aset_other. congruence.
  Qed.

  Lemma eval_args_get cc (d : list (string * expr)) k :
    aget k (eval_args cc d) = option_map (eval cc) (aget k d).
  Proof.
    induction d as [|[k' e] r IH]; simpl; auto.
    destruct (String.eqb k k'); auto.
  Qed.

  Lemma start_event_args_get R act evargs k :
    ~ In k reserved_keys -> aget k (start_event_args R act evargs) = aget k evargs.
  Proof.
    intros H. unfold start_event_args. simpl in H.
    assert (H1 : "flow_id" <> k) by tauto.
    assert (H2 : "flow_instance_uid" <> k) by tauto.
    assert (H3 : "activated" <> k) by tauto.
    assert (H4 : "source_flow_instance_uid" <> k) by tauto.
    assert (H5 : "source_head_uid" <> k) by tauto.
    assert (H6 : "flow_hierarchy_position" <> k) by tauto.
    destruct act; repeat (rewrite aget_aset_other by auto); reflexivity.
  Qed.

  Lemma pos_key_not_reserved i : ~ In (pos_key i) reserved_keys.
  Proof.
    intros H. simpl in H.
    repeat match goal with H : _ \/ _ |- _ => destruct H as [H | H] end; try discriminate; auto.
  Qed.

  (* the StartFlow event arguments of a call, read through the specification *)
  Lemma call_event_pos R act cc (l : list arg) i :
    forallb plain (named_names l) = true ->
    aget (pos_key i) (start_event_args R act (eval_args cc (parse_args l 0 [])))
    = option_map (eval cc) (nth_error (pos_exprs l) i).
  Proof.
    intros Hp. rewrite start_event_args_get by apply pos_key_not_reserved.
    rewrite eval_args_get, parse_args_pos by auto.
    simpl. rewrite Nat.sub_0_r. now destruct (nth_error (pos_exprs l) i).
  Qed.

  Lemma call_event_named R act cc (l : list arg) n :
    plain n = true -> ~ In n reserved_keys ->
    aget n (start_event_args R act (eval_args cc (parse_args l 0 [])))
    = option_map (eval cc) (named_expr n l).
  Proof.
    intros Hp Hr. rewrite start_event_args_get by auto.
    rewrite eval_args_get, parse_args_named by auto.
    now destruct (named_expr n l).
  Qed.

  Lemma call_event_contig R act cc (l : list arg) :
    forallb plain (named_names l) = true ->
    pos_contig (start_event_args R act (eval_args cc (parse_args l 0 []))) (List.length (pos_exprs l)).
  Proof.
    intros Hp i. unfold ahas. rewrite call_event_pos by auto.
    destruct (nth_error (pos_exprs l) i) eqn:E; simpl; symmetry.
    - apply Nat.ltb_lt. apply nth_error_Some. congruence.
    - apply Nat.ltb_ge. now apply nth_error_None.
  Qed.

  Notation spec_value := (spec_value expr eval).

  (* C08_binding: for every signature and every well-formed call, parameter i receives
     positional argument i if given, else the named argument, else the declared default
     (evaluated in the empty context), else None; the arguments are evaluated in [cc] *)
  Theorem bind_call_spec : forall ps rs (l : list arg) cc R act,
    wf_signature expr ps rs = true ->
    syntactic_call expr l = true ->
    well_formed_call expr ps l = true ->
    exists a c,
      bind ps rs (start_event_args R act (eval_args cc (parse_args l 0 []))) = Bound a c /\
      forall i p, nth_error ps i = Some p ->
        aget (p_name p) c = Some (spec_value cc l i p) /\ aget (p_name p) a = Some (spec_value cc l i p).
  Proof.
    intros ps rs l cc R act Hwf Hsyn Hcall.
    unfold syntactic_call in Hsyn. unfold well_formed_call in Hcall.
    apply andb_true_iff in Hcall. destruct Hcall as [Hle _]. apply Nat.leb_le in Hle.
    destruct (bind_spec ps rs _ _ Hwf (call_event_contig R act cc l Hsyn) Hle) as [a [c [Hb [Hv _]]]].
    exists a, c. split; auto.
    intros i p Hnth. specialize (Hv i p Hnth).
    destruct (wf_sig_parts ps rs Hwf) as [_ [Hplain [Hres _]]].
    assert (Hin : In p ps) by (eapply nth_error_In; eauto).
    assert (E : ev_value (start_event_args R act (eval_args cc (parse_args l 0 []))) i p = spec_value cc l i p).
    { unfold Bind.ev_value, Bind.spec_value.
      rewrite call_event_pos by auto. rewrite call_event_named by auto.
      destruct (nth_error (pos_exprs l) i); simpl; auto.
      destruct (named_expr (p_name p) l); simpl; auto. }
    now rewrite <- E.
  Qed.

  (* ---- what the code does outside the premise (observations O1-O3) ---- *)

  Lemma nth_error_seq_pos n j : j < n -> nth_error (map pos_key (seq 0 n)) j = Some (pos_key j).
  Proof.
    intros H. rewrite nth_error_map.
    replace (nth_error (seq 0 n) j) with (Some j); auto.
    symmetry. rewrite nth_error_nth' with (d := 0) by (now rewrite seq_length).
    now rewrite seq_nth.
  Qed.

  (* O1: surplus positional arguments (k > n, contiguous).  The check
     `f"${last_idx+1}" in event_arguments` fires only when the flow has no parameter or
     more than 2n arguments were given; otherwise the callee runs with the first n values,
     `arguments` has no `$n` (the caller's FlowStarted match, which mentions `$n`, can never
     succeed) and the context gains the key `$0` holding argument number n. *)
  Theorem obs_surplus : forall ps rs ev k,
    wf_signature expr ps rs = true ->
    pos_contig ev k -> List.length ps < k ->
    (bind ps rs ev = BTooMany <-> (List.length ps = 0 \/ 2 * List.length ps < k)) /\
    (forall a c, bind ps rs ev = Bound a c ->
       (forall i p, nth_error ps i = Some p ->
          aget (p_name p) c = aget (pos_key i) ev /\ aget (p_name p) a = aget (pos_key i) ev) /\
       aget (pos_key (List.length ps)) a = None /\
       aget (pos_key 0) c = aget (pos_key (List.length ps)) ev).
  Proof.
    intros ps rs ev k Hwf Hc Hk.
    destruct (wf_sig_parts ps rs Hwf) as [Hnd [Hplain [Hres Hrets]]].
    set (n := List.length ps) in *.
    unfold Bind.bind, bind_in, create_flow_instance.
    destruct (cfi_named ps ev [] []) as [args0 c0] eqn:Ecfi.
    assert (Ea : args0 = fst (cfi_named ps ev [] [])) by now rewrite Ecfi.
    assert (Hkeys : map fst (cfi_pos ps 0 ev args0) = map p_name ps ++ map pos_key (seq 0 n)).
    { rewrite Ea, arguments_keys; auto. f_equal.
      rewrite pos_present_contig with (k := k); auto; try lia.
      do 2 f_equal. fold n. lia. }
    unfold start_flow.
    destruct (sf_loop (map fst (cfi_pos ps 0 ev args0)) 0 ev (cfi_ret rs c0) 0) as [c' next] eqn:Esf.
    assert (Ec' : c' = set_pos (map fst (cfi_pos ps 0 ev args0)) 0 ev (cfi_ret rs c0)).
    { rewrite <- sf_loop_fst with (next := 0). now rewrite Esf. }
    assert (Enext : next = snd (sf_loop (map fst (cfi_pos ps 0 ev args0)) 0 ev (cfi_ret rs c0) 0)) by now rewrite Esf.
    rewrite sf_loop_snd with (k := k) in Enext; auto; try lia.
    rewrite Hkeys, app_length, !map_length, seq_length in Enext. fold n in Enext.
    rewrite (Hc next).
    assert (Hlen : forall j, j < n -> nth_error (map p_name ps ++ map pos_key (seq 0 n)) j = nth_error (map p_name ps) j).
    { intros j Hj. apply nth_error_app1. rewrite map_length. exact Hj. }
    assert (Hlen2 : forall j, n <= j -> nth_error (map p_name ps ++ map pos_key (seq 0 n)) j
                                         = nth_error (map pos_key (seq 0 n)) (j - n)).
    { intros j Hj. rewrite nth_error_app2 by (rewrite map_length; exact Hj). now rewrite map_length. }
    split.
    - (* when is the call rejected *)
      destruct (n + n <=? k - 0) eqn:E1.
      + apply Nat.leb_le in E1. destruct (n + n =? 0) eqn:E2.
        * apply Nat.eqb_eq in E2. subst next.
          replace (0 <? k) with true by (symmetry; apply Nat.ltb_lt; lia).
          split; auto. intros _. left. lia.
        * apply Nat.eqb_neq in E2. subst next.
          destruct (0 + (n + n) <? k) eqn:E3.
          -- apply Nat.ltb_lt in E3. split; auto. intros _. right. lia.
          -- apply Nat.ltb_ge in E3. split; [discriminate|]. intros [H | H]; lia.
      + apply Nat.leb_gt in E1. subst next.
        replace (S k <? k) with false by (symmetry; apply Nat.ltb_ge; lia).
        split; [discriminate|]. intros [H | H]; lia.
    - intros a c Hb.
      destruct (next <? k) eqn:Elt; [discriminate|]. injection Hb as <- <-.
      split; [|split].
      + intros i p Hnth.
        assert (Hi : i < n) by (apply nth_error_Some; congruence).
        split.
        * subst c'. rewrite Hkeys.
          rewrite set_pos_get with (k := k) (i := i); auto; try lia.
          -- rewrite Hlen by exact Hi. now apply nth_error_names.
          -- intros j Hji Hjk. destruct (Nat.lt_ge_cases j n) as [Hj | Hj].
             ++ rewrite Hlen by exact Hj. intros E. apply Hji.
                eapply NoDup_nth_unique; eauto. now apply nth_error_names.
             ++ rewrite Hlen2 by exact Hj. intros E.
                destruct (Nat.lt_ge_cases (j - n) n) as [Hj2 | Hj2].
                ** rewrite nth_error_seq_pos in E by exact Hj2. injection E as E.
                   symmetry in E. revert E. apply plain_ne_pos_key. apply Hplain. eapply nth_error_In; eauto.
                ** assert (Hnone : nth_error (map pos_key (seq 0 n)) (j - n) = None)
                     by (apply nth_error_None; now rewrite map_length, seq_length).
                   rewrite Hnone in E. discriminate.
        * rewrite cfi_pos_name with (i := i); auto. simpl.
          destruct (contig_some ev k i Hc) as [v Hv]; [lia|]. now rewrite Hv.
      + rewrite cfi_pos_poskey by auto. fold n.
        replace ((0 <=? n) && (n <? 0 + n)) with false
          by (symmetry; apply andb_false_iff; right; apply Nat.ltb_ge; lia).
        rewrite Ea. destruct (cfi_named_other ps ev [] [] (pos_key n)) as [H _]; [|now rewrite H].
        intros Hin. apply in_map_iff in Hin. destruct Hin as [q [E Hq]].
        revert E. apply plain_ne_pos_key. auto.
      + destruct (Nat.eq_dec n 0) as [Hn0 | Hn0].
        * (* no parameter: the call is rejected, so this case is vacuous *)
          exfalso. rewrite Hn0 in Enext. simpl in Enext. subst next.
          apply Nat.ltb_ge in Elt. lia.
        * subst c'. rewrite Hkeys.
          replace (pos_key n) with (pos_key (0 + n)) by reflexivity.
          apply set_pos_get with (k := k); auto; try lia.
          -- rewrite Hlen2 by lia. replace (n - n) with 0 by lia. apply nth_error_seq_pos. lia.
          -- intros j Hjn Hjk. destruct (Nat.lt_ge_cases j n) as [Hj | Hj].
             ++ rewrite Hlen by exact Hj. intros E.
                apply nth_error_In in E. apply in_map_iff in E. destruct E as [q [E Hq]].
                revert E. apply plain_ne_pos_key. auto.
             ++ rewrite Hlen2 by exact Hj. intros E.
                destruct (Nat.lt_ge_cases (j - n) n) as [Hj2 | Hj2].
                ** rewrite nth_error_seq_pos in E by exact Hj2.
                   assert (E' : pos_key (j - n) = pos_key 0) by congruence.
                   apply pos_key_inj in E'. lia.
                ** assert (Hnone : nth_error (map pos_key (seq 0 n)) (j - n) = None)
                     by (apply nth_error_None; now rewrite map_length, seq_length).
                   rewrite Hnone in E. discriminate.
  Qed.

  (* O2: a parameter given positionally AND by name gets the positional value, in the context
     and in `arguments` (so the caller's FlowStarted match on name=w fails when v <> w) *)
  Theorem obs_double : forall ps rs ev k i p v w,
    wf_signature expr ps rs = true -> pos_contig ev k -> k <= List.length ps ->
    nth_error ps i = Some p ->
    aget (pos_key i) ev = Some v -> aget (p_name p) ev = Some w ->
    exists a c, bind ps rs ev = Bound a c /\ aget (p_name p) c = Some v /\ aget (p_name p) a = Some v.
  Proof.
    intros ps rs ev k i p v w Hwf Hc Hk Hnth Hv Hw.
    destruct (bind_spec ps rs ev k Hwf Hc Hk) as [a [c [Hb [Hvals _]]]].
    exists a, c. split; auto. specialize (Hvals i p Hnth).
    unfold Bind.ev_value in Hvals. now rewrite Hv in Hvals.
  Qed.

  (* O3: an argument name that is no parameter is ignored: it is not in `arguments`, hence
     not in the FlowStarted event, and the caller's FlowStarted match that mentions it fails *)
  Theorem obs_unknown_named : forall ps rs ev k z,
    wf_signature expr ps rs = true -> pos_contig ev k -> k <= List.length ps ->
    plain z = true -> ~ In z (map p_name ps) ->
    exists a c, bind ps rs ev = Bound a c /\ aget z a = None.
  Proof.
    intros ps rs ev k z Hwf Hc Hk Hz Hnot.
    destruct (bind_spec ps rs ev k Hwf Hc Hk) as [a [c [Hb [_ Hkeys]]]].
    exists a, c. split; auto. apply aget_none_not_in. rewrite Hkeys.
    rewrite in_app_iff. intros [H | H]; auto.
    apply in_map_iff in H. destruct H as [j [E _]]. symmetry in E. revert E. now apply plain_ne_pos_key.
  Qed.

  (* inside the premise every argument of the call is echoed with the same value by
     `arguments`, i.e. by the FlowStarted event the caller waits for *)
  Theorem call_args_echoed : forall ps rs ev k,
    wf_signature expr ps rs = true -> pos_contig ev k -> k <= List.length ps ->
    (forall i p, i < k -> nth_error ps i = Some p -> ahas (p_name p) ev = false) ->
    exists a c, bind ps rs ev = Bound a c /\
      (forall j v, aget (pos_key j) ev = Some v -> aget (pos_key j) a = Some v) /\
      (forall p v, In p ps -> aget (p_name p) ev = Some v -> aget (p_name p) a = Some v).
  Proof.
    intros ps rs ev k Hwf Hc Hk Hnodouble.
    destruct (wf_sig_parts ps rs Hwf) as [Hnd [Hplain _]].
    destruct (bind_spec ps rs ev k Hwf Hc Hk) as [a [c [Hb [Hvals _]]]].
    exists a, c. split; auto. split.
    - intros j v Hv.
      assert (Hj : j < k).
      { destruct (Nat.lt_ge_cases j k); auto. rewrite (contig_none ev k j Hc) in Hv by lia. discriminate. }
      unfold Bind.bind, bind_in, create_flow_instance in Hb.
      destruct (cfi_named ps ev [] []) as [args0 c0].
      destruct (start_flow (cfi_pos ps 0 ev args0) ev (cfi_ret rs c0)); [|discriminate].
      injection Hb as <- _.
      rewrite cfi_pos_poskey by auto.
      replace ((0 <=? j) && (j <? 0 + List.length ps)) with true
        by (symmetry; apply andb_true_iff; split; [apply Nat.leb_le | apply Nat.ltb_lt]; lia).
      now rewrite Hv.
    - intros p v Hin Hv.
      apply In_nth_error in Hin. destruct Hin as [i Hnth].
      destruct (Hvals i p Hnth) as [_ Ha]. rewrite Ha. f_equal.
      unfold Bind.ev_value. rewrite Hv.
      destruct (Nat.lt_ge_cases i k) as [Hlt | Hge].
      + specialize (Hnodouble i p Hlt Hnth). unfold ahas in Hnodouble. rewrite Hv in Hnodouble. discriminate.
      + now rewrite (contig_none ev k i Hc Hge).
  Qed.

  (* `arguments` only ever holds parameter names and `$i` keys, whatever the call *)
  Lemma arguments_no_other_key ps rs ev a c z :
    bind ps rs ev = Bound a c -> plain z = true -> ~ In z (map p_name ps) -> aget z a = None.
  Proof.
    intros Hb Hz Hnot. unfold Bind.bind, bind_in, create_flow_instance in Hb.
    destruct (cfi_named ps ev [] []) as [args0 c0] eqn:E.
    destruct (start_flow (cfi_pos ps 0 ev args0) ev (cfi_ret rs c0)); [|discriminate].
    injection Hb as <- _.
    rewrite cfi_pos_other; auto.
    - destruct (cfi_named_other ps ev [] [] z Hnot) as [H _]. rewrite E in H. exact H.
    - intros j. now apply plain_ne_pos_key.
  Qed.

  (* When the FlowStarted match carries only flow_id and flow_instance_uid, EVERY call that
     binds (well-formed or not, whatever happens to globals in between) is echoed by the
     callee's FlowStarted event: the caller is never left waiting for the start *)
  Theorem started_uid_only_echoed : forall ps rs ev a c R evargs_at_match,
    wf_signature expr ps rs = true ->
    bind ps rs ev = Bound a c ->
    forall k v, aget k (started_pattern false R evargs_at_match) = Some v ->
                aget k (started_args (r_instance_uid R) (r_flow_id R) a) = Some v.
  Proof.
    intros ps rs ev a c R pe Hwf Hb k v Hk.
    destruct (wf_sig_parts ps rs Hwf) as [_ [_ [Hres _]]].
    assert (Hnot : forall z, In z reserved_keys -> ~ In z (map p_name ps)).
    { intros z Hz Hin. apply in_map_iff in Hin. destruct Hin as [q [E Hq]]. subst z. now apply (Hres q). }
    unfold started_pattern in Hk. simpl in Hk.
    unfold started_args, out_event_args. unfold aupdate at 1. simpl.
    destruct (String.eqb k "flow_id") eqn:E1.
    - apply String.eqb_eq in E1. subst k. injection Hk as <-.
      rewrite aget_aupdate_none; [reflexivity|].
      apply (arguments_no_other_key ps rs ev a c); auto. apply Hnot. simpl. auto.
    - destruct (String.eqb k "flow_instance_uid") eqn:E2; [|discriminate].
      apply String.eqb_eq in E2. subst k. injection Hk as <-.
      rewrite aget_aupdate_none; [reflexivity|].
      apply (arguments_no_other_key ps rs ev a c); auto. apply Hnot. simpl. auto.
  Qed.

  (* ---- restart of an activated flow ---- *)

  Lemma cfi_named_keys_NoDup ps : forall ev args c,
    NoDup (map fst args) -> NoDup (map fst (fst (cfi_named ps ev args c))).
  Proof.
    induction ps as [|p ps IH]; intros ev args c H; simpl; auto.
    apply IH. now apply aset_keys_NoDup.
  Qed.

  Lemma cfi_pos_keys_NoDup ps : forall idx ev args,
    NoDup (map fst args) -> NoDup (map fst (cfi_pos ps idx ev args)).
  Proof.
    induction ps as [|p ps IH]; intros idx ev args H; simpl; auto.
    apply IH. destruct (aget (pos_key idx) ev); auto. now apply aset_keys_NoDup, aset_keys_NoDup.
  Qed.

  Lemma bound_arguments_NoDup ps rs ev a c : bind ps rs ev = Bound a c -> NoDup (map fst a).
  Proof.
    unfold Bind.bind, bind_in, create_flow_instance. intros Hb.
    destruct (cfi_named ps ev [] []) as [args0 c0] eqn:E.
    destruct (start_flow (cfi_pos ps 0 ev args0) ev (cfi_ret rs c0)); [|discriminate].
    injection Hb as <- _. apply cfi_pos_keys_NoDup.
    replace args0 with (fst (cfi_named ps ev [] [])) by now rewrite E.
    apply cfi_named_keys_NoDup. constructor.
  Qed.

  Lemma restart_event_args_get R act a k :
    NoDup (map fst a) -> ~ In k reserved_keys -> aget k (restart_event_args R act a) = aget k a.
  Proof.
    intros Hnd H. unfold restart_event_args. simpl in H.
    rewrite aget_aset_other by tauto. rewrite aget_aupdate by auto.
    destruct (aget k a); auto. simpl.
    repeat match goal with
           | |- context [String.eqb k ?s] =>
               let E := fresh "E" in destruct (String.eqb k s) eqn:E;
               [apply String.eqb_eq in E; subst k; exfalso; tauto|]
           end.
    reflexivity.
  Qed.

  (* The successor instance of a restarted activated flow binds every parameter to the value
     the ORIGINAL call bound (positional, else named, else default), whatever the predecessor
     assigned to its parameter variables or locals meanwhile: the restart event is built from
     `arguments`, which no Assignment touches. *)
  Theorem restart_rebinds_original_values : forall ps rs ev k a c R act,
    wf_signature expr ps rs = true -> pos_contig ev k -> k <= List.length ps ->
    bind ps rs ev = Bound a c ->
    exists a' c', bind ps rs (restart_event_args R act a) = Bound a' c' /\
      forall i p, nth_error ps i = Some p ->
        aget (p_name p) c' = Some (ev_value ev i p) /\ aget (p_name p) a' = Some (ev_value ev i p).
  Proof.
    intros ps rs ev k a c R act Hwf Hc Hk Hb.
    destruct (wf_sig_parts ps rs Hwf) as [Hnd [Hplain [Hres _]]].
    destruct (bind_spec ps rs ev k Hwf Hc Hk) as [a0 [c0 [Hb0 [Hvals Hkeys]]]].
    rewrite Hb in Hb0. injection Hb0 as <- <-.
    assert (HndA : NoDup (map fst a)) by (eapply bound_arguments_NoDup; eauto).
    assert (Hpos : forall j, aget (pos_key j) (restart_event_args R act a) = aget (pos_key j) ev).
    { intros j. rewrite restart_event_args_get by (auto; apply pos_key_not_reserved).
      destruct (Nat.lt_ge_cases j k) as [Hlt | Hge].
      - destruct (contig_some ev k j Hc Hlt) as [v Hv]. rewrite Hv.
        unfold Bind.bind, bind_in, create_flow_instance in Hb.
        destruct (cfi_named ps ev [] []) as [args0 cc0].
        destruct (start_flow (cfi_pos ps 0 ev args0) ev (cfi_ret rs cc0)); [|discriminate].
        injection Hb as <- _. rewrite cfi_pos_poskey by auto.
        replace ((0 <=? j) && (j <? 0 + List.length ps)) with true
          by (symmetry; apply andb_true_iff; split; [apply Nat.leb_le | apply Nat.ltb_lt]; lia).
        now rewrite Hv.
      - rewrite (contig_none ev k j Hc Hge). apply aget_none_not_in. rewrite Hkeys.
        rewrite in_app_iff. intros [H | H].
        + apply in_map_iff in H. destruct H as [q [E Hq]]. revert E. apply plain_ne_pos_key. auto.
        + apply in_map_iff in H. destruct H as [j' [E Hj']]. apply pos_key_inj in E. subst j'.
          apply in_seq in Hj'. lia. }
    assert (Hc' : pos_contig (restart_event_args R act a) k).
    { intros j. unfold ahas. rewrite Hpos. apply (Hc j). }
    destruct (bind_spec ps rs _ k Hwf Hc' Hk) as [a' [c' [Hb' [Hvals' _]]]].
    exists a', c'. split; auto. intros i p Hnth.
    assert (Hin : In p ps) by (eapply nth_error_In; eauto).
    assert (E : ev_value (restart_event_args R act a) i p = ev_value ev i p).
    { unfold Bind.ev_value at 1. rewrite Hpos.
      rewrite restart_event_args_get by auto.
      destruct (Hvals i p Hnth) as [_ Ha]. rewrite Ha.
      unfold Bind.ev_value. destruct (aget (pos_key i) ev); reflexivity. }
    rewrite <- E. now apply Hvals'.
  Qed.

  (* ---- per-instance contexts ---- *)
  Notation step := (step expr eval).
  Notation run := (run expr eval).
  Notation op := (op expr).

  (* cells handed out so far are below m_next; no two instances own the same cell *)
  Definition bounded (st : mstate) : Prop := forall i c, m_cell st i = Some c -> c < m_next st.
  Definition separate (st : mstate) : Prop := forall i j c, m_cell st i = Some c -> m_cell st j = Some c -> i = j.

  Lemma init_bounded : bounded m_init.
  Proof. intros i c. simpl. destruct (Nat.eqb i 0); intros H; inversion H; lia. Qed.

  Lemma init_separate : separate m_init.
  Proof.
    intros i j c. simpl. destruct (Nat.eqb i 0) eqn:E1, (Nat.eqb j 0) eqn:E2; try discriminate.
    apply Nat.eqb_eq in E1, E2. congruence.
  Qed.

  Lemma assign_val_cells st i k v st' :
    assign_val st i k v = Ok st' -> m_cell st' = m_cell st /\ m_next st' = m_next st.
  Proof.
    unfold assign_val. destruct (m_cell st i); [|discriminate].
    destruct (ahas (global_key k) (m_heap st n)); intros H; injection H as <-; auto.
  Qed.

  (* how an operation changes the cell table *)
  Lemma step_cells st o st' :
    step st o = Ok st' ->
    match o with
    | OStart _ _ callee _ _ _ _ _ =>
        m_cell st' = upd (m_cell st) callee (Some (m_next st)) /\ m_next st' = S (m_next st)
    | OStartShared _ caller callee _ =>
        exists c, m_cell st caller = Some c /\ m_cell st' = upd (m_cell st) callee (Some c) /\ m_next st' = m_next st
    | _ => m_cell st' = m_cell st /\ m_next st' = m_next st
    end.
  Proof.
    destruct o; simpl.
    - destruct (eval_ctx st i); [|discriminate]. apply assign_val_cells.
    - destruct (m_cell st i); [|discriminate]. intros H; injection H as <-; auto.
    - destruct (eval_ctx st caller); [|discriminate].
      destruct (Bind.bind expr eval ps rs _); try discriminate. intros H; injection H as <-; auto.
    - destruct (m_cell st caller) eqn:E; [|discriminate]. intros H; injection H as <-. eauto.
    - destruct (m_cell st i); [|discriminate]. destruct (eval_ctx st i); [|discriminate].
      intros H; injection H as <-; auto.
    - destruct (aget "return_value" _); [|discriminate]. apply assign_val_cells.
  Qed.

  Lemma step_bounded st o st' : bounded st -> step st o = Ok st' -> bounded st'.
  Proof.
    intros Hb Hs. apply step_cells in Hs. intros i c Hi.
    destruct o.
    1,2,5,6: destruct Hs as [E1 E2]; rewrite E1 in Hi; rewrite E2; now apply (Hb i).
    - destruct Hs as [E1 E2]. rewrite E1 in Hi. rewrite E2. unfold upd in Hi.
      destruct (Nat.eqb i callee).
      + injection Hi as <-. lia.
      + specialize (Hb i c Hi). lia.
    - destruct Hs as [c0 [Hc0 [E1 E2]]]. rewrite E1 in Hi. rewrite E2. unfold upd in Hi.
      destruct (Nat.eqb i callee).
      + injection Hi as <-. now apply (Hb caller).
      + now apply (Hb i).
  Qed.

  Lemma step_separate st o st' :
    bounded st -> separate st -> is_shared_start expr o = false -> step st o = Ok st' -> separate st'.
  Proof.
    intros Hb Hsep Hns Hs. apply step_cells in Hs. intros i j c Hi Hj.
    destruct o; try discriminate.
    1,2,4,5: destruct Hs as [E1 _]; rewrite E1 in Hi, Hj; now apply (Hsep i j c).
    destruct Hs as [E1 _]. rewrite E1 in Hi, Hj. unfold upd in Hi, Hj.
    destruct (Nat.eqb i callee) eqn:Ei, (Nat.eqb j callee) eqn:Ej.
    - apply Nat.eqb_eq in Ei, Ej. congruence.
    - injection Hi as <-. specialize (Hb j _ Hj). lia.
    - injection Hj as <-. specialize (Hb i _ Hi). lia.
    - now apply (Hsep i j c).
  Qed.

  Definition no_shared_start (os : list op) : Prop := forallb (fun o => negb (is_shared_start expr o)) os = true.

  Lemma run_invariant os : forall st st',
    bounded st -> separate st -> no_shared_start os -> run st os = Ok st' -> bounded st' /\ separate st'.
  Proof.
    induction os as [|o r IH]; intros st st' Hb Hsep Hns Hrun; simpl in Hrun.
    - injection Hrun as <-. auto.
    - unfold no_shared_start in Hns. simpl in Hns. apply andb_true_iff in Hns. destruct Hns as [Ho Hr].
      apply negb_true_iff in Ho.
      destruct (step st o) as [st1|] eqn:Es; [|discriminate].
      apply (IH st1 st'); auto.
      + eapply step_bounded; eauto.
      + eapply step_separate; eauto.
  Qed.

  Lemma run_bounded os : forall st st', bounded st -> run st os = Ok st' -> bounded st'.
  Proof.
    induction os as [|o r IH]; intros st st' Hb Hrun; simpl in Hrun.
    - now injection Hrun as <-.
    - destruct (step st o) as [st1|] eqn:Es; [|discriminate].
      apply (IH st1 st'); auto. eapply step_bounded; eauto.
  Qed.

  (* an assignment to a key that the instance has not declared global: whole-state frame,
     stated on cells (two instances that were started with a shared context own one cell) *)
  Theorem assign_local_frame : forall st i k e st',
    step st (OAssign expr i k e) = Ok st' ->
    ahas (global_key k) (ctx_of st i) = false ->
    (forall j, m_cell st j <> m_cell st i -> ctx_of st' j = ctx_of st j) /\
    m_gctx st' = m_gctx st /\
    (forall j, m_args st' j = m_args st j) /\
    (forall j, m_cell st' j = m_cell st j) /\
    exists ec, eval_ctx st i = Some ec /\ ctx_of st' i = aset k (eval ec e) (ctx_of st i).
  Proof.
    intros st i k e st' Hs Hloc. simpl in Hs.
    destruct (eval_ctx st i) as [ec|] eqn:Eec; [|discriminate].
    unfold assign_val in Hs. unfold ctx_of in Hloc.
    destruct (m_cell st i) as [c|] eqn:Ec; [|discriminate].
    rewrite Hloc in Hs. injection Hs as <-. simpl.
    split; [|split; [|split; [|split]]]; auto.
    - intros j Hj. unfold ctx_of. simpl. destruct (m_cell st j) as [c'|] eqn:Ej; auto.
      unfold upd. destruct (Nat.eqb c' c) eqn:E; auto.
      apply Nat.eqb_eq in E. subst c'. exfalso. apply Hj. reflexivity.
    - exists ec. split; auto. unfold ctx_of. simpl. rewrite Ec. unfold upd. now rewrite Nat.eqb_refl.
  Qed.

  (* C08_locals_private: in every state reached without a shared-context start, an Assign to
     a non-global key in instance i changes only instance i's context *)
  Theorem locals_private : forall os st i k e st',
    no_shared_start os -> run m_init os = Ok st ->
    step st (OAssign expr i k e) = Ok st' ->
    ahas (global_key k) (ctx_of st i) = false ->
    (forall j, j <> i -> ctx_of st' j = ctx_of st j) /\
    m_gctx st' = m_gctx st /\
    (forall j, m_args st' j = m_args st j) /\
    exists ec, eval_ctx st i = Some ec /\ ctx_of st' i = aset k (eval ec e) (ctx_of st i).
  Proof.
    intros os st i k e st' Hns Hrun Hs Hloc.
    destruct (run_invariant os m_init st init_bounded init_separate Hns Hrun) as [_ Hsep].
    destruct (assign_local_frame st i k e st' Hs Hloc) as [H1 [H2 [H3 [H4 H5]]]].
    split; [|split; [|split]]; auto.
    intros j Hji. destruct (m_cell st j) as [c|] eqn:Ej.
    - apply H1. rewrite Ej. intros E. symmetry in E. apply Hji. eapply Hsep; eauto.
    - unfold ctx_of. now rewrite H4, Ej.
  Qed.

  (* the stated exception: after StartFlow(.., context=$self.context) the two instances
     share one context, and an assignment in one is visible in the other *)
  Theorem shared_context_is_shared : forall st caller callee rs st1 k e st2,
    step st (OStartShared expr caller callee rs) = Ok st1 ->
    step st1 (OAssign expr callee k e) = Ok st2 ->
    ahas (global_key k) (ctx_of st1 callee) = false ->
    m_cell st1 callee = m_cell st1 caller /\ ctx_of st2 caller = ctx_of st2 callee /\
    exists v, aget k (ctx_of st2 caller) = Some v.
  Proof.
    intros st caller callee rs st1 k e st2 H1 H2 Hloc.
    assert (Hc : m_cell st1 callee = m_cell st1 caller).
    { apply step_cells in H1. destruct H1 as [c [Hc [E _]]]. rewrite E. unfold upd.
      rewrite Nat.eqb_refl. destruct (Nat.eqb caller callee); auto. }
    destruct (assign_local_frame st1 callee k e st2 H2 Hloc) as [_ [_ [_ [H4 [ec [_ H5]]]]]].
    assert (Hsame : ctx_of st2 caller = ctx_of st2 callee) by (unfold ctx_of; now rewrite !H4, Hc).
    split; auto. split; auto. exists (eval ec e). rewrite Hsame, H5. apply aget_aset_same.
  Qed.

  (* ---- return values ---- *)

  Lemma base_keys_NoDup (uid fid : value) :
    NoDup (map fst [("source_flow_instance_uid", uid); ("flow_instance_uid", uid); ("flow_id", fid)]).
  Proof.
    simpl. repeat constructor; simpl; intros H;
      repeat match goal with H : _ \/ _ |- _ => destruct H as [H | H] end; try discriminate; auto.
  Qed.

  Lemma finished_args_NoDup uid fid a c : NoDup (map fst (finished_args uid fid a c)).
  Proof.
    unfold finished_args, out_event_args. apply aupdate_keys_NoDup, aupdate_keys_NoDup, base_keys_NoDup.
  Qed.

  Lemma finished_return_value uid fid a c :
    aget "return_value" (finished_args uid fid a c)
    = match aget "_return_value" c with
      | Some v => Some v
      | None => aget "return_value" (aupdate [("source_flow_instance_uid", uid); ("flow_instance_uid", uid); ("flow_id", fid)] a)
      end.
  Proof.
    unfold finished_args, out_event_args. destruct (aget "_return_value" c).
    - unfold aupdate at 1. simpl. apply aget_aset_same.
    - reflexivity.
  Qed.

  Lemma event_ref_same k fin : NoDup (map fst fin) -> aget k (event_ref_args fin fin) = aget k fin.
  Proof. intros H. unfold event_ref_args. rewrite aget_aupdate by auto. now destruct (aget k fin). Qed.

  (* C08_return: `$x = await f(..)` stores in the caller the value of the executed `return e`
     (None for a bare `return`), evaluated in the callee's context at the return *)
  Theorem return_spec : forall st callee e st1 caller x uid fid st2 ec,
    eval_ctx st callee = Some ec ->
    step st (OReturn expr callee e) = Ok st1 ->
    m_cell st caller <> m_cell st callee ->
    ahas (global_key x) (ctx_of st caller) = false ->
    step st1 (OAwaitAssign expr caller callee uid fid x) = Ok st2 ->
    aget x (ctx_of st2 caller) = Some (match e with Some e' => eval ec e' | None => VNone end) /\
    (forall j, m_cell st j <> m_cell st caller -> ctx_of st2 j = ctx_of st1 j) /\
    m_gctx st2 = m_gctx st.
  Proof.
    intros st callee e st1 caller x uid fid st2 ec Hec H1 Hne Hloc H2.
    simpl in H1. destruct (m_cell st callee) as [cc|] eqn:Ecc; [|discriminate].
    rewrite Hec in H1. injection H1 as <-.
    set (v := match e with Some e' => eval ec e' | None => VNone end) in *.
    simpl in H2. unfold ctx_of in H2. simpl in H2. rewrite Ecc in H2.
    rewrite event_ref_same in H2 by apply finished_args_NoDup.
    rewrite finished_return_value in H2. unfold upd in H2 at 1. rewrite Nat.eqb_refl in H2.
    rewrite aget_aset_same in H2.
    unfold assign_val in H2. simpl in H2. unfold ctx_of in Hloc.
    destruct (m_cell st caller) as [c1|] eqn:Ec1; [|discriminate].
    assert (Hcc : Nat.eqb c1 cc = false) by (apply Nat.eqb_neq; congruence).
    unfold upd in H2 at 1. rewrite Hcc, Hloc in H2. injection H2 as <-.
    unfold ctx_of. simpl. rewrite Ec1. split; [|split]; auto.
    - unfold upd. rewrite Nat.eqb_refl. apply aget_aset_same.
    - intros j Hj. destruct (m_cell st j) as [cj|]; auto.
      unfold upd at 1. destruct (Nat.eqb cj c1) eqn:E; auto.
      apply Nat.eqb_eq in E. subst. exfalso. now apply Hj.
  Qed.

  (* O4: the callee ended without executing `return` (and has no parameter called
     return_value): the expansion's `$x = $ev.arguments.return_value` raises, the caller fails *)
  Theorem obs_no_return : forall st caller callee uid fid x,
    aget "_return_value" (ctx_of st callee) = None ->
    aget "return_value" (m_args st callee) = None ->
    step st (OAwaitAssign expr caller callee uid fid x) = Err ENoReturnValue.
  Proof.
    intros st caller callee uid fid x H1 H2. simpl.
    rewrite event_ref_same by apply finished_args_NoDup.
    rewrite finished_return_value, H1. rewrite aget_aupdate_none by auto. reflexivity.
  Qed.

  (* C08_caller_eval: the call as a step of the machine.  The callee's parameters hold the
     values of the argument expressions evaluated in the CALLER's context at the call
     (eval_ctx st caller); no other instance's context and no global changes *)
  Theorem caller_eval : forall st caller callee ps rs R act (l : list arg) ec,
    wf_signature expr ps rs = true ->
    syntactic_call expr l = true ->
    well_formed_call expr ps l = true ->
    bounded st ->
    eval_ctx st caller = Some ec ->
    exists st',
      step st (OStart expr caller callee ps rs R act (parse_args l 0 [])) = Ok st' /\
      (forall i p, nth_error ps i = Some p ->
         aget (p_name p) (ctx_of st' callee) = Some (spec_value ec l i p) /\
         aget (p_name p) (m_args st' callee) = Some (spec_value ec l i p)) /\
      (forall j, j <> callee -> ctx_of st' j = ctx_of st j) /\
      m_gctx st' = m_gctx st.
  Proof.
    intros st caller callee ps rs R act l ec Hwf Hsyn Hcall Hb Hec.
    destruct (bind_call_spec ps rs l ec R act Hwf Hsyn Hcall) as [a [c [Hbind Hvals]]].
    simpl. rewrite Hec, Hbind. eexists. split; [reflexivity|].
    split; [|split]; auto.
    - intros i p Hnth. unfold ctx_of. simpl. unfold upd. rewrite !Nat.eqb_refl. now apply Hvals.
    - intros j Hj. unfold ctx_of. simpl. unfold upd at 1.
      replace (Nat.eqb j callee) with false by (symmetry; apply Nat.eqb_neq; auto).
      destruct (m_cell st j) as [cj|] eqn:Ej; auto.
      unfold upd. replace (Nat.eqb cj (m_next st)) with false; auto.
      symmetry. apply Nat.eqb_neq. specialize (Hb j cj Ej). lia.
  Qed.

  (* ---- re-activation: _get_reference_activated_flow_instance ---- *)
  Variable veq : value -> value -> bool.
  Notation param_matched := (param_matched expr eval veq).
  Notation params_match := (params_match expr eval veq).

  (* what the loop computes, with no premise *)
  Lemma params_match_true_iff ps : forall idx ev act,
    params_match ps idx ev act = Some true <->
    forall i p, nth_error ps i = Some p ->
      exists val, aget (p_name p) act = Some val /\ param_matched ev val (idx + i) p = true.
  Proof.
    induction ps as [|q ps IH]; intros idx ev act; simpl.
    - split; auto. intros _ i p H. destruct i; discriminate.
    - split.
      + intros H i p Hnth.
        destruct (aget (p_name q) act) as [val|] eqn:Ea; [|discriminate].
        destruct (param_matched ev val idx q) eqn:Em; [|discriminate].
        destruct i as [|i]; simpl in Hnth.
        * injection Hnth as <-. rewrite Nat.add_0_r. eauto.
        * replace (idx + S i) with (S idx + i) by lia. apply (proj1 (IH (S idx) ev act) H i p Hnth).
      + intros H. destruct (H 0 q eq_refl) as [val [Ea Em]]. rewrite Nat.add_0_r in Em.
        rewrite Ea, Em. apply IH. intros i p Hnth.
        replace (S idx + i) with (idx + S i) by lia. now apply H.
  Qed.

  Definition has_default (p : param) : bool := match p_default p with Some _ => true | None => false end.

  (* for a parameter that is not bound both ways and that has an argument or a declared
     default, the test compares the activated instance's value with the value the new call
     BINDS to that parameter (ev_value: the rule of C08_binding) *)
  Lemma param_matched_bound ev val idx p :
    ahas (pos_key idx) ev && ahas (p_name p) ev = false ->
    ahas (pos_key idx) ev || ahas (p_name p) ev || has_default p = true ->
    param_matched ev val idx p = veq val (ev_value ev idx p).
  Proof.
    unfold Bind.param_matched, Bind.ev_value, ahas, has_default, Bind.default_val.
    destruct (aget (pos_key idx) ev) as [v1|]; destruct (aget (p_name p) ev) as [v2|];
      destruct (p_default p) as [e|]; simpl; intros H1 H2; try discriminate;
      rewrite ?orb_false_r, ?andb_false_r; auto.
  Qed.

  (* Two activations are identified iff the parameter values they BIND are equal (Python ==):
     [act] is `arguments` of the already activated instance, [ev] the new StartFlow event. *)
  Theorem activation_identified_iff : forall ps ev act,
    (forall i p, nth_error ps i = Some p -> ahas (pos_key i) ev && ahas (p_name p) ev = false) ->
    (forall i p, nth_error ps i = Some p -> ahas (pos_key i) ev || ahas (p_name p) ev || has_default p = true) ->
    (forall p, In p ps -> ahas (p_name p) act = true) ->
    (params_match ps 0 ev act = Some true <->
     forall i p, nth_error ps i = Some p -> veq (getN (p_name p) act) (ev_value ev i p) = true).
  Proof.
    intros ps ev act Hnd Hgiven Hact. rewrite params_match_true_iff. split.
    - intros H i p Hnth. destruct (H i p Hnth) as [val [Ea Em]]. simpl in Em.
      rewrite param_matched_bound in Em by auto. unfold getN. now rewrite Ea.
    - intros H i p Hnth.
      assert (Hin : In p ps) by (eapply nth_error_In; eauto).
      specialize (Hact p Hin). unfold ahas in Hact.
      destruct (aget (p_name p) act) as [val|] eqn:Ea; [|discriminate].
      exists val. split; auto. simpl. rewrite param_matched_bound by auto.
      specialize (H i p Hnth). unfold getN in H. now rewrite Ea in H.
  Qed.

  (* ... in particular when the activated instance was itself bound from a call [ev0] *)
  Theorem two_activations_identified_iff : forall ps rs ev0 k0 a0 c0 ev,
    wf_signature expr ps rs = true -> pos_contig ev0 k0 -> k0 <= List.length ps ->
    bind ps rs ev0 = Bound a0 c0 ->
    (forall i p, nth_error ps i = Some p -> ahas (pos_key i) ev && ahas (p_name p) ev = false) ->
    (forall i p, nth_error ps i = Some p -> ahas (pos_key i) ev || ahas (p_name p) ev || has_default p = true) ->
    (params_match ps 0 ev a0 = Some true <->
     forall i p, nth_error ps i = Some p -> veq (ev_value ev0 i p) (ev_value ev i p) = true).
  Proof.
    intros ps rs ev0 k0 a0 c0 ev Hwf Hc Hk Hb Hnd Hgiven.
    destruct (bind_spec ps rs ev0 k0 Hwf Hc Hk) as [a [c [Hb' [Hvals _]]]].
    rewrite Hb in Hb'. injection Hb' as <- <-.
    rewrite activation_identified_iff; auto.
    - split; intros H i p Hnth; specialize (H i p Hnth); destruct (Hvals i p Hnth) as [_ Ha];
        unfold getN in *; now rewrite Ha in *.
    - intros p Hin. apply In_nth_error in Hin. destruct Hin as [i Hnth].
      destruct (Hvals i p Hnth) as [_ Ha]. unfold ahas. now rewrite Ha.
  Qed.

  (* observation O6: a parameter without default whose argument is omitted never matches,
     so such an activation is never identified with an earlier one (a new instance is started
     every time, although both bind None) *)
  Theorem obs_activation_omitted_without_default : forall ps ev act i p,
    nth_error ps i = Some p ->
    ahas (pos_key i) ev = false -> ahas (p_name p) ev = false -> p_default p = None ->
    params_match ps 0 ev act <> Some true.
  Proof.
    intros ps ev act i p Hnth H1 H2 H3 H. rewrite params_match_true_iff in H.
    destruct (H i p Hnth) as [val [_ Em]]. simpl in Em.
    unfold Bind.param_matched, ahas in *.
    destruct (aget (pos_key i) ev); [discriminate|]. destruct (aget (p_name p) ev); [discriminate|].
    rewrite H3 in Em. simpl in Em. discriminate.
  Qed.

End BindProofs.

(* ---------------------------------------------------------------------------------- *)
(* The hypotheses of the theorems are inhabited by non-trivial calls and states.        *)

Module Examples.
  Inductive xe := XLit (v : value) | XVar (x : string).
  Definition xeval (c : ctx) (e : xe) : value :=
    match e with
    | XLit v => v
    | XVar x => if ahas (global_key x) c then getN (global_key x) c else getN x c
    end.

  (* flow f $a $b=3 $c=[1] -> $r = "d" *)
  Definition ps : list (param xe) :=
    [mkParam "a" None; mkParam "b" (Some (XLit (VInt 3))); mkParam "c" (Some (XLit (VList [VInt 1])))].
  Definition rs : list (param xe) := [mkParam "r" (Some (XLit (VStr "d")))].
  (* f($y, c=$loc)  with b omitted *)
  Definition call1 : list (arg xe) := [APos (XVar "y"); ANamed "c" (XVar "loc")].
  Definition R1 := mkReserved (VStr "f") (VStr "(f)1") (VStr "(main)0") (VStr "h") (VStr "0.3").

  Example premises_inhabited :
    wf_signature xe ps rs = true /\ syntactic_call xe call1 = true /\ well_formed_call xe ps call1 = true /\
    (* and the predicate is not trivially true *)
    well_formed_call xe ps [APos (XVar "y"); ANamed "a" (XVar "loc")] = false /\
    well_formed_call xe ps [APos (XLit VNone); APos (XLit VNone); APos (XLit VNone); APos (XLit VNone)] = false.
  Proof. repeat split; reflexivity. Qed.

  Example binding_computed :
    bind xe xeval ps rs (start_event_args R1 false
                           (eval_args xe xeval [("y", VInt 10); ("loc", VStr "L")] (parse_args xe call1 0 [])))
    = Bound [("a", VInt 10); ("b", VInt 3); ("c", VStr "L"); ("$0", VInt 10)]
            [("a", VInt 10); ("b", VInt 3); ("c", VStr "L"); ("r", VStr "d")].
  Proof. reflexivity. Qed.

  (* main assigns loc, calls f, f assigns its own loc: both instances hold a `loc` *)
  Definition ops1 : list (op xe) :=
    [OAssign xe 0 "loc" (XLit (VInt 1)); OAssign xe 0 "y" (XLit (VInt 10));
     OStart xe 0 1 ps rs R1 false (parse_args xe call1 0 []);
     OAssign xe 1 "loc" (XLit (VInt 2))].

  Example locals_private_inhabited :
    exists st st',
      no_shared_start xe ops1 /\ run xe xeval m_init ops1 = Ok st /\
      step xe xeval st (OAssign xe 1 "loc" (XLit (VInt 3))) = Ok st' /\
      ahas (global_key "loc") (ctx_of st 1) = false /\
      aget "loc" (ctx_of st 0) = Some (VInt 1) /\ aget "loc" (ctx_of st 1) = Some (VInt 2) /\
      aget "loc" (ctx_of st' 0) = Some (VInt 1) /\ aget "loc" (ctx_of st' 1) = Some (VInt 3) /\
      aget "c" (ctx_of st' 1) = Some (VInt 1).
  Proof.
    eexists. eexists. split; [reflexivity|]. split; [vm_compute; reflexivity|].
    split; [vm_compute; reflexivity|]. repeat split; reflexivity.
  Qed.

  Example return_inhabited :
    exists st st1 st2 ec,
      run xe xeval m_init ops1 = Ok st /\ eval_ctx st 1 = Some ec /\
      step xe xeval st (OReturn xe 1 (Some (XVar "b"))) = Ok st1 /\
      m_cell st 0 <> m_cell st 1 /\ ahas (global_key "x") (ctx_of st 0) = false /\
      step xe xeval st1 (OAwaitAssign xe 0 1 (VStr "(f)1") (VStr "f") "x") = Ok st2 /\
      aget "x" (ctx_of st2 0) = Some (VInt 3).
  Proof.
    eexists. eexists. eexists. eexists.
    split; [vm_compute; reflexivity|]. split; [vm_compute; reflexivity|].
    split; [vm_compute; reflexivity|]. split; [vm_compute; discriminate|].
    split; [reflexivity|]. split; [vm_compute; reflexivity|]. reflexivity.
  Qed.

  (* O1 on `flow g $a`: two arguments are NOT rejected (k = 2n), three are *)
  Definition gs : list (param xe) := [mkParam "a" None].
  Example surplus_not_rejected :
    bind xe xeval gs [] [("$0", VInt 1); ("$1", VInt 2)]
    = Bound [("a", VInt 1); ("$0", VInt 1)] [("a", VInt 1); ("$0", VInt 2)].
  Proof. reflexivity. Qed.
  Example surplus_rejected :
    bind xe xeval gs [] [("$0", VInt 1); ("$1", VInt 2); ("$2", VInt 3)] = BTooMany.
  Proof. reflexivity. Qed.
  Example surplus_premises : wf_signature xe gs [] = true /\ pos_contig [("$0", VInt 1); ("$1", VInt 2)] 2.
  Proof.
    split; [reflexivity|]. intros i. destruct i as [|[|i]]; try reflexivity.
    assert (H1 : forall j, String.eqb (pos_key (S (S j))) "$0" = false).
    { intros j. apply String.eqb_neq. intros E. apply (pos_key_inj (S (S j)) 0) in E. discriminate. }
    assert (H2 : forall j, String.eqb (pos_key (S (S j))) "$1" = false).
    { intros j. apply String.eqb_neq. intros E. apply (pos_key_inj (S (S j)) 1) in E. discriminate. }
    unfold ahas. cbn [aget]. now rewrite H1, H2.
  Qed.

  (* O2: f 1 $a=2 *)
  Example double_binding_positional_wins :
    bind xe xeval gs [] [("$0", VInt 1); ("a", VInt 2)] = Bound [("a", VInt 1); ("$0", VInt 1)] [("a", VInt 1)].
  Proof. reflexivity. Qed.

  (* the shared-context start: main (0) and the generated flow (2) share one context *)
  Example shared_inhabited :
    exists st st1 st2,
      run xe xeval m_init ops1 = Ok st /\
      step xe xeval st (OStartShared xe 0 2 []) = Ok st1 /\
      step xe xeval st1 (OAssign xe 2 "loc" (XLit (VInt 9))) = Ok st2 /\
      ahas (global_key "loc") (ctx_of st1 2) = false /\
      aget "loc" (ctx_of st2 0) = Some (VInt 9) /\ aget "loc" (ctx_of st2 1) = Some (VInt 2).
  Proof.
    eexists. eexists. eexists.
    split; [vm_compute; reflexivity|]. split; [vm_compute; reflexivity|].
    split; [vm_compute; reflexivity|]. repeat split; reflexivity.
  Qed.
  (* O5 / known finding: `global $g ; $g = 1 ; $x = await g1($g)` where g1 does
     `global $g ; $g = 2` before it is started.  The call is well formed and binds a = 1, but a
     FlowStarted match that carries the call arguments is evaluated when the event arrives:
     it asks for `$0` = 2 while the event says `$0` = 1. *)
  Definition call5 : list (arg xe) := [APos (XVar "g")].
  Definition ops5 : list (op xe) :=
    [OGlobal xe 0 "g"; OAssign xe 0 "g" (XLit (VInt 1));
     OStart xe 0 1 gs [] R1 false (parse_args xe call5 0 []);
     OGlobal xe 1 "g"; OAssign xe 1 "g" (XLit (VInt 2))].

  Example await_hang_witness :
    wf_signature xe gs [] = true /\ syntactic_call xe call5 = true /\ well_formed_call xe gs call5 = true /\
    exists st ec2,
      run xe xeval m_init ops5 = Ok st /\ eval_ctx st 0 = Some ec2 /\
      aget "a" (ctx_of st 1) = Some (VInt 1) /\
      aget "$0" (started_pattern true R1 (eval_args xe xeval ec2 (parse_args xe call5 0 []))) = Some (VInt 2) /\
      aget "$0" (started_args (r_instance_uid R1) (r_flow_id R1) (m_args st 1)) = Some (VInt 1).
  Proof.
    split; [reflexivity|]. split; [reflexivity|]. split; [reflexivity|].
    eexists. eexists. split; [vm_compute; reflexivity|]. split; [vm_compute; reflexivity|].
    repeat split; reflexivity.
  Qed.
  (* regression documentation: the `or`-chain "simplification" of the re-activation test
         val = event.arguments.get(name) or event.arguments.get(f"${idx}")
         if val is None and default is not None: val = default
         mismatch if val is None or val != activated.arguments[name]
     treats a falsy NAMED argument as absent: `activate watch $level=0` after `activate watch`
     (default 1) is identified with the level = 1 instance although the call binds level = 0 *)
  Definition truthy (v : value) : bool :=
    match v with
    | VNone => false
    | VBool b => b
    | VInt z => negb (Z.eqb z 0)
    | VFloat q => negb (Z.eqb q 0)
    | VStr s => negb (String.eqb s "")
    | VList l | VSet l => match l with [] => false | _ => true end
    | VDict l => match l with [] => false | _ => true end
    | _ => true
    end.
  Definition xveq (a b : value) : bool :=
    match a, b with VInt x, VInt y => Z.eqb x y | VNone, VNone => true | _, _ => false end.
  Definition or_chain_matched (ev : ctx) (val : value) (idx : nat) (p : param xe) : bool :=
    let v1 := if truthy (getN (p_name p) ev) then getN (p_name p) ev else getN (pos_key idx) ev in
    let v2 := match v1, p_default p with VNone, Some e => xeval [] e | _, _ => v1 end in
    match v2 with VNone => false | _ => xveq v2 val end.
  Definition watch : list (param xe) := [mkParam "level" (Some (XLit (VInt 1)))].
  Definition ev_level0 : ctx := [("level", VInt 0); ("flow_id", VStr "watch"); ("activated", VBool true)].

  Example or_chain_variant_refuted :
    or_chain_matched ev_level0 (VInt 1) 0 (mkParam "level" (Some (XLit (VInt 1)))) = true /\
    params_match xe xeval xveq watch 0 ev_level0 [("level", VInt 1)] = Some false /\
    ev_value xe xeval ev_level0 0 (mkParam "level" (Some (XLit (VInt 1)))) = VInt 0 /\
    ev_value xe xeval [("flow_id", VStr "watch")] 0 (mkParam "level" (Some (XLit (VInt 1)))) = VInt 1.
  Proof. repeat split; reflexivity. Qed.
End Examples.
