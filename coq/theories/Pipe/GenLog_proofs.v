(* Pipe/GenLog_proofs.v - lemmas about the fold of compute_generation_log (Pipe/GenLog.v):
   how the cursor state moves over the segments a turn produces. *)
From Coq Require Import String List Bool Arith.
From NG Require Import Gen.C16Consts Pipe.GenLog.
Import ListNotations.
Open Scope string_scope.

Lemma g_run_app : forall a b st,
  g_run (a ++ b) st = match g_run a st with Some st' => g_run b st' | None => None end.
Proof.
  induction a as [|e a IH]; intros b st; simpl; [reflexivity|].
  destruct (g_entry e st); [apply IH|reflexivity].
Qed.

(* (type, name, stop) of a rail: what C16 states about the log *)
Definition sig (r : arail) : string * string * bool := (ar_type r, ar_name r, ar_stop r).

Definition same_sig (r r' : arail) : Prop := sig r = sig r'.

(* the rail is not touched by the `generate user intent` re-typing rule *)
Definition not_gui (r : arail) : Prop := String.eqb (ar_name r) retype_name = false.

Lemma add_decision_sig : forall d r, sig (add_decision d r) = sig r.
Proof. reflexivity. Qed.

Lemma add_item_sig : forall r it, sig (add_item r it) = sig r.
Proof. intros r [a|i|]; unfold add_item; [destruct (mem a ignored_actions)|..]; reflexivity. Qed.

Lemma add_items_sig : forall items r, sig (add_items items r) = sig r.
Proof.
  unfold add_items. induction items as [|it items IH]; intros r; simpl; [reflexivity|].
  rewrite IH. apply add_item_sig.
Qed.

Lemma add_action_sig : forall a r, sig (add_action a r) = sig r.
Proof. reflexivity. Qed.

Lemma sig_name : forall r r', sig r = sig r' -> ar_name r = ar_name r'.
Proof. unfold sig. intros r r' H. inversion H. reflexivity. Qed.
Lemma sig_type : forall r r', sig r = sig r' -> ar_type r = ar_type r'.
Proof. unfold sig. intros r r' H. inversion H. reflexivity. Qed.
Lemma sig_stop : forall r r', sig r = sig r' -> ar_stop r = ar_stop r'.
Proof. unfold sig. intros r r' H. inversion H. reflexivity. Qed.

(* the head rail does not make a step of `flow` open a new rail *)
Definition stays (r : arail) (flow : string) : Prop :=
  String.eqb (ar_type r) "dialog" && negb (String.eqb (ar_name r) flow) = false.

Lemma stays_non_dialog : forall r flow, String.eqb (ar_type r) "dialog" = false -> stays r flow.
Proof. unfold stays. intros r flow H. rewrite H. reflexivity. Qed.

Lemma stays_sig : forall r r' flow, sig r = sig r' -> stays r flow -> stays r' flow.
Proof.
  unfold stays. intros r r' flow H S.
  rewrite <- (sig_type _ _ H), <- (sig_name _ _ H). exact S.
Qed.

(* a step on the current rail *)
Lemma g_step_stays : forall flow items r rest act,
  stays r flow ->
  g_step flow items (mkG (r :: rest) true act) = Some (mkG (add_items items r :: rest) true act).
Proof.
  intros flow items r rest act S. unfold g_step. simpl. unfold stays in S. rewrite S. reflexivity.
Qed.

(* a step of an ignored flow never opens a rail; with only ignored actions it changes nothing *)
Lemma g_step_ce : forall flow st,
  mem flow ignored_flows = true ->
  (g_active st = true -> g_rails st <> []) ->
  g_step flow [SAct "create_event"] st = Some st.
Proof.
  intros flow [rails active act] Hig Hwf. unfold g_step. simpl in *.
  destruct active.
  - destruct rails as [|r rest]; [exfalso; apply Hwf; reflexivity|].
    destruct (String.eqb (ar_type r) "dialog" && negb (String.eqb (ar_name r) flow)).
    + rewrite Hig. reflexivity.
    + unfold on_head. simpl. destruct r; reflexivity.
  - rewrite Hig. reflexivity.
Qed.

Definition plain_event (ty : string) : Prop :=
  String.eqb ty ev_start_input_rail = false /\ String.eqb ty ev_start_output_rail = false /\
  String.eqb ty "StartInternalSystemAction" = false /\ String.eqb ty "InternalSystemActionFinished" = false /\
  mem ty ev_rail_finished = false.

Lemma g_event_plain : forall ty arg st, plain_event ty -> g_event ty arg st = Some st.
Proof.
  intros ty arg st (H1 & H2 & H3 & H4 & H5). unfold g_event. rewrite H1, H2, H3, H4, H5. reflexivity.
Qed.

Definition ce_seg (flow ty arg : string) : list pentry :=
  [PStep flow [SAct "create_event"];
   PEvent "StartInternalSystemAction" "create_event";
   PEvent "InternalSystemActionFinished" "create_event";
   PEvent ty arg].

Lemma g_run_ce : forall flow ty arg st,
  mem flow ignored_flows = true ->
  (g_active st = true -> g_rails st <> []) ->
  g_run (ce_seg flow ty arg) st = g_event ty arg st.
Proof.
  intros flow ty arg st Hig Hwf. unfold ce_seg. simpl.
  rewrite (g_step_ce flow st Hig Hwf). simpl.
  destruct (g_event ty arg st); reflexivity.
Qed.

Lemma g_event_start_action : forall a st,
  g_event "StartInternalSystemAction" a st =
  if mem a ignored_actions then Some st
  else if g_active st then Some (mkG (upd_nth 0 (add_action a) (g_rails st)) true (Some 0)) else None.
Proof. reflexivity. Qed.

Lemma g_event_action_finished : forall a st,
  g_event "InternalSystemActionFinished" a st =
  if mem a ignored_actions then Some st
  else match g_action st with Some _ => Some (mkG (g_rails st) (g_active st) None) | None => None end.
Proof. reflexivity. Qed.

(* an action executed by the current rail (no LLM call) *)
Lemma g_run_action_stays : forall flow action r rest,
  stays r flow ->
  exists r', g_run [PStep flow [SAct action]; PEvent "StartInternalSystemAction" action;
                    PEvent "InternalSystemActionFinished" action] (mkG (r :: rest) true None)
             = Some (mkG (r' :: rest) true None) /\ sig r' = sig r.
Proof.
  intros flow action r rest S.
  cbn [g_run g_entry].
  rewrite (g_step_stays flow [SAct action] r rest None S).
  rewrite g_event_start_action.
  destruct (mem action ignored_actions) eqn:Hig.
  - rewrite g_event_action_finished, Hig.
    eexists. split; [reflexivity|]. apply add_items_sig.
  - cbn [g_active g_rails upd_nth]. rewrite g_event_action_finished, Hig. cbn [g_action g_rails g_active].
    eexists. split; [reflexivity|].
    rewrite add_action_sig. apply add_items_sig.
Qed.
