(* C12 (Colang 2.x) - model of expansion.expand_elements for a fragment, as far as closedness is
   concerned: if/else, while (break/continue), match or-/and-groups of events, when/or when/else
   whose cases are single events.  Every construct is named by its path in the source tree and
   derives its labels / scope name / fork uids from that path (the real code draws them from
   new_var_uuid(); only their equality pattern matters and that is what the correspondence
   compares, after renaming by first occurrence).  The when-expansion is the REPAIRED one
   (fixes/C12-when-else-*.patch: else group emitted once, EndScope on the else path).
   Not modelled (validated per program by the checker instead): start/await/activate, groups that
   contain flows or actions, when-cases that are groups, elif.  Definitions only. *)
From Coq Require Import List String Ascii Bool Arith.
From NG Require Import V2.ClosedAst V2.Closed.
Import ListNotations.
Open Scope string_scope.
Open Scope list_scope.
Infix "^^" := String.append (at level 60, right associativity).

Inductive stmt :=
| SPlain                                   (* assignment, send of an internal event, log ... *)
| SBlock                                   (* match of one event / send of an action event *)
| SBreak | SContinue | SReturn | SAbort
| SIf (th el : list stmt)                  (* el = [] : no else branch *)
| SWhile (body : list stmt)
| SMatchOr (n : nat)                       (* match E1 or ... or En  (n >= 2) *)
| SMatchAnd (n : nat)                      (* match E1 and ... and En (n >= 2) *)
| SWhen (cases : list (list stmt)) (els : option (list stmt)).

(* i-th child: a prefix-free unary code *)
Fixpoint uname (n : nat) : string :=
  match n with O => "u" | S k => String "x"%char (uname k) end.

Definition cb_t := option (string * string).   (* (continue label, break label) of the enclosing loop *)

Definition group_labels (p : string) (n : nat) : list string := map (fun i => p ^^ "G" ^^ uname i) (seq 0 n).

Definition or_group (p : string) (n : nat) : list elem :=
  let fk := p ^^ "K" in let fail := p ^^ "F" in let en := p ^^ "D" in
  let gs := group_labels p n in
  [ECatch (Some fail); EFork fk gs]
    ++ flat_map (fun g => [ELabel g; EBlock; EGoto en false]) gs
    ++ [ELabel fail; EWait; EMerge fk; ECatch None; EAbort; ELabel en; EMerge fk; ECatch None].

Definition and_group (p : string) (n : nat) : list elem :=
  let fk := p ^^ "K" in let fail := p ^^ "F" in let en := p ^^ "D" in
  let gs := group_labels p n in
  [ECatch (Some fail); EFork fk gs]
    ++ flat_map (fun g => [ELabel g; EBlock; EGoto en false]) gs
    ++ [ELabel fail; EMerge fk; ECatch None; EAbort; ELabel en; EWait; EMerge fk; ECatch None].

(* path of the i-th case of the when statement at p *)
Definition casep (p : string) (i : nat) : string := p ^^ "c" ^^ uname i.
Arguments casep : simpl never.

(* one case of a when statement; `body` already expanded *)
Definition when_case (p : string) (i : nat) (body : list elem) : list elem :=
  let q := casep p i in
  [ELabel (q ^^ "I"); ECatch (Some (q ^^ "F")); EFork (q ^^ "K") [q ^^ "G"];
   ELabel (q ^^ "G"); EBlock; EGoto (q ^^ "C") false;
   ELabel (q ^^ "C"); EMerge (p ^^ "K"); ECatch None; EEnd (p ^^ "S")] ++ body ++
  [EGoto (p ^^ "D") false; ELabel (q ^^ "F"); EWait; ECatch None; EGoto (p ^^ "E") false].

Definition when_tail (p : string) (els : option (list elem)) : list elem :=
  [ELabel (p ^^ "E"); EWait; EEnd (p ^^ "S")] ++
  match els with
  | None => [EAbort]
  | Some el => [EGoto (p ^^ "T") false; ELabel (p ^^ "T")] ++ el
  end ++ [ELabel (p ^^ "D")].

Fixpoint xstmt (cb : cb_t) (p : string) (s : stmt) {struct s} : list elem :=
  let xlist := fix xlist (cb : cb_t) (p : string) (i : nat) (ss : list stmt) {struct ss} : list elem :=
    match ss with
    | [] => []
    | s :: r => xstmt cb (p ^^ uname i) s ++ xlist cb p (S i) r
    end in
  match s with
  | SPlain => [EPlain "Assignment"]
  | SBlock => [EBlock]
  | SBreak => [EBreak (option_map snd cb)]
  | SContinue => [EContinue (option_map fst cb)]
  | SReturn => [EReturn]
  | SAbort => [EAbort]
  | SIf th el =>
      match el with
      | [] => EGoto (p ^^ "D") true :: xlist cb (p ^^ "t") 0 th ++ [ELabel (p ^^ "D")]
      | _ => EGoto (p ^^ "E") true :: xlist cb (p ^^ "t") 0 th
             ++ [EGoto (p ^^ "D") false; ELabel (p ^^ "E")] ++ xlist cb (p ^^ "e") 0 el ++ [ELabel (p ^^ "D")]
      end
  | SWhile body =>
      ELabel (p ^^ "B") :: EGoto (p ^^ "D") true
        :: xlist (Some (p ^^ "B", p ^^ "D")) (p ^^ "b") 0 body ++ [EGoto (p ^^ "B") false; ELabel (p ^^ "D")]
  | SMatchOr n => or_group p n
  | SMatchAnd n => and_group p n
  | SWhen cases els =>
      let xcases := fix xcases (i : nat) (cs : list (list stmt)) {struct cs} : list elem :=
        match cs with
        | [] => []
        | body :: r => when_case p i (xlist cb (casep p i ^^ "b") 0 body) ++ xcases (S i) r
        end in
      EBegin (p ^^ "S")
        :: EFork (p ^^ "K") (map (fun i => casep p i ^^ "I") (seq 0 (List.length cases)))
        :: xcases 0 cases
        ++ when_tail p (match els with None => None | Some el => Some (xlist cb (p ^^ "e") 0 el) end)
  end.

Fixpoint xlist (cb : cb_t) (p : string) (i : nat) (ss : list stmt) : list elem :=
  match ss with
  | [] => []
  | s :: r => xstmt cb (p ^^ uname i) s ++ xlist cb p (S i) r
  end.

Definition xcases (cb : cb_t) (p : string) : nat -> list (list stmt) -> list elem :=
  fix xcases (i : nat) (cs : list (list stmt)) {struct cs} : list elem :=
    match cs with
    | [] => []
    | body :: r => when_case p i (xlist cb (casep p i ^^ "b") 0 body) ++ xcases (S i) r
    end.

(* well-formed source: break / continue only inside a loop *)
Fixpoint wf_loops (inl : bool) (s : stmt) {struct s} : bool :=
  let wl := fix wl (inl : bool) (ss : list stmt) {struct ss} : bool :=
    match ss with [] => true | s :: r => wf_loops inl s && wl inl r end in
  match s with
  | SBreak | SContinue => inl
  | SIf th el => wl inl th && wl inl el
  | SWhile b => wl true b
  | SWhen cases els =>
      (fix wc (cs : list (list stmt)) : bool :=
         match cs with [] => true | c :: r => wl inl c && wc r end) cases
      && match els with None => true | Some el => wl inl el end
  | _ => true
  end.

Fixpoint wf_list (inl : bool) (ss : list stmt) : bool :=
  match ss with [] => true | s :: r => wf_loops inl s && wf_list inl r end.

Definition wf_cases (inl : bool) : list (list stmt) -> bool :=
  fix wc (cs : list (list stmt)) : bool :=
    match cs with [] => true | c :: r => wf_list inl c && wc r end.

(* a flow body: the flow-start match is a blocking element in front *)
Definition expand (ss : list stmt) : list elem := EBlock :: xlist None "" 0 ss.

(* ---- sanity: closedness of concrete expansions, by the verified checker ---- *)
Example ex_expand_closed_1 :
  closedb (expand [SWhile [SWhen [[SPlain]; [SBreak]] (Some [SContinue; SPlain]); SPlain];
                   SIf [SMatchOr 2] [SMatchAnd 3]; SBlock]) = true.
Proof. vm_compute. reflexivity. Qed.

Example ex_expand_closed_2 :
  closedb (expand [SWhen [[SWhile [SBreak]]] None; SWhen [[SReturn]; [SAbort]] (Some [SWhile [SContinue]])]) = true.
Proof. vm_compute. reflexivity. Qed.
