(* C15 - the verified lookup, for ARBITRARY clients and cache contents (no honesty needed):
   entries stored for other message lists never affect a request.  A request is turned into
   the plain conversion of its messages unless one of its proper prefixes literally IS a
   message list something was stored for - whatever keys those entries have. *)
From Coq Require Import List Bool Arith Lia.
From NG Require Import Svc.HistKey Svc.HistCache Svc.HistCache_proofs.
Import ListNotations.

Section More.
  Variable A : Type.
  Variable A_eq_dec : forall x y : A, {x = y} + {x <> y}.
  Variable K : Type.
  Variable K_eqb : K -> K -> bool.
  Variable keyf : list (msg A) -> K.
  Variable Ev : Type.
  Variable conv : list (msg A) -> list Ev.

  Notation lookup := (lookup A A_eq_dec K K_eqb keyf Ev).
  Notation search := (search A A_eq_dec K K_eqb keyf Ev).
  Notation events_for := (events_for A A_eq_dec K K_eqb keyf Ev conv).
  Notation hit := (hit A A_eq_dec K K_eqb keyf Ev).

  Lemma lookup_verified_none : forall c P,
      (forall e, In e c -> e_msgs _ _ _ e <> P) -> lookup true c P = None.
  Proof.
    intros c P H. unfold HistCache.lookup.
    destruct (find (hit true P) c) as [e|] eqn:Hf; [|reflexivity].
    exfalso. apply find_some in Hf. destruct Hf as [Hin Hhit].
    apply (H e Hin). unfold HistCache.hit in Hhit. apply andb_true_iff in Hhit.
    destruct Hhit as [_ Hm]. simpl in Hm. apply (msgs_eqb_eq A A_eq_dec). exact Hm.
  Qed.

  Lemma search_none : forall c ms n,
      (forall p, 0 < p <= n -> lookup true c (firstn p ms) = None) -> search true c ms n = None.
  Proof.
    intros c ms n. induction n as [|n IH]; intros H; [reflexivity|].
    change (search true c ms (S n)) with
        (match lookup true c (firstn (S n) ms) with Some ev => Some (S n, ev) | None => search true c ms n end).
    rewrite (H (S n)) by lia. apply IH. intros p Hp. apply H. lia.
  Qed.

  Theorem unrelated_entries_ignored : forall (c : cache A K Ev) ms,
      (forall p e, 0 < p < length ms -> In e c -> e_msgs _ _ _ e <> firstn p ms) ->
      events_for true c ms = conv ms.
  Proof.
    intros c ms H. unfold HistCache.events_for.
    rewrite search_none; [reflexivity|].
    intros p Hp. apply lookup_verified_none. intros e He. apply H; [lia | exact He].
  Qed.

  (* a hit returns the events of the newest entry stored for exactly that message list *)
  Theorem verified_hit_is_own : forall (c : cache A K Ev) P ev,
      lookup true c P = Some ev -> exists e, In e c /\ e_msgs _ _ _ e = P /\ e_events _ _ _ e = ev.
  Proof.
    intros c P ev H. unfold HistCache.lookup in H.
    destruct (find (hit true P) c) as [e|] eqn:Hf; [|discriminate].
    apply find_some in Hf. destruct Hf as [Hin Hhit]. exists e. split; [exact Hin|]. split.
    - unfold HistCache.hit in Hhit. apply andb_true_iff in Hhit. destruct Hhit as [_ Hm]. simpl in Hm.
      apply (msgs_eqb_eq A A_eq_dec). exact Hm.
    - simpl in H. congruence.
  Qed.
End More.
