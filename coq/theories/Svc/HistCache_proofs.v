(* C15 - proofs about Svc/HistCache.v: isolation of honest conversations on a shared
   instance when cache hits are exact (verified lookup, or a key function injective on the
   message lists in play). *)
From Coq Require Import List Bool Arith Lia.
From NG Require Import Svc.HistKey Svc.HistCache.
Import ListNotations.

Section Proofs.
  Variable A : Type.
  Variable A_eq_dec : forall x y : A, {x = y} + {x <> y}.
  Variable K : Type.
  Variable K_eqb : K -> K -> bool.
  Hypothesis K_eqb_eq : forall x y, K_eqb x y = true <-> x = y.
  Variable keyf : list (msg A) -> K.
  Variable Ev : Type.
  Variable conv : list (msg A) -> list Ev.
  Variable G : list Ev -> list Ev.
  Variable reply : list Ev -> msg A.
  Variable is_reply : role -> bool.
  Hypothesis reply_is_reply : forall ev, is_reply (m_role (reply ev)) = true.

  Notation message := (msg A).
  Notation entry := (entry A K Ev).
  Notation cache := (cache A K Ev).
  Notation hit := (hit A A_eq_dec K K_eqb keyf Ev).
  Notation lookup := (lookup A A_eq_dec K K_eqb keyf Ev).
  Notation search := (search A A_eq_dec K K_eqb keyf Ev).
  Notation events_for := (events_for A A_eq_dec K K_eqb keyf Ev conv).
  Notation store := (store A K keyf Ev).
  Notation canon := (canon A Ev conv G reply).
  Notation canon_ev := (canon_ev A Ev conv G reply).
  Notation canon_obs := (canon_obs A Ev conv G reply).
  Notation honest_turn := (honest_turn A is_reply).
  Notation honest := (honest A is_reply).
  Notation client_msg := (client_msg A is_reply).
  Notation step := (step A A_eq_dec K K_eqb keyf Ev conv G reply).
  Notation run := (run A A_eq_dec K K_eqb keyf Ev conv G reply).
  Notation alone_from := (alone_from A A_eq_dec K K_eqb keyf Ev conv G reply).
  Notation alone := (alone A A_eq_dec K K_eqb keyf Ev conv G reply).
  Notation shared_trace := (shared_trace A A_eq_dec K K_eqb keyf Ev conv G reply).
  Notation hist_after := (hist_after A Ev conv G reply).
  Notation request := (request A Ev conv G reply).
  Notation in_play := (in_play A Ev conv G reply).
  Notation keyf_injective_on := (keyf_injective_on A K keyf).
  Notation trace_of := (trace_of A Ev).
  Notation turn := (turn A).

  Lemma msgs_eqb_eq : forall x y : list message, msgs_eqb A_eq_dec x y = true <-> x = y.
  Proof.
    intros x y. unfold msgs_eqb. destruct (list_eq_dec (msg_eq_dec A_eq_dec) x y); split; congruence.
  Qed.

  (* ---------- the shape of canonical histories ---------- *)

  (* closed: empty, or ends with a message produced by the service *)
  Definition closed (h : list message) : Prop :=
    h = [] \/ exists h0 r, h = h0 ++ [r] /\ is_reply (m_role r) = true.

  Lemma canon_cons : forall t older,
      canon (t :: older) =
      ((fst (canon older) ++ t) ++ [reply (G (snd (canon older) ++ conv t))],
       (snd (canon older) ++ conv t) ++ G (snd (canon older) ++ conv t)).
  Proof. intros t older. simpl. destruct (canon older) as [h full]. reflexivity. Qed.

  Lemma canon_closed : forall rts, closed (fst (canon rts)).
  Proof.
    intros [|t older].
    - left. reflexivity.
    - right. rewrite canon_cons. simpl. eexists. eexists. split. reflexivity. apply reply_is_reply.
  Qed.

  Lemma canon_nonempty : forall rts, rts <> [] -> fst (canon rts) <> [].
  Proof.
    intros [|t older] Hne. congruence. rewrite canon_cons. simpl.
    intro H. apply app_eq_nil in H. destruct H as [_ H]. discriminate.
  Qed.

  Lemma last_client_not_reply : forall (l : list message) h0 r,
      Forall client_msg l -> l <> [] -> forall pre, pre ++ l = h0 ++ [r] -> is_reply (m_role r) = true -> False.
  Proof.
    intros l h0 r Hcl Hne pre Heq Hr.
    destruct (exists_last Hne) as [l0 [x Hl]]. subst l.
    rewrite app_assoc in Heq. apply app_inj_tail in Heq. destruct Heq as [_ Hx]. subst x.
    rewrite Forall_app in Hcl. destruct Hcl as [_ Hx]. inversion Hx as [|? ? Hc _]; subst.
    unfold HistCache.client_msg in Hc. congruence.
  Qed.

  Lemma boundary_unique : forall h h' t t',
      closed h -> closed h' -> Forall client_msg t -> Forall client_msg t' ->
      h ++ t = h' ++ t' -> h = h' /\ t = t'.
  Proof.
    intros h h' t t' Hc Hc' Ht Ht' Heq.
    destruct (app_eq_app _ _ _ _ Heq) as [l [[H1 H2] | [H1 H2]]].
    - destruct l as [|x l].
      + rewrite app_nil_r in H1. simpl in H2. split; congruence.
      + exfalso. destruct Hc as [Hc | [h0 [r [Hc Hr]]]].
        * subst h. symmetry in H1. apply app_eq_nil in H1. destruct H1 as [_ H1]. discriminate.
        * assert (Hl : Forall client_msg (x :: l)).
          { subst t'. rewrite Forall_app in Ht'. tauto. }
          eapply (last_client_not_reply (x :: l) h0 r Hl); [discriminate | | exact Hr].
          rewrite <- Hc. symmetry. exact H1.
    - destruct l as [|x l].
      + rewrite app_nil_r in H1. simpl in H2. split; congruence.
      + exfalso. destruct Hc' as [Hc' | [h0 [r [Hc' Hr]]]].
        * subst h'. symmetry in H1. apply app_eq_nil in H1. destruct H1 as [_ H1]. discriminate.
        * assert (Hl : Forall client_msg (x :: l)).
          { subst t. rewrite Forall_app in Ht. tauto. }
          eapply (last_client_not_reply (x :: l) h0 r Hl); [discriminate | | exact Hr].
          rewrite <- Hc'. symmetry. exact H1.
  Qed.

  Lemma canon_inj : forall rts rts',
      Forall honest_turn rts -> Forall honest_turn rts' ->
      fst (canon rts) = fst (canon rts') -> rts = rts'.
  Proof.
    induction rts as [|t older IH]; intros rts' Hh Hh' Heq.
    - destruct rts' as [|t' older']; [reflexivity|].
      exfalso. symmetry in Heq. revert Heq. apply canon_nonempty. discriminate.
    - destruct rts' as [|t' older'].
      + exfalso. revert Heq. apply canon_nonempty. discriminate.
      + rewrite !canon_cons in Heq. simpl in Heq.
        apply app_inj_tail in Heq. destruct Heq as [Heq _].
        inversion Hh as [|? ? [_ Ht] Hho]; subst. inversion Hh' as [|? ? [_ Ht'] Hho']; subst.
        destruct (boundary_unique _ _ _ _ (canon_closed older) (canon_closed older') Ht Ht' Heq) as [E1 E2].
        subst t'. f_equal. apply IH; assumption.
  Qed.

  (* ---------- caches that only hold canonical entries ---------- *)

  Definition canon_cache (c : cache) : Prop :=
    forall e, In e c ->
      exists rts, rts <> [] /\ Forall honest_turn rts /\
                  e_key _ _ _ e = keyf (fst (canon rts)) /\
                  e_msgs _ _ _ e = fst (canon rts) /\
                  e_events _ _ _ e = snd (canon rts).

  (* every hit while serving `ms` is an entry stored for exactly the looked-up prefix *)
  Definition exact (verify : bool) (c : cache) (ms : list message) : Prop :=
    forall e p, In e c -> 0 < p < length ms ->
                hit verify (firstn p ms) e = true -> e_msgs _ _ _ e = firstn p ms.

  Lemma exact_verify : forall c ms, exact true c ms.
  Proof.
    intros c ms e p _ _ Hhit. unfold HistCache.hit in Hhit.
    apply andb_true_iff in Hhit. destruct Hhit as [_ H]. simpl in H. apply msgs_eqb_eq. exact H.
  Qed.

  Lemma find_exists : forall (X : Type) (f : X -> bool) (l : list X) x,
      In x l -> f x = true -> exists y, find f l = Some y.
  Proof.
    intros X f l x Hin Hf. induction l as [|a l IH]; [contradiction|].
    simpl. destruct (f a) eqn:Ha. eexists; reflexivity.
    destruct Hin as [->|Hin]. congruence. auto.
  Qed.

  Lemma search_S : forall verify c ms p',
      search verify c ms (S p') =
      match lookup verify c (firstn (S p') ms) with
      | Some ev => Some (S p', ev)
      | None => search verify c ms p'
      end.
  Proof. reflexivity. Qed.

  Lemma search_skip : forall verify c ms lo n,
      (forall p, lo < p <= n -> lookup verify c (firstn p ms) = None) ->
      lo <= n -> search verify c ms n = search verify c ms lo.
  Proof.
    intros verify c ms lo n. induction n as [|n IH]; intros Hmiss Hle.
    - assert (lo = 0) by lia. subst. reflexivity.
    - destruct (Nat.eq_dec lo (S n)) as [->|Hne]; [reflexivity|].
      rewrite search_S. rewrite (Hmiss (S n)) by lia. apply IH; [|lia].
      intros p Hp. apply Hmiss. lia.
  Qed.

  Lemma firstn_app_ge : forall (X : Type) (h t : list X) p,
      length h <= p -> firstn p (h ++ t) = h ++ firstn (p - length h) t.
  Proof. intros X h t p Hle. rewrite firstn_app. rewrite firstn_all2 by exact Hle. reflexivity. Qed.

  Lemma firstn_sub : forall (X : Type) (P : X -> Prop) (l : list X) k, Forall P l -> Forall P (firstn k l).
  Proof.
    intros X P l k H. revert k. induction H as [|x l Hx Hl IH]; intros [|k]; simpl; auto.
  Qed.

  Lemma firstn_nonempty : forall (X : Type) (l : list X) k, 0 < k -> l <> [] -> firstn k l <> [].
  Proof. intros X [|x l] [|k] Hk Hl; simpl; try lia; congruence. Qed.

  (* the request of an honest turn after an honest history is turned into the canonical
     events, whatever else the cache contains, as long as hits are exact *)
  Lemma events_for_canon : forall verify c older t,
      canon_cache c -> Forall honest_turn older -> honest_turn t ->
      exact verify c (fst (canon older) ++ t) ->
      (older <> [] -> exists e, In e c /\ e_msgs _ _ _ e = fst (canon older)
                                /\ e_key _ _ _ e = keyf (fst (canon older))) ->
      events_for verify c (fst (canon older) ++ t) = snd (canon older) ++ conv t.
  Proof.
    intros verify c older t Hcc Hold [Htne Htcl] Hex Hpresent.
    set (h := fst (canon older)) in *. set (ms := h ++ t).
    change (exact verify c ms) in Hex. unfold exact in Hex.
    assert (Hlen : length ms = length h + length t) by (unfold ms; apply app_length).
    assert (Htlen : 0 < length t) by (destruct t; simpl; [congruence|lia]).
    (* all prefixes that cut into the turn miss *)
    assert (Hmiss : forall p, length h < p <= length ms - 1 -> lookup verify c (firstn p ms) = None).
    { intros p Hp. unfold HistCache.lookup.
      destruct (find (hit verify (firstn p ms)) c) as [e|] eqn:Hf; [|reflexivity].
      exfalso. apply find_some in Hf. destruct Hf as [Hin Hhit].
      assert (Hm : e_msgs _ _ _ e = firstn p ms) by (apply Hex; [exact Hin | lia | exact Hhit]).
      destruct (Hcc e Hin) as [rts [Hne [_ [_ [Hmsgs _]]]]].
      destruct (canon_closed rts) as [Hnil | [h0 [r [Hh0 Hr]]]].
      - revert Hnil. apply canon_nonempty. exact Hne.
      - unfold ms in Hm. rewrite firstn_app_ge in Hm by lia.
        eapply (last_client_not_reply (firstn (p - length h) t) h0 r).
        + apply firstn_sub. exact Htcl.
        + apply firstn_nonempty. lia. exact Htne.
        + rewrite <- Hh0, <- Hmsgs. symmetry. exact Hm.
        + exact Hr. }
    unfold HistCache.events_for. fold ms.
    rewrite (search_skip verify c ms (length h) (length ms - 1) Hmiss) by lia.
    destruct older as [|t0 older0].
    - (* first turn: nothing to find *)
      simpl in h. subst h. simpl. reflexivity.
    - assert (Hhne : h <> []) by (apply canon_nonempty; discriminate).
      destruct (length h) as [|n] eqn:Hn; [destruct h; simpl in Hn; [congruence|lia]|].
      rewrite search_S. rewrite <- Hn.
      assert (Hfirst : firstn (length h) ms = h).
      { unfold ms. rewrite firstn_app_ge by lia. rewrite Nat.sub_diag. simpl. apply app_nil_r. }
      rewrite Hfirst.
      destruct (Hpresent ltac:(discriminate)) as [e0 [Hin0 [Hm0 Hk0]]].
      assert (Hhit0 : hit verify h e0 = true).
      { unfold HistCache.hit. apply andb_true_iff. split.
        - apply K_eqb_eq. exact Hk0.
        - apply orb_true_iff. right. apply msgs_eqb_eq. exact Hm0. }
      destruct (find_exists _ _ _ _ Hin0 Hhit0) as [e' Hf].
      unfold HistCache.lookup. rewrite Hf. simpl.
      apply find_some in Hf. destruct Hf as [Hin' Hhit'].
      assert (Hm' : e_msgs _ _ _ e' = h).
      { rewrite <- Hfirst. apply Hex. exact Hin'. lia. rewrite Hfirst. exact Hhit'. }
      destruct (Hcc e' Hin') as [rts [_ [Hh [_ [Hmsgs Hev]]]]].
      assert (rts = t0 :: older0).
      { apply canon_inj. exact Hh. exact Hold. rewrite <- Hmsgs. exact Hm'. }
      subst rts. rewrite Hev. f_equal. f_equal.
      unfold ms. rewrite skipn_app. rewrite skipn_all. rewrite Nat.sub_diag. reflexivity.
  Qed.

  (* ---------- the shared run ---------- *)

  Section Run.
    Variable verify : bool.
    Variable convs : nat -> list turn.
    Hypothesis Hhonest : honest convs.
    Hypothesis Hexact : verify = true \/ keyf_injective_on (in_play convs).

    Notation st_cache := (st_cache A K Ev).
    Notation st_conv := (st_conv A K Ev).

    Definition Inv (st : state A K Ev) : Prop :=
      canon_cache (st_cache st) /\
      (forall e, In e (st_cache st) -> in_play convs (e_msgs _ _ _ e)) /\
      (forall c, let cs := st_conv st c in
                 cs_done A cs <= length (convs c) /\
                 cs_hist A cs = hist_after convs c (cs_done A cs) /\
                 (0 < cs_done A cs ->
                  exists e, In e (st_cache st) /\ e_msgs _ _ _ e = cs_hist A cs
                            /\ e_key _ _ _ e = keyf (cs_hist A cs))).

    Lemma Inv_init : Inv (init A K Ev).
    Proof.
      split; [|split].
      - intros e [].
      - intros e [].
      - intros c. simpl. split; [lia|]. split; [reflexivity|]. intros H; lia.
    Qed.

    Lemma honest_firstn : forall c n, Forall honest_turn (rev (firstn n (convs c))).
    Proof.
      intros c n. apply Forall_rev. apply firstn_sub. apply Hhonest.
    Qed.

    Lemma firstn_S_nth : forall (X : Type) (l : list X) n x,
        nth_error l n = Some x -> firstn (S n) l = firstn n l ++ [x].
    Proof.
      intros X l. induction l as [|a l IH]; intros [|n] x H; simpl in *; try discriminate.
      - inversion H. reflexivity.
      - f_equal. apply IH. exact H.
    Qed.

    Lemma exact_request : forall st c n,
        Inv st -> n < length (convs c) -> exact verify (st_cache st) (request convs c n).
    Proof.
      intros st c n [Hcc [Hplay _]] Hn. destruct Hexact as [-> | Hinj].
      - apply exact_verify.
      - intros e p Hin Hp Hhit. unfold HistCache.hit in Hhit.
        apply andb_true_iff in Hhit. destruct Hhit as [Hk _]. apply K_eqb_eq in Hk.
        apply Hinj.
        + apply Hplay. exact Hin.
        + right. exists c, n, p. auto.
        + destruct (Hcc e Hin) as [rts [_ [_ [Hkey [Hmsgs _]]]]]. rewrite <- Hk, Hkey, Hmsgs. reflexivity.
    Qed.

    Lemma step_canon : forall st c t,
        Inv st ->
        nth_error (convs c) (cs_done A (st_conv st c)) = Some t ->
        exists st',
          step verify convs st c
          = (st', Some (canon_obs (rev (firstn (S (cs_done A (st_conv st c))) (convs c)))))
          /\ Inv st'
          /\ cs_done A (st_conv st' c) = S (cs_done A (st_conv st c))
          /\ (forall c', c' <> c -> st_conv st' c' = st_conv st c').
    Proof.
      intros st c t HInv Hnth.
      pose proof HInv as [Hcc [Hplay Hconv]].
      destruct (Hconv c) as [Hle [Hhist Hpres]].
      set (n := cs_done A (st_conv st c)) in *.
      assert (Hn : n < length (convs c)) by (apply nth_error_Some; congruence).
      set (older := rev (firstn n (convs c))).
      assert (Hrev : rev (firstn (S n) (convs c)) = t :: older).
      { rewrite (firstn_S_nth _ _ _ _ Hnth). rewrite rev_app_distr. reflexivity. }
      assert (Ht : honest_turn t).
      { pose proof (Hhonest c) as Hall. rewrite Forall_forall in Hall. apply Hall.
        eapply nth_error_In. exact Hnth. }
      assert (Hreq : request convs c n = fst (canon older) ++ t).
      { unfold HistCache.request, HistCache.hist_after. fold older. f_equal.
        apply nth_error_nth. exact Hnth. }
      assert (Hev : events_for verify (st_cache st) (cs_hist A (st_conv st c) ++ t)
                    = snd (canon older) ++ conv t).
      { rewrite Hhist. unfold HistCache.hist_after. fold older.
        apply events_for_canon.
        - exact Hcc.
        - apply honest_firstn.
        - exact Ht.
        - rewrite <- Hreq. apply exact_request; assumption.
        - intros Hne. destruct Hpres as [e He].
          + destruct (Nat.eq_dec n 0) as [Hz|Hz]; [|lia].
            exfalso. apply Hne. unfold older. rewrite Hz. reflexivity.
          + exists e. rewrite Hhist in He. exact He. }
      eexists. split; [|split; [|split]].
      - unfold HistCache.step. fold n. rewrite Hnth. cbv zeta. rewrite Hev. rewrite Hrev.
        unfold HistCache.canon_obs, HistCache.canon_ev. reflexivity.
      - (* invariant *)
        assert (Hcanon : canon (t :: older) =
                         ((cs_hist A (st_conv st c) ++ t) ++ [reply (G (snd (canon older) ++ conv t))],
                          (snd (canon older) ++ conv t) ++ G (snd (canon older) ++ conv t))).
        { rewrite canon_cons. rewrite Hhist. reflexivity. }
        split; [|split].
        + intros e [He | He].
          * exists (t :: older). split; [discriminate|]. split.
            { constructor. exact Ht. apply honest_firstn. }
            subst e. rewrite Hcanon. simpl. auto.
          * apply Hcc. exact He.
        + intros e [He | He].
          * subst e. left. exists c, (S n). split; [lia|].
            unfold HistCache.hist_after. rewrite Hrev. rewrite Hcanon. reflexivity.
          * apply Hplay. exact He.
        + intros c'. simpl. unfold HistCache.upd. destruct (Nat.eqb c' c) eqn:Hc.
          * apply Nat.eqb_eq in Hc. subst c'. simpl. split; [lia|]. split.
            { unfold HistCache.hist_after. rewrite Hrev. rewrite Hcanon. reflexivity. }
            intros _. eexists. split. left. reflexivity. simpl. auto.
          * destruct (Hconv c') as [Hle' [Hhist' Hpres']]. split; [exact Hle'|]. split; [exact Hhist'|].
            intros Hpos. destruct (Hpres' Hpos) as [e [He1 He2]]. exists e. split; [right; exact He1 | exact He2].
      - simpl. unfold HistCache.upd. rewrite Nat.eqb_refl. reflexivity.
      - intros c' Hne. simpl. unfold HistCache.upd. apply Nat.eqb_neq in Hne. rewrite Hne. reflexivity.
    Qed.

    Definition canon_trace (ts : list turn) : list (obs A Ev) :=
      map (fun k => canon_obs (rev (firstn (S k) ts))) (seq 0 (length ts)).

    Definition count (c : nat) (sched : list nat) : nat := length (filter (Nat.eqb c) sched).

    Lemma skipn_seq : forall len s n,
        n < len -> skipn n (seq s len) = (s + n) :: skipn (S n) (seq s len).
    Proof.
      induction len as [|len IH]; intros s n Hn; [lia|].
      destruct n as [|n].
      - simpl. f_equal. lia.
      - change (skipn (S n) (seq s (S len))) with (skipn n (seq (S s) len)).
        rewrite IH by lia.
        change (skipn (S (S n)) (seq s (S len))) with (skipn (S n) (seq (S s) len)).
        f_equal. lia.
    Qed.

    Lemma skipn_map : forall (X Y : Type) (f : X -> Y) l k, skipn k (map f l) = map f (skipn k l).
    Proof. intros X Y f l. induction l as [|a l IH]; intros [|k]; simpl; auto. Qed.

    Lemma skipn_canon_trace : forall ts n,
        n < length ts ->
        skipn n (canon_trace ts) = canon_obs (rev (firstn (S n) ts)) :: skipn (S n) (canon_trace ts).
    Proof.
      intros ts n Hn. unfold canon_trace. rewrite !skipn_map.
      rewrite (skipn_seq (length ts) 0 n Hn). reflexivity.
    Qed.

    Lemma skipn_canon_trace_end : forall ts n, length ts <= n -> skipn n (canon_trace ts) = [].
    Proof.
      intros ts n Hn. apply skipn_all2. unfold canon_trace. rewrite map_length, seq_length. exact Hn.
    Qed.

    Lemma run_canon : forall sched st c,
        Inv st ->
        trace_of c (snd (run verify convs sched st))
        = firstn (count c sched) (skipn (cs_done A (st_conv st c)) (canon_trace (convs c))).
    Proof.
      induction sched as [|c0 rest IH]; intros st c HInv.
      - reflexivity.
      - simpl. destruct (nth_error (convs c0) (cs_done A (st_conv st c0))) as [t|] eqn:Hnth.
        + destruct (step_canon st c0 t HInv Hnth) as [st' [Hstep [HInv' [Hdone Hother]]]].
          rewrite Hstep. specialize (IH st' c HInv').
          destruct (run verify convs rest st') as [st2 log] eqn:Hrun. simpl in IH. simpl.
          unfold count. simpl. destruct (Nat.eqb c c0) eqn:Hc.
          * apply Nat.eqb_eq in Hc. subst c0. unfold HistCache.trace_of. simpl.
            rewrite Nat.eqb_refl. simpl. unfold HistCache.trace_of in IH. rewrite IH.
            rewrite Hdone. fold (count c rest).
            rewrite (skipn_canon_trace (convs c) (cs_done A (st_conv st c))).
            reflexivity. apply nth_error_Some. congruence.
          * unfold HistCache.trace_of. simpl. rewrite Nat.eqb_sym in Hc. rewrite Hc.
            unfold HistCache.trace_of in IH. rewrite IH. rewrite Hother. reflexivity.
            apply Nat.eqb_neq. rewrite Nat.eqb_sym. exact Hc.
        + assert (Hstep : step verify convs st c0 = (st, None)).
          { unfold HistCache.step. rewrite Hnth. reflexivity. }
          rewrite Hstep. specialize (IH st c HInv).
          destruct (run verify convs rest st) as [st2 log] eqn:Hrun. simpl in IH. simpl.
          rewrite IH. unfold count. simpl. destruct (Nat.eqb c c0) eqn:Hc; [|reflexivity].
          apply Nat.eqb_eq in Hc. subst c0.
          apply nth_error_None in Hnth. rewrite skipn_canon_trace_end by exact Hnth.
          rewrite !firstn_nil. reflexivity.
    Qed.

    Lemma shared_trace_canon : forall sched c,
        shared_trace verify convs sched c = firstn (count c sched) (canon_trace (convs c)).
    Proof.
      intros sched c. unfold HistCache.shared_trace. rewrite run_canon by apply Inv_init. reflexivity.
    Qed.
  End Run.

  (* ---------- alone = the same machine serving only that conversation ---------- *)

  Lemma alone_as_run : forall verify ts k st,
      trace_of 0 (snd (run verify (fun _ => ts) (repeat 0 k) st))
      = firstn k (alone_from verify (st_cache A K Ev st) (cs_hist A (st_conv A K Ev st 0))
                             (skipn (cs_done A (st_conv A K Ev st 0)) ts)).
  Proof.
    intros verify ts k. induction k as [|k IH]; intros st.
    - reflexivity.
    - simpl. unfold HistCache.step.
      destruct (nth_error ts (cs_done A (st_conv A K Ev st 0))) as [t|] eqn:Hnth.
      + cbv zeta.
        match goal with |- context [run verify _ (repeat 0 k) ?s] => specialize (IH s); destruct (run verify (fun _ => ts) (repeat 0 k) s) as [st2 log] eqn:Hrun end.
        simpl in IH. simpl. unfold HistCache.trace_of. simpl. unfold HistCache.trace_of in IH. rewrite IH.
        unfold HistCache.upd. simpl.
        assert (Hs : skipn (cs_done A (st_conv A K Ev st 0)) ts = t :: skipn (S (cs_done A (st_conv A K Ev st 0))) ts).
        { clear -Hnth. revert Hnth. generalize (cs_done A (st_conv A K Ev st 0)) as n. clear.
          intros n. revert ts. induction n as [|n IHn]; intros [|a ts] H; simpl in *; try discriminate.
          - inversion H. reflexivity.
          - apply IHn. exact H. }
        rewrite Hs. simpl. reflexivity.
      + specialize (IH st). destruct (run verify (fun _ => ts) (repeat 0 k) st) as [st2 log] eqn:Hrun.
        simpl in IH. simpl. rewrite IH.
        apply nth_error_None in Hnth. rewrite skipn_all2 by exact Hnth. simpl. rewrite !firstn_nil. reflexivity.
  Qed.

  Lemma alone_from_length : forall verify ts c h, length (alone_from verify c h ts) = length ts.
  Proof. intros verify ts. induction ts as [|t ts IH]; intros c h; simpl; [reflexivity|]. rewrite IH. reflexivity. Qed.

  Lemma count_repeat : forall k, count 0 (repeat 0 k) = k.
  Proof.
    induction k as [|k IH]; [reflexivity|].
    change (count 0 (repeat 0 (S k))) with (S (count 0 (repeat 0 k))). rewrite IH. reflexivity.
  Qed.

  Lemma in_play_single : forall convs c P, in_play (fun _ => convs c) P -> in_play convs P.
  Proof.
    intros convs c P [[c0 [n [Hn HP]]] | [c0 [n [p [Hn [Hp HP]]]]]].
    - left. exists c, n. auto.
    - right. exists c, n, p. auto.
  Qed.

  Theorem alone_canon : forall verify ts,
      Forall honest_turn ts ->
      (verify = true \/ keyf_injective_on (in_play (fun _ => ts))) ->
      alone verify ts = canon_trace ts.
  Proof.
    intros verify ts Hh Hex.
    pose proof (alone_as_run verify ts (length ts) (init A K Ev)) as H. simpl in H.
    rewrite firstn_all2 in H by (rewrite alone_from_length; lia).
    unfold HistCache.alone. rewrite <- H.
    pose proof (shared_trace_canon verify (fun _ => ts) (fun _ => Hh) Hex (repeat 0 (length ts)) 0) as H2.
    unfold HistCache.shared_trace in H2. rewrite H2. rewrite count_repeat.
    apply firstn_all2. unfold canon_trace. rewrite map_length, seq_length. lia.
  Qed.

  (* Main theorem: on a shared instance every honest conversation sees, turn by turn, exactly
     the events and replies it would see alone on a fresh instance - for every schedule. *)
  Theorem isolation : forall verify convs,
      honest convs ->
      (verify = true \/ keyf_injective_on (in_play convs)) ->
      forall sched c,
        shared_trace verify convs sched c = firstn (count c sched) (alone verify (convs c)).
  Proof.
    intros verify convs Hh Hex sched c.
    rewrite (shared_trace_canon verify convs Hh Hex).
    rewrite alone_canon; [reflexivity | apply Hh |].
    destruct Hex as [Hv | Hinj]; [left; exact Hv | right].
    intros x y Hx Hy. apply Hinj; eapply in_play_single; eassumption.
  Qed.
End Proofs.
