(* C16 - Generation options run exactly the selected rail categories (Colang 1.0).
   Property theorems only; every proof is `exact <lemma>`; Print Assumptions beneath each.
   Models: Pipe/Options.v (options.py, generate_async injection, llm_flows.co guards),
   Pipe/GenLog.v (compute_generation_log); constants of processing_log.py / options.py are the
   ones READ FROM THE CURRENT SOURCE (Gen/C16Consts.v). *)
From Coq Require Import String List Bool.
From NG Require Import Gen.C16Consts Pipe.GenLog Pipe.GenLog_proofs Pipe.Options Pipe.Options_proofs
                       Pipe.OptionsLog_proofs.
Import ListNotations.
Open Scope string_scope.
Open Scope list_scope.

(* (T) the option tables of options.py: no `rails` key = all four categories; the list form
   enables exactly the listed categories *)
Theorem C16_option_forms :
  parse_rails RAbsent = mkO true true true true /\
  parse_rails (RList []) = mkO false false false false /\
  parse_rails (RList ["input"]) = mkO true false false false /\
  parse_rails (RList ["input"; "output"]) = mkO true false false true /\
  parse_rails (RList ["output"]) = mkO false false false true /\
  parse_rails (RList ["input"; "dialog"; "retrieval"; "output"]) = parse_rails RAbsent.
Proof. exact (conj eq_refl (conj eq_refl (conj eq_refl (conj eq_refl (conj eq_refl eq_refl))))). Qed.
Print Assumptions C16_option_forms.

(* disabled categories make no calls; without dialog rails there is no LLM generation.
   For every configuration, verdict function, text, options value - in the table or not. *)
Theorem C16_table_disabled :
  forall iv ov llm_text refusal predefined c o user bot,
    let r := turn iv ov llm_text refusal predefined c (Some o) user bot in
    (o_input o = false -> forall cl, In cl (calls r) -> k_cat cl <> CIn) /\
    (o_output o = false -> forall cl, In cl (calls r) -> k_cat cl <> COut) /\
    (o_retrieval o = false -> forall cl, In cl (calls r) -> k_cat cl <> CRet) /\
    (o_dialog o = false -> llm r = []).
Proof. exact disabled_no_calls. Qed.
Print Assumptions C16_table_disabled.

(* row "input only": no LLM call; the reply is the text the input rails let through
   (`rails_rel`: first rejection blocks, rewrites are threaded) or the refusal *)
Theorem C16_table_input_only :
  forall iv ov llm_text refusal predefined c o user bot,
    o_dialog o = false -> o_output o = false ->
    let r := turn iv ov llm_text refusal predefined c (Some o) user bot in
    llm r = [] /\
    (o_input o = false -> answer r = RText user) /\
    (o_input o = true ->
       exists res, rails_rel iv 0 (c_in c) user res /\
                   answer r = RText (match res with Passed t => t | Blocked _ => refusal end)).
Proof. exact input_only. Qed.
Print Assumptions C16_table_input_only.

(* ... literally: the unchanged user text, a rewritten text, or the refusal *)
Theorem C16_table_input_only_membership :
  forall iv ov llm_text refusal predefined c o user bot,
    o_dialog o = false -> o_output o = false ->
    let r := turn iv ov llm_text refusal predefined c (Some o) user bot in
    answer r = RText user \/ answer r = RText refusal \/
    exists k t0 t', iv k t0 = Rewrite t' /\ answer r = RText t'.
Proof. exact input_only_membership. Qed.
Print Assumptions C16_table_input_only_membership.

Theorem C16_table_input_only_unchanged :
  forall iv ov llm_text refusal predefined c o user bot,
    o_dialog o = false -> o_output o = false -> (forall k t, iv k t = Accept) ->
    answer (turn iv ov llm_text refusal predefined c (Some o) user bot) = RText user.
Proof. exact input_only_all_accept. Qed.
Print Assumptions C16_table_input_only_unchanged.

(* rows "input + output" and "output only" with a supplied bot message b *)
Theorem C16_table_output_check :
  forall iv ov llm_text refusal predefined c o user b,
    o_dialog o = false -> o_output o = true ->
    let r := turn iv ov llm_text refusal predefined c (Some o) user (Some b) in
    llm r = [] /\
    exists res_in,
      (o_input o = true -> rails_rel iv 0 (c_in c) user res_in) /\
      (o_input o = false -> res_in = Passed user) /\
      match res_in with
      | Blocked _ => answer r = RText refusal
      | Passed _ => exists res, rails_rel ov 0 (c_out c) b res /\
                                answer r = RText (match res with Passed t => t | Blocked _ => refusal end)
      end.
Proof. exact output_check. Qed.
Print Assumptions C16_table_output_check.

Theorem C16_table_output_check_membership :
  forall iv ov llm_text refusal predefined c o user b,
    o_dialog o = false -> o_output o = true ->
    let r := turn iv ov llm_text refusal predefined c (Some o) user (Some b) in
    answer r = RText b \/ answer r = RText refusal \/
    exists k t0 t', ov k t0 = Rewrite t' /\ answer r = RText t'.
Proof. exact output_check_membership. Qed.
Print Assumptions C16_table_output_check_membership.

(* the returned log: compute_generation_log never raises on the processing log of a turn, lists
   exactly the rails that ran (`ran`: recorded by the turn machine next to each rail call), in
   order, and `stop` is set on exactly the rail that blocked (the last one), on none otherwise.
   For every option value (also None = no options), configuration with non-colliding flow
   names, verdicts and texts. *)
Theorem C16_log_rails :
  forall iv ov llm_text refusal predefined c g user bot,
    wf_cfg c ->
    let r := turn iv ov llm_text refusal predefined c g user bot in
    exists rails,
      gen_log (plog r) = Some rails /\
      map tn rails = ran r /\
      match blocked r with
      | None => Forall (fun a => ar_stop a = false) rails
      | Some f => exists pre a, rails = pre ++ [a] /\ ar_name a = f /\ ar_stop a = true /\
                                (ar_type a = "input" \/ ar_type a = "output") /\
                                Forall (fun x => ar_stop x = false) pre
      end.
Proof. exact log_of_turn. Qed.
Print Assumptions C16_log_rails.

(* `stop` flags alone, as the property text puts it *)
Theorem C16_log_stop :
  forall iv ov llm_text refusal predefined c g user bot rails,
    wf_cfg c ->
    let r := turn iv ov llm_text refusal predefined c g user bot in
    gen_log (plog r) = Some rails ->
    (blocked r = None -> forall a, In a rails -> ar_stop a = false) /\
    (forall f, blocked r = Some f ->
       exists pre a, rails = pre ++ [a] /\ ar_name a = f /\ ar_stop a = true /\
                     forall x, In x pre -> ar_stop x = false).
Proof. exact log_stop_flags. Qed.
Print Assumptions C16_log_stop.
