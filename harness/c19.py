"""C19 — Embedding search returns each query's own embedding under caching and batching.

Models: coq/theories/Svc/EmbCache.v (cache_embeddings over KeyGenerator/CacheStore) and
Svc/Batch.v (transition system of _batch_get_embeddings/_run_batch composed with the cache
wrapper); theorems: Props/C19.v.
Tie: (T) Gen/C19Consts.v (default max_batch_size / max_batch_hold read from basic.py);
(X-cache) differential of the real decorated BasicEmbeddingsIndex._get_embeddings with a fake
deterministic embedding model over all key generators/stores that work offline against
`wrapper` evaluated inside Coq; (X-batch) trace inclusion: the real
BasicEmbeddingsIndex(use_batching=True) is driven on a private event loop by a schedule
(arrivals, timer expiry, model latency); the asyncio.Event objects, asyncio.sleep/wait and the
fake model are wrapped IN THIS PROCESS to log every atomic step with a snapshot of the index
object's batching attributes; the log is replayed on Svc.Batch inside Coq.
Direct oracle on the implementation = the property text: every request completes and every
returned vector list equals [fake_emb(t) for t in texts] in order.
"""
from __future__ import annotations

import asyncio
import json
import os
import random
import shutil
import signal
import sys
import tempfile
import time

from harness import common as C

PID = "C19"
GEN = ["C19Consts"]

PREAMBLE = """From Coq Require Import List Bool Arith.
From NG Require Import Svc.EmbCache Svc.Batch Svc.EmbRun.
Import ListNotations.
"""

TEXT_POOL = ["", "a", "b", "hello", "hello ", "Hello", "a b", "é", "é", "你好", "\U0001f600",
             "x" * 40, " ", "\n", "0", "None", "a\x00b", "ß", "ss", "SS"]


# ---------------------------------------------------------------------------------------
# fake embedding model: the vector is an injective function of the text


def fake_emb(text):
    return [float(len(text))] + [float(ord(c)) for c in text]


def decode_vec(v):
    """text whose fake embedding v is, or raise ValueError."""
    if not isinstance(v, list) or not v or any(not isinstance(x, float) for x in v):
        raise ValueError(f"not a fake embedding: {v!r}")
    if int(v[0]) != len(v) - 1:
        raise ValueError(f"not a fake embedding: {v!r}")
    return "".join(chr(int(x)) for x in v[1:])


class HangAbort(KeyboardInterrupt):
    """Raised by SIGALRM: a KeyboardInterrupt subclass is re-raised by Task.__step."""


def _alarm(_sig, _frm):
    raise HangAbort()


# ---------------------------------------------------------------------------------------
# verif_len: a key generator that collides on purpose (same length => same key); used only to
# show that the model's refutation under a non-injective generator is what the code does


_KEEP = []


def register_colliding_generator():
    from nemoguardrails.embeddings import cache as ch

    for sub in ch.KeyGenerator.__subclasses__():
        if getattr(sub, "name", None) == "verif_len":
            return sub

    class VerifLenKeyGenerator(ch.KeyGenerator):
        name = "verif_len"

        def generate_key(self, text: str) -> str:
            return "L%d" % len(text)

    _KEEP.append(VerifLenKeyGenerator)   # __subclasses__() only holds weak references
    return VerifLenKeyGenerator


def key_of(gen_name, text):
    from nemoguardrails.embeddings import cache as ch

    return ch.KeyGenerator.from_name(gen_name)().generate_key(text)


# ---------------------------------------------------------------------------------------
# batching: schedule-driven run of the real index with logged atomic steps


class _AsyncioProxy:
    """Stands in for the `asyncio` global of nemoguardrails.embeddings.basic."""

    def __init__(self, director):
        self._d = director
        d = director

        class LogEvent(asyncio.Event):
            async def wait(self_ev):
                if self_ev.is_set():
                    return True
                task = asyncio.current_task()
                r = await asyncio.Event.wait(self_ev)
                d.on_event_resume(task)
                return r

        self.Event = LogEvent

    def __getattr__(self, name):
        return getattr(asyncio, name)

    def ensure_future(self, coro, **kw):
        t = asyncio.ensure_future(coro, **kw)
        self._d.on_spawn(t, coro)
        return t

    def sleep(self, delay, result=None):
        return self._d.on_sleep(delay, result)

    async def wait(self, fs, **kw):
        d = self._d
        task = asyncio.current_task()
        d.on_hold_enter(task)
        r = await asyncio.wait(fs, **kw)
        d.on_hold_exit(task)
        return r


class FakeModel:
    engine_name = "verif_fake"

    def __init__(self, director=None):
        self.d = director
        self.calls = []

    async def encode_async(self, texts):
        self.calls.append(list(texts))
        if self.d is not None:
            await self.d.on_model_call(list(texts))
        return [fake_emb(t) for t in texts]

    def encode(self, texts):
        self.calls.append(list(texts))
        return [fake_emb(t) for t in texts]


class Director:
    """Runs one schedule.  cfg: {max, hold, cache: None | {key_generator, store, dir}}"""

    def __init__(self, cfg, texts, program):
        self.cfg = cfg
        self.texts = texts
        self.program = program
        self.log = []  # entries: {"l": [kind, n], "snap": ..., "call": None|[...], "ret": None|...}
        self.req_tasks = {}  # task -> i
        self.batch_tasks = {}  # task -> k
        self.cur = {}  # task -> current log entry
        self.timers = {}  # k -> future
        self.model_futs = []  # (k, future)
        self.results = {}  # i -> ("ok", vec) | ("exc", repr)
        self.problems = []
        self.arrived = set()
        self.warmup = False

    # -- snapshot of the index attributes (decoded)
    def snap(self):
        ix = self.index
        q = [[k, v] for k, v in ix._req_queue.items()]
        res = []
        for k, v in ix._req_results.items():
            try:
                res.append([k, decode_vec(v)])
            except ValueError:
                res.append([k, None])
        return {"q": q, "res": res, "idx": ix._req_idx,
                "fin_none": ix._current_batch_finished_event is None,
                "sub": bool(ix._current_batch_submitted.is_set())}

    def entry(self, task, kind, n):
        try:
            s = self.snap()
        except Exception as e:  # the attributes do not have the modelled shape any more
            s = {"error": repr(e)}
        e = {"l": [kind, n], "snap": s, "call": None, "ret": None}
        self.log.append(e)
        if task is not None:
            self.cur[task] = e
        return e

    # -- hooks
    def on_event_resume(self, task):
        if task in self.req_tasks:
            self.entry(task, "req", self.req_tasks[task])
        # the helper task awaiting full_event.wait() is not a modelled task

    def on_spawn(self, task, coro):
        self.batch_tasks[task] = len(self.batch_tasks)

    def on_hold_enter(self, task):
        if task in self.batch_tasks:
            self.entry(task, "batch", self.batch_tasks[task])
        else:
            self.problems.append("asyncio.wait called outside a _run_batch task")

    def on_hold_exit(self, task):
        if task in self.batch_tasks:
            self.entry(task, "batch", self.batch_tasks[task])

    def on_sleep(self, delay, result):
        task = asyncio.current_task()
        k = self.batch_tasks.get(task)
        fut = asyncio.get_event_loop().create_future()
        if k is None:
            self.problems.append("asyncio.sleep called outside a _run_batch task")
            fut.set_result(None)
        else:
            self.timers[k] = fut

        async def _w():
            await fut
            return result

        return _w()

    async def on_model_call(self, texts):
        if self.warmup:
            return
        task = asyncio.current_task()
        k = self.batch_tasks.get(task)
        if k is None:
            self.problems.append("model called outside a _run_batch task")
            return
        e = self.cur.get(task)
        if e is not None:
            e["call"] = texts
        fut = asyncio.get_event_loop().create_future()
        self.model_futs.append((k, fut))
        await fut
        self.entry(task, "model", k)

    # -- request task
    async def req(self, i):
        task = asyncio.current_task()
        self.entry(task, "req", i)
        try:
            v = await self.index._batch_get_embeddings(self.texts[i])
            self.results[i] = ("ok", v)
            try:
                ret = decode_vec(v)
            except ValueError:
                ret = None
            e = self.cur.get(task)
            if e is not None:
                e["ret"] = ["some", ret] if ret is not None else ["none"]
        except Exception as ex:  # noqa: BLE001
            self.results[i] = ("exc", repr(ex))

    # -- director actions
    async def flush(self):
        loop = asyncio.get_event_loop()
        for _ in range(10000):
            await asyncio.sleep(0)
            if not loop._ready:
                return
        self.problems.append("no quiescence after 10000 loop iterations")

    def pending_timers(self):
        return sorted(k for k, f in self.timers.items() if not f.done())

    def pending_models(self):
        return [(k, f) for k, f in self.model_futs if not f.done()]

    def fire_timer(self, k):
        self.entry(None, "timer", k)
        self.timers[k].set_result(None)

    def arrive(self, i):
        if i in self.arrived:
            return
        self.arrived.add(i)
        t = asyncio.get_event_loop().create_task(self.req(i))
        self.req_tasks[t] = i

    async def main(self):
        import nemoguardrails.embeddings.basic as basic

        proxy = _AsyncioProxy(self)
        real = basic.asyncio
        basic.asyncio = proxy
        try:
            kw = {}
            if self.cfg.get("cache"):
                c = self.cfg["cache"]
                kw["cache_config"] = {"enabled": True, "key_generator": c["key_generator"], "store": c["store"],
                                      "store_config": ({"cache_dir": c["dir"]} if c["store"] == "filesystem" else {})}
            self.index = basic.BasicEmbeddingsIndex(embedding_model="fake-0", embedding_engine="verif_fake",
                                                    use_batching=True, max_batch_size=self.cfg["max"],
                                                    max_batch_hold=self.cfg.get("hold", 0.01), **kw)
            self.index._model = FakeModel(self)
            n = len(self.texts)
            cdir = (self.cfg.get("cache") or {}).get("dir") if (self.cfg.get("cache") or {}).get("store") == "filesystem" else None
            if self.cfg.get("prefill"):
                self.warmup = True
                await self.index._get_embeddings(list(self.cfg["prefill"]))
                self.warmup = False
            st0 = read_store_dir(cdir) if cdir else None
            for a in self.program:
                if a[0] == "arrive":
                    self.arrive(a[1])
                elif a[0] == "tick":
                    await asyncio.sleep(0)
                elif a[0] == "flush":
                    await self.flush()
                elif a[0] == "shuffle":
                    # another scheduler: permute the callbacks that are ready to run (the model
                    # admits every order of enabled steps; asyncio itself runs them FIFO)
                    loop = asyncio.get_event_loop()
                    items = list(loop._ready)
                    random.Random(a[1]).shuffle(items)
                    loop._ready.clear()
                    loop._ready.extend(items)
                elif a[0] == "timer":
                    p = self.pending_timers()
                    if p:
                        self.fire_timer(p[a[1] % len(p)])
                elif a[0] == "model":
                    p = self.pending_models()
                    if p:
                        p[a[1] % len(p)][1].set_result(None)
            # fair completion: everything that can happen eventually happens
            stuck = False
            for _ in range(20 * n + 50):
                await self.flush()
                if len(self.results) == n:
                    break
                p = self.pending_timers()
                m = self.pending_models()
                if p:
                    self.fire_timer(p[0])
                elif m:
                    m[0][1].set_result(None)
                elif len(self.arrived) < n:
                    self.arrive(min(set(range(n)) - self.arrived))
                else:
                    stuck = True
                    break
            await self.flush()
            final = self.snap()
            fstore_now = read_store_dir(cdir) if cdir else None
            keytab = {}
            if self.cfg.get("cache"):   # after the run: the probe must not disturb the implementation
                self.warmup = True
                keytab = await probe_keys(self.index, list(self.texts) + list(self.cfg.get("prefill") or []),
                                          self.cfg["cache"]["key_generator"])
                self.warmup = False
            bexc = []
            for t in self.batch_tasks:
                if t.done() and not t.cancelled() and t.exception() is not None:
                    bexc.append(repr(t.exception()))
            return {"log": self.log, "final": final, "results": {str(i): list(r) for i, r in self.results.items()},
                    "stuck": stuck or len(self.results) < n, "batch_exc": bexc, "problems": self.problems,
                    "n_batches": len(self.batch_tasks), "st0": st0,
                    "keytab": keytab,
                    "fstore": fstore_now}
        finally:
            basic.asyncio = real


def run_schedule(case, alarm_s=8):
    """case: {cfg, texts, program}.  Returns the observation dict (or {"hang": True})."""
    d = Director(case["cfg"], case["texts"], case["program"])
    loop = asyncio.new_event_loop()
    asyncio.set_event_loop(loop)
    old = signal.signal(signal.SIGALRM, _alarm)
    signal.alarm(alarm_s)
    try:
        return loop.run_until_complete(d.main())
    except HangAbort:
        return {"hang": True, "log": d.log, "problems": d.problems}
    except Exception as e:  # noqa: BLE001
        return {"crash": repr(e), "log": d.log, "problems": d.problems}
    finally:
        signal.alarm(0)
        signal.signal(signal.SIGALRM, old)
        try:
            for t in asyncio.all_tasks(loop):
                t.cancel()
            loop.run_until_complete(asyncio.sleep(0))
        except BaseException:  # noqa: BLE001
            pass
        loop.close()
        asyncio.set_event_loop(None)


def run_realtime(case, alarm_s=12):
    """No wrapping at all: real asyncio.sleep / Event, real (small) latencies."""
    import nemoguardrails.embeddings.basic as basic

    class LatModel(FakeModel):
        async def encode_async(self, texts):
            self.calls.append(list(texts))
            await asyncio.sleep(case["latency"])
            return [fake_emb(t) for t in texts]

    async def main():
        ix = basic.BasicEmbeddingsIndex(use_batching=True, max_batch_size=case["cfg"]["max"],
                                        max_batch_hold=case["cfg"]["hold"])
        ix._model = LatModel()

        async def one(i):
            await asyncio.sleep(case["arrivals"][i])
            return await ix._batch_get_embeddings(case["texts"][i])

        tasks = [asyncio.ensure_future(one(i)) for i in range(len(case["texts"]))]
        done, pending = await asyncio.wait(tasks, timeout=5.0)
        out = {}
        for i, t in enumerate(tasks):
            if t in pending:
                out[str(i)] = ["pending"]
                t.cancel()
            elif t.exception() is not None:
                out[str(i)] = ["exc", repr(t.exception())]
            else:
                out[str(i)] = ["ok", t.result()]
        return {"results": out}

    old = signal.signal(signal.SIGALRM, _alarm)
    signal.alarm(alarm_s)
    try:
        return asyncio.run(main())
    except HangAbort:
        return {"hang": True}
    except Exception as e:  # noqa: BLE001
        return {"crash": repr(e)}
    finally:
        signal.alarm(0)
        signal.signal(signal.SIGALRM, old)


# ---------------------------------------------------------------------------------------
# concurrent `search` calls with repeated texts and a gated model (no wall-clock dependence)


class _StubAnnoy:
    """Stands in for the Annoy index: the neighbour of a vector is the item whose text the vector
    is the fake embedding of, so a search result names the text whose embedding was used."""

    def __init__(self, texts):
        self.texts = list(texts)

    def get_nns_by_vector(self, v, n, include_distances=False):
        try:
            i = self.texts.index(decode_vec(list(v)))
        except (ValueError, TypeError):
            return ([], []) if include_distances else []
        return ([i], [0.0]) if include_distances else [i]


def run_search_case(case, alarm_s=8):
    """case: {batching, max, cache, alphabet, texts, program}.  program actions: ["start", i],
    ["release", j] (let the j-th pending model call return), ["tick"], ["flush"]."""
    import nemoguardrails.embeddings.basic as basic
    from nemoguardrails.embeddings.index import IndexItem

    def make():
        kw = {}
        if case.get("cache"):
            kw["cache_config"] = {"enabled": True, "key_generator": case["cache"], "store": "in_memory", "store_config": {}}
        ix = basic.BasicEmbeddingsIndex(embedding_model="fake-0", embedding_engine="verif_fake",
                                        use_batching=case["batching"], max_batch_size=case["max"], max_batch_hold=0.0, **kw)
        ix._items = [IndexItem(text=t, meta={}) for t in case["alphabet"]]
        ix.embeddings_index = _StubAnnoy(case["alphabet"])
        return ix

    pending = []

    class Gate(FakeModel):
        async def encode_async(self, texts):
            self.calls.append(list(texts))
            if self.d is not None:
                fut = asyncio.get_event_loop().create_future()
                pending.append(fut)
                await fut
            return [fake_emb(t) for t in texts]

    results = {}

    async def flush():
        loop = asyncio.get_event_loop()
        for _ in range(10000):
            await asyncio.sleep(0)
            if not loop._ready:
                return

    async def main():
        # what a fresh sequential search of each text returns
        expected = {}
        for t in case["alphabet"]:
            ix0 = make()
            ix0._model = Gate(None)
            expected[t] = [it.text for it in await ix0.search(t, max_results=3)]
        ix = make()
        ix._model = Gate(True)
        started = set()

        async def one(i):
            try:
                r = await ix.search(case["texts"][i], max_results=3)
                results[i] = ["ok", [it.text for it in r]]
            except Exception as e:  # noqa: BLE001
                results[i] = ["exc", repr(e)]

        def start(i):
            if i not in started:
                started.add(i)
                asyncio.get_event_loop().create_task(one(i))

        def release(j):
            p = [f for f in pending if not f.done()]
            if p:
                p[j % len(p)].set_result(None)

        n = len(case["texts"])
        for a in case["program"]:
            if a[0] == "start":
                start(a[1])
            elif a[0] == "release":
                release(a[1])
            elif a[0] == "tick":
                await asyncio.sleep(0)
            elif a[0] == "flush":
                await flush()
        for _ in range(20 * n + 50):
            await flush()
            if len(results) == n:
                break
            if any(not f.done() for f in pending):
                release(0)
            elif len(started) < n:
                start(min(set(range(n)) - started))
            else:
                break
        await flush()
        return {"results": {str(i): r for i, r in results.items()}, "expected": expected}

    loop = asyncio.new_event_loop()
    asyncio.set_event_loop(loop)
    old = signal.signal(signal.SIGALRM, _alarm)
    signal.alarm(alarm_s)
    try:
        return loop.run_until_complete(main())
    except HangAbort:
        return {"hang": True}
    except Exception as e:  # noqa: BLE001
        return {"crash": repr(e)}
    finally:
        signal.alarm(0)
        signal.signal(signal.SIGALRM, old)
        try:
            for t in asyncio.all_tasks(loop):
                t.cancel()
            loop.run_until_complete(asyncio.sleep(0))
        except BaseException:  # noqa: BLE001
            pass
        loop.close()
        asyncio.set_event_loop(None)


def gen_search_case(rng):
    alphabet = rng.sample(TEXT_POOL, rng.choice([2, 2, 3]))
    n = rng.randint(3, 6)
    texts = [rng.choice(alphabet) for _ in range(n)]
    order = list(range(n))
    rng.shuffle(order)
    prog = []
    extra = rng.randint(0, 4)
    while order or extra > 0:
        x = rng.random()
        if order and x < 0.45:
            prog.append(["start", order.pop()])
            if rng.random() < 0.6:
                prog.append(["tick"])
        elif x < 0.75:
            prog.append(["release", rng.randrange(4)])
            prog.append(["flush"] if rng.random() < 0.7 else ["tick"])
        elif x < 0.9:
            prog.append(["tick"])
        else:
            prog.append(["flush"])
        if not order:
            extra -= 1
    batching = rng.random() < 0.5
    return {"kind": "search", "batching": batching, "max": rng.randint(1, 3),
            "cache": rng.choice([None, None, None, "md5", "hash"]),
            "alphabet": alphabet, "texts": texts, "program": prog}


def oracle_search(case, r):
    tag = ":batching" if case["batching"] else ""
    if r.get("hang"):
        return [("search:BasicEmbeddingsIndex.search:never-yields" + tag, "the event loop never got control back")]
    if r.get("crash"):
        return [("search:harness-crash" + tag, r["crash"])]
    bad = []
    for i, t in enumerate(case["texts"]):
        x = r["results"].get(str(i))
        want = r["expected"].get(t)
        if x is None:
            bad.append(("search:BasicEmbeddingsIndex.search:never-completes" + tag,
                        f"search {i} ({t!r}) never completed although every model call returned"))
        elif x[0] == "exc":
            bad.append(("search:BasicEmbeddingsIndex.search:raises" + tag, f"search {i} ({t!r}) raised {x[1]}"))
        elif x[1] != want or want != [t]:
            bad.append(("search:BasicEmbeddingsIndex.search:foreign-result" + tag,
                        f"concurrent search {i} for {t!r} returned the neighbours {x[1]!r}; a fresh sequential search of {t!r} returns {want!r}"))
    return bad


def child_main(infile, outfile):
    sys.path.insert(0, C.REPO)
    import nemoguardrails.embeddings.basic  # noqa: F401  (slow import: before any alarm is armed)

    cases = json.load(open(infile))
    with open(outfile, "w") as f:
        for c in cases:
            if c.get("kind") == "realtime":
                r = run_realtime(c)
            elif c.get("kind") == "search":
                r = run_search_case(c)
            elif c.get("kind") in ("cache", "multi"):
                try:
                    o, fin = run_cache_case(c) if c["kind"] == "cache" else run_multi_case(c)
                    r = {"obs": o, "final": fin}
                except Exception as e:  # noqa: BLE001
                    r = {"crash": repr(e)}
            else:
                r = run_schedule(c)
            f.write(json.dumps(r) + "\n")
            f.flush()



# ---------------------------------------------------------------------------------------
# the keys the implementation REALLY uses for (index, text): observed, not recomputed


async def probe_keys(ix, texts, gen_name):
    """{text: key}: one wrapper call per text on index `ix` with the cache store class swapped for
    a recorder (the real stores are not touched).  Falls back to the plain key generator where
    the wrapper does not go through CacheStore.from_name (a mutated implementation)."""
    from nemoguardrails.embeddings import cache as ch

    out = {}
    enabled = bool(getattr(ix.cache_config, "enabled", False))
    if enabled:
        seen = []

        class Rec:
            def __init__(self, **kw):
                pass

            def get(self, key):
                seen.append(key)
                return None

            def set(self, key, value):
                seen.append(key)

            def clear(self):
                pass

        orig = ch.CacheStore.__dict__["from_name"]
        saved_model = ix._model
        ch.CacheStore.from_name = classmethod(lambda cls, name: Rec)
        ix._model = FakeModel(None)
        try:
            for t in dict.fromkeys(texts):
                del seen[:]
                try:
                    await ix._get_embeddings([t])
                except Exception:  # noqa: BLE001
                    continue
                if len(set(seen)) == 1:
                    out[t] = seen[0]
        finally:
            ch.CacheStore.from_name = orig
            ix._model = saved_model
    for t in texts:
        if t not in out:
            try:
                out[t] = key_of(gen_name, t)
            except Exception:  # noqa: BLE001
                out[t] = "?" + t
    return out


# ---------------------------------------------------------------------------------------
# cache differential (in-process; the cache code has no loops that can hang)


def run_cache_case(spec):
    """spec: {gen, store, enabled, calls: [[text,...],...], dir}.  One index object, one store."""
    sys.path.insert(0, C.REPO)
    import nemoguardrails.embeddings.basic as basic

    register_colliding_generator()
    kw = {}
    if spec["enabled"]:
        kw["cache_config"] = {"enabled": True, "key_generator": spec["gen"], "store": spec["store"],
                              "store_config": ({"cache_dir": spec["dir"]} if spec["store"] == "filesystem" else {})}
    ix = basic.BasicEmbeddingsIndex(embedding_model="fake-0", embedding_engine="verif_fake", **kw)
    model = FakeModel(None)
    ix._model = model
    obs = []
    keytab = {}

    async def main():
        for texts in spec["calls"]:
            model.calls = []
            try:
                r = await ix._get_embeddings(list(texts))
                obs.append({"raw": r, "calls": model.calls})
            except Exception as e:  # noqa: BLE001
                obs.append({"exc": repr(e), "calls": model.calls})
                break
        if spec["enabled"]:
            keytab.update(await probe_keys(ix, [t for c in spec["calls"] for t in c], spec["gen"]))

    asyncio.run(main())
    spec["_keytab"] = keytab
    final = None
    if spec["enabled"] and spec["store"] == "filesystem":
        final = {}
        for fn in sorted(os.listdir(spec["dir"])):
            try:
                final[fn] = json.load(open(os.path.join(spec["dir"], fn)))
            except Exception as e:  # noqa: BLE001
                final[fn] = "unreadable: " + repr(e)
    return obs, final


# ---------------------------------------------------------------------------------------
# several indexes alive in one process: own model, own cache configuration each


def fake_emb_m(m, text):
    """model number m: a different vector for every (model, text)"""
    return [float(1000 + m)] + fake_emb(text)


def decode_vec_m(v):
    if not isinstance(v, list) or len(v) < 2 or not isinstance(v[0], float) or v[0] < 1000:
        raise ValueError(f"not a fake embedding: {v!r}")
    return int(v[0]) - 1000, decode_vec(v[1:])


class FakeModelM(FakeModel):
    def __init__(self, m):
        super().__init__(None)
        self.m = m

    async def encode_async(self, texts):
        self.calls.append(list(texts))
        await asyncio.sleep(0)
        return [fake_emb_m(self.m, t) for t in texts]


def run_multi_case(spec):
    """spec: {indexes: [{gen, store, dir_id, model, enabled}], calls: [[i, [text..]]..], base}.
    All indexes are created first and stay alive; calls are made in the given order."""
    sys.path.insert(0, C.REPO)
    import nemoguardrails.embeddings.basic as basic

    register_colliding_generator()
    ixs, models = [], []
    for c in spec["indexes"]:
        kw = {}
        if c["enabled"]:
            sc = {"cache_dir": os.path.join(spec["base"], f"d{c['dir_id']}")} if c["store"] == "filesystem" else {}
            kw["cache_config"] = {"enabled": True, "key_generator": c["gen"], "store": c["store"], "store_config": sc}
        ix = basic.BasicEmbeddingsIndex(embedding_model=f"fake-{c['model']}", embedding_engine="verif_fake", **kw)
        m = FakeModelM(c["model"])
        ix._model = m
        ixs.append(ix)
        models.append(m)
    obs = []

    async def main():
        for i, texts in spec["calls"]:
            models[i].calls = []
            try:
                r = await ixs[i]._get_embeddings(list(texts))
                obs.append({"raw": r, "calls": models[i].calls})
            except Exception as e:  # noqa: BLE001
                obs.append({"exc": repr(e), "calls": models[i].calls})
                break
        universe = [t for _i, texts in spec["calls"] for t in texts]
        for j, c in enumerate(spec["indexes"]):
            keytabs.append(await probe_keys(ixs[j], universe, c["gen"]) if c["enabled"] else {})

    keytabs = []
    asyncio.run(main())
    spec["_keytabs"] = keytabs
    final = {}
    for c in spec["indexes"]:
        if c["enabled"] and c["store"] == "filesystem" and c["dir_id"] not in final:
            d = os.path.join(spec["base"], f"d{c['dir_id']}")
            final[c["dir_id"]] = {}
            for fn in sorted(os.listdir(d)) if os.path.isdir(d) else []:
                try:
                    final[c["dir_id"]][fn] = json.load(open(os.path.join(d, fn)))
                except Exception as e:  # noqa: BLE001
                    final[c["dir_id"]][fn] = "unreadable: " + repr(e)
    return obs, final


def multi_expected_isolated(spec, i):
    """True if the assumption of C19_cache_isolation holds for index i: no other index with a
    different model resolves to the same store, and the key generator is a shipped one."""
    c = spec["indexes"][i]
    if not c["enabled"]:
        return True
    # sharing a store (same cache_dir) with an index that uses another model is covered: the keys
    # contain the model identity (C19_cache_isolation); only the colliding generator is excluded
    return c["gen"] in ("hash", "md5")


def shares_store_with_other_model(spec, i):
    c = spec["indexes"][i]
    if not (c["enabled"] and c["store"] == "filesystem"):
        return False
    return any(o is not c and o["enabled"] and o["store"] == "filesystem" and o["dir_id"] == c["dir_id"]
               and o["model"] != c["model"] for o in spec["indexes"])


def multi_case_term(spec, obs, final):
    T = Atoms()
    for _i, texts in spec["calls"]:
        for t in texts:
            T(t)
    universe = list(T.ids)
    K = Atoms()
    ixs = []
    for j, c in enumerate(spec["indexes"]):
        kt = (spec.get("_keytabs") or [{}] * len(spec["indexes"]))[j]
        keys = [K(kt[t] if t in kt else key_of(c["gen"], t)) for t in universe] if c["enabled"] else [0 for _ in universe]
        sid = f"(Some {c['dir_id']})" if (c["enabled"] and c["store"] == "filesystem") else "None"
        ixs.append(f"({coq_nat_list(keys)}, {c['model']}, {sid}, {C.coq_bool(c['enabled'])})")

    def vec(v):
        m, t = decode_vec_m(v)
        return f"(Some ({m}, {T.get(t)}))"

    calls = []
    for (i, texts), o in zip(spec["calls"], obs):
        if "exc" in o:
            return None, "exception " + o["exc"]
        if not isinstance(o["raw"], list):
            return None, "result is not a list"
        try:
            res = ["None" if v is None else vec(v) for v in o["raw"]]
        except ValueError:
            return None, "undecodable vector"
        mc = C.coq_list([coq_nat_list([T.get(t) for t in c]) for c in o["calls"]])
        calls.append(f"({i}, {coq_nat_list([T(t) for t in texts])}, {C.coq_list(res)}, {mc})")
    fin = []
    for d, files in final.items():
        for fn, v in files.items():
            if fn not in K.ids:
                return None, f"file {fn} in store {d} is not the key of any text"
            try:
                fin.append(f"({d}, {K.ids[fn]}, {vec(v)})")
            except ValueError:
                return None, "undecodable stored value"
        for k, kid in K.ids.items():
            if k not in files:
                fin.append(f"({d}, {kid}, None)")
    return f"(({C.coq_list(ixs)}, {C.coq_list(calls)}, {C.coq_list(fin)}) : multi_case)", None


def gen_multi_spec(rng, base_dir, k):
    pool = rng.sample(TEXT_POOL, rng.randint(1, 4))
    nix = rng.choice([2, 2, 3, 4])
    same_model = rng.random() < 0.2
    indexes = []
    for j in range(nix):
        r = rng.random()
        enabled = r > 0.1
        gen = rng.choice(["hash", "md5", "md5", "hash", "md5", "verif_len"])
        store = rng.choice(["in_memory", "filesystem", "filesystem", "filesystem"])
        # mostly every index has its own cache_dir; sometimes two share one
        dir_id = rng.randrange(j + 1) if rng.random() < 0.2 else j
        indexes.append({"gen": gen, "store": store, "dir_id": dir_id, "model": 1 if same_model else j + 1,
                        "enabled": enabled})
    if rng.random() < 0.6:   # the common deployment: same generator and store type, own folder each
        g, st = indexes[0]["gen"], indexes[0]["store"]
        for c in indexes:
            c["gen"], c["store"], c["enabled"] = g, st, True
    calls = []
    for _ in range(rng.randint(2, 6)):
        n = rng.choice([1, 1, 2, 3, 4])
        calls.append([rng.randrange(nix), [rng.choice(pool) for _ in range(n)]])
    return {"kind": "multi", "indexes": indexes, "calls": calls, "base": os.path.join(base_dir, f"m{k}")}


class Atoms:
    """Numbers the distinct texts / keys of a case in order of first occurrence."""

    def __init__(self):
        self.ids = {}

    def __call__(self, x):
        if x not in self.ids:
            self.ids[x] = len(self.ids)
        return self.ids[x]

    def get(self, x, default=9999):
        return self.ids.get(x, default)


def coq_nat_list(xs):
    return C.coq_list([str(x) for x in xs])


def coq_optnat(x):
    return "None" if x is None else f"(Some {x})"


def cache_case_term(spec, obs, final):
    """Coq term of type cache_case, or (None, reason) if an observation cannot be expressed."""
    T = Atoms()
    for texts in spec["calls"]:
        for t in texts:
            T(t)
    universe = list(T.ids)
    K = Atoms()
    kt = spec.get("_keytab") or {}
    keys = [K(kt[t] if t in kt else key_of(spec["gen"], t)) for t in universe] if spec["enabled"] else [0 for _ in universe]
    calls = []
    for texts, o in zip(spec["calls"], obs):
        if "exc" in o:
            return None, "exception " + o["exc"]
        res = []
        if not isinstance(o["raw"], list):
            return None, "result is not a list"
        for v in o["raw"]:
            if v is None:
                res.append("None")
            else:
                try:
                    res.append(f"(Some {T.get(decode_vec(v))})")
                except ValueError:
                    return None, "undecodable vector"
        mc = C.coq_list([coq_nat_list([T.get(t) for t in c]) for c in o["calls"]])
        calls.append(f"({coq_nat_list([T(t) for t in texts])}, {C.coq_list(res)}, {mc})")
    fin = []
    if final is not None:
        seen = set()
        for fn, v in final.items():
            if fn not in K.ids:
                return None, f"file {fn} in the store is not the key of any text"
            seen.add(fn)
            try:
                fin.append(f"({K.ids[fn]}, Some {T.get(decode_vec(v))})")
            except ValueError:
                return None, "undecodable stored value"
        for k, kid in K.ids.items():
            if k not in seen:
                fin.append(f"({kid}, None)")
    persistent = spec["store"] == "filesystem"
    term = (f"(({coq_nat_list(keys)}, {C.coq_bool(spec['enabled'])}, {C.coq_bool(persistent)}, "
            f"{C.coq_list(calls)}, {C.coq_list(fin)}) : cache_case)")
    return term, None


def gen_cache_spec(rng, base_dir, k):
    pool = rng.sample(TEXT_POOL, rng.randint(1, 6))
    ncalls = rng.choice([1, 1, 2, 3, 4])
    calls = []
    for _ in range(ncalls):
        n = rng.choice([0, 1, 1, 2, 3, 4, 5, 8])
        calls.append([rng.choice(pool) for _ in range(n)])
    r = rng.random()
    if r < 0.08:
        enabled, gen, store = False, "md5", "filesystem"
    else:
        enabled = True
        gen = rng.choice(["hash", "md5", "md5", "hash", "verif_len"])
        store = rng.choice(["in_memory", "filesystem", "filesystem"])
    d = os.path.join(base_dir, f"c{k}")
    return {"kind": "cache", "gen": gen, "store": store, "enabled": enabled, "calls": calls, "dir": d}


# ---------------------------------------------------------------------------------------
# schedules


def gen_schedule(rng, base_dir, k):
    n = rng.randint(1, 8)
    b = rng.randint(1, 4)
    pool = rng.sample(TEXT_POOL, rng.randint(1, 4))
    texts = [rng.choice(pool) for _ in range(n)]
    r = rng.random()
    cache = None
    if r > 0.6:
        cache = {"key_generator": rng.choice(["hash", "md5"]), "store": rng.choice(["in_memory", "filesystem", "filesystem"]),
                 "dir": os.path.join(base_dir, f"s{k}")}
    prefill = []
    if cache and cache["store"] == "filesystem" and rng.random() < 0.6:
        prefill = [t for t in pool if rng.random() < 0.5]
    remaining = list(range(n))
    rng.shuffle(remaining)
    prog = []
    extra = rng.randint(0, 6)
    style = rng.choice(["burst", "mixed", "mixed", "slow"])
    nonfifo = rng.random() < 0.3
    while remaining or extra > 0:
        x = rng.random()
        if nonfifo and rng.random() < 0.25:
            prog.append(["shuffle", rng.randrange(1000)])
            prog.append(["tick"])
            continue
        if remaining and (x < {"burst": 0.75, "mixed": 0.4, "slow": 0.2}[style]):
            prog.append(["arrive", remaining.pop()])
        elif x < 0.6 + (0.0 if remaining else 0.0):
            prog.append(["tick"])
        elif x < 0.72:
            prog.append(["flush"])
        elif x < 0.86:
            prog.append(["timer", rng.randrange(4)])
        else:
            prog.append(["model", rng.randrange(4)])
        if not remaining:
            extra -= 1
    return {"kind": "trace", "cfg": {"max": b, "hold": 0.01, "cache": cache, "prefill": prefill},
            "texts": texts, "program": prog}


def gen_realtime(rng):
    n = rng.randint(1, 8)
    pool = rng.sample(TEXT_POOL, rng.randint(1, 4))
    return {"kind": "realtime", "cfg": {"max": rng.randint(1, 4), "hold": rng.choice([0.0, 0.001, 0.004])},
            "texts": [rng.choice(pool) for _ in range(n)],
            "arrivals": [rng.choice([0.0, 0.0, 0.001, 0.002, 0.005]) for _ in range(n)],
            "latency": rng.choice([0.0, 0.001, 0.003])}


LABELS = {"req": "LReq", "batch": "LBatch", "timer": "LTimer", "model": "LModel"}
MODES = {None: "CacheOff", "in_memory": "CacheLocal", "filesystem": "CacheShared"}


def trace_term(case, r):
    """Coq term of type trace_case from a schedule's observation, or (None, reason)."""
    cfg = case["cfg"]
    T = Atoms()
    for t in case["texts"]:
        T(t)
    for t in cfg.get("prefill") or []:
        T(t)
    universe = list(T.ids)
    cache = cfg.get("cache")
    K = Atoms()
    try:
        keys = [K(r["keytab"][t]) for t in universe] if cache else []
    except KeyError as ex:
        return None, f"no key reported for text {ex}"
    mode = MODES[cache["store"] if cache else None]

    def snap(s):
        if "error" in s:
            raise ValueError("snapshot failed: " + s["error"])
        q = C.coq_list([f"({a}, {T.get(b)})" for a, b in s["q"]])
        res = C.coq_list([f"({a}, {coq_optnat(None if b is None else T.get(b))})" for a, b in s["res"]])
        return f"({q}, {res}, {s['idx']}, {C.coq_bool(s['fin_none'])}, {C.coq_bool(s['sub'])})"

    try:
        steps = []
        for e in r["log"]:
            call = "None" if e["call"] is None else f"(Some {coq_nat_list([T.get(t) for t in e['call']])})"
            if e["ret"] is None:
                ret = "None"
            elif e["ret"][0] == "none":
                ret = "(Some None)"
            else:
                ret = f"(Some (Some {T.get(e['ret'][1])}))"
            steps.append(f"({LABELS[e['l'][0]]} {e['l'][1]}, {snap(e['snap'])}, ({call}, {ret}))")
        final = snap(r["final"])
    except ValueError as ex:
        return None, str(ex)
    rets = []
    for i in range(len(case["texts"])):
        x = r["results"].get(str(i))
        if x is None or x[0] != "ok":
            rets.append("None")
        else:
            try:
                rets.append(f"(Some (Some {T.get(decode_vec(x[1]))}))")
            except ValueError:
                rets.append("(Some None)")
    st0 = []
    for k, t in (r.get("st0") or {}).items():
        if k not in K.ids:
            return None, f"prefilled store has file {k} which is not the key of any text"
        st0.append(f"({K.ids[k]}, {T.get(t)})")
    fstore = []
    if r.get("fstore") is not None:
        for k, kid in K.ids.items():
            v = r["fstore"].get(k)
            fstore.append(f"({kid}, {coq_optnat(None if v is None else T.get(v))})")
        for k in r["fstore"]:
            if k not in K.ids:
                return None, f"store has file {k} which is not the key of any text"
    term = (f"(({cfg['max']}, {mode}, {coq_nat_list(keys)}, {C.coq_list(st0)}, "
            f"{coq_nat_list([T(t) for t in case['texts']])}, {C.coq_list(steps)}, {final}, "
            f"{C.coq_list(rets)}, {C.coq_list(fstore)}) : trace_case)")
    return term, None


def oracle_trace(case, r):
    """Direct property oracle on the implementation.  Returns list of (signature, text)."""
    bad = []
    if r.get("hang"):
        return [("batch:_batch_get_embeddings:never-yields", "the event loop never got control back (busy loop)")]
    if r.get("crash"):
        return [("batch:harness-crash", r["crash"])]
    n = len(case["texts"])
    for i in range(n):
        x = r["results"].get(str(i))
        if x is None or x[0] == "pending":
            bad.append(("batch:_batch_get_embeddings:request-never-completes",
                        f"request {i} ({case['texts'][i]!r}) never completed although every timer fired and every model call returned"))
        elif x[0] == "exc":
            bad.append(("batch:_batch_get_embeddings:request-raises", f"request {i} raised {x[1]}"))
        elif x[1] != fake_emb(case["texts"][i]):
            try:
                got = repr(decode_vec(x[1]))
            except ValueError:
                got = repr(x[1])
            bad.append(("batch:_batch_get_embeddings:wrong-vector",
                        f"request {i} for {case['texts'][i]!r} got the embedding of {got}"))
    for e in r.get("batch_exc") or []:
        bad.append(("batch:_run_batch:raises", e))
    return bad


def read_store_dir(d):
    out = {}
    if d and os.path.isdir(d):
        for fn in sorted(os.listdir(d)):
            try:
                out[fn] = decode_vec(json.load(open(os.path.join(d, fn))))
            except Exception:  # noqa: BLE001
                out[fn] = None
    return out


def run_children(cases, tag, timeout_s, per_case=False):
    """Run schedule cases in parallel child processes under `timeout`; returns list of observations
    (None where the child died before reaching the case)."""
    if per_case and len(cases) > C.NPROC:   # waves of at most NPROC fresh processes
        out, logs = [], []
        for w in range(0, len(cases), C.NPROC):
            o, lg = run_children(cases[w:w + C.NPROC], f"{tag}_{w}", timeout_s, per_case=True)
            out += o
            logs += lg
        return out, logs
    d = os.path.join(C.BUILD, "c19", tag)
    shutil.rmtree(d, ignore_errors=True)
    os.makedirs(d)
    nproc = max(1, min(C.NPROC, (len(cases) + 19) // 20))
    if per_case:
        nproc = max(1, len(cases))
    chunks = [cases[i::nproc] for i in range(nproc)]
    import subprocess

    procs = []
    for j, ch in enumerate(chunks):
        fi, fo = os.path.join(d, f"in{j}.json"), os.path.join(d, f"out{j}.jsonl")
        json.dump(ch, open(fi, "w"))
        env = dict(os.environ)
        env.update(C.impl_env())
        p = subprocess.Popen(["timeout", str(timeout_s), C.PY, "-m", "harness.c19", "child", fi, fo],
                             cwd=C.VERIF, env=env, stdout=subprocess.PIPE, stderr=subprocess.STDOUT)
        procs.append((p, fo, ch))
    out = [None] * len(cases)
    logs = []
    for j, (p, fo, ch) in enumerate(procs):
        so, _ = p.communicate()
        logs.append((p.returncode, (so or b"").decode("utf-8", "replace")[-1500:]))
        lines = open(fo).read().splitlines() if os.path.exists(fo) else []
        for i, line in enumerate(lines):
            try:
                out[j + i * nproc] = json.loads(line)
            except Exception:  # noqa: BLE001
                pass
    return out, logs


def nontrivial_trace(case, r):
    if len(case["texts"]) < 2 or not r.get("log"):
        return False
    per = {}
    for e in r["log"]:
        if e["l"][0] == "req":
            per[e["l"][1]] = per.get(e["l"][1], 0) + 1
    return r.get("n_batches", 0) >= 2 or any(v >= 3 for v in per.values())


def first_wrong(spec, obs):
    """The property oracle on one cache / several-indexes case: (kind, text) of the first call
    whose result is not the vectors of the calling index's own model, or None."""
    if spec["kind"] == "cache":
        for texts, o in zip(spec["calls"], obs):
            if "exc" in o:
                return "raises", f"_get_embeddings({texts!r}) raised {o['exc']}"
            if o["raw"] != [fake_emb(t) for t in texts]:
                return "wrong-vector", f"_get_embeddings({texts!r}) returned {o['raw']!r}"
        return None
    for (i, texts), o in zip(spec["calls"], obs):
        c = spec["indexes"][i]
        if not multi_expected_isolated(spec, i):
            continue
        if "exc" in o:
            return "raises", f"index {i}: _get_embeddings({texts!r}) raised {o['exc']}"
        if o["raw"] != [fake_emb_m(c["model"], t) for t in texts]:
            def show(v):
                try:
                    return "model %d's vector of %r" % decode_vec_m(v)
                except ValueError:
                    return repr(v)
            got = [show(v) for v in o["raw"]] if isinstance(o["raw"], list) else repr(o["raw"])
            return "foreign-vector", (f"index {i} (model {c['model']}, {c['gen']}/{c['store']}, cache_dir #{c['dir_id']}) "
                                      f"_get_embeddings({texts!r}) returned {got}")
    return None


def confirm_in_fresh_process(out, candidates, base_dir, tag):
    """candidates: {signature: [(size, what, spec), ...]} observed in THIS process, where earlier
    cases may have left state behind in the implementation (module-level caches).  A replay must
    fail on its own: every candidate (smallest first, a few per signature) is re-run alone in
    a fresh child process and reported only if it fails there too."""
    todo = []
    per_sig = max(2, min(10, 48 // max(1, len(candidates))))
    for sig, lst in sorted(candidates.items()):
        for j, (size, what, spec) in enumerate(sorted(lst, key=lambda x: x[0])[:per_sig]):
            sp = json.loads(json.dumps(spec))
            if sp["kind"] == "cache":
                sp["dir"] = os.path.join(base_dir, f"{tag}{len(todo)}")
            else:
                sp["base"] = os.path.join(base_dir, f"{tag}{len(todo)}")
            todo.append((sig, what, sp))
    if not todo:
        return
    obs, _logs = run_children([sp for _s, _w, sp in todo], "confirm_" + tag, 300, per_case=True)
    done = set()
    for (sig, what, sp), r in zip(todo, obs):
        if sig in done or r is None or "obs" not in r:
            continue
        w = first_wrong(sp, r["obs"])
        if w is not None:
            done.add(sig)
            out.findings.append(C.Finding(sig, w[1], {k: v for k, v in sp.items() if k not in ("dir", "base") and not k.startswith("_")}))
    for sig, lst in sorted(candidates.items()):
        if sig not in done:
            size, what, spec = min(lst, key=lambda x: x[0])
            out.findings.append(C.Finding(
                sig + ":only-after-earlier-cases-in-the-same-process",
                what + " (fails only when earlier cases ran in the same process: the implementation keeps state across index objects)",
                {k: v for k, v in spec.items() if k not in ("dir", "base") and not k.startswith("_")}))


ANCHOR_HASHES = {}


def anchor_hashes():
    import ast
    import hashlib

    out = {}
    for rel, names in (("nemoguardrails/embeddings/basic.py", ["_run_batch", "_batch_get_embeddings", "_get_embeddings"]),
                       ("nemoguardrails/embeddings/cache.py", ["cache_embeddings", "EmbeddingsCache", "HashKeyGenerator",
                                                                 "MD5KeyGenerator", "InMemoryCacheStore", "FilesystemCacheStore"])):
        tree = ast.parse(open(os.path.join(C.REPO, rel)).read())
        for node in ast.walk(tree):
            if isinstance(node, (ast.FunctionDef, ast.AsyncFunctionDef, ast.ClassDef)) and node.name in names:
                for sub in ast.walk(node):
                    if isinstance(sub, (ast.FunctionDef, ast.AsyncFunctionDef, ast.ClassDef)) and sub.body and \
                            isinstance(sub.body[0], ast.Expr) and isinstance(getattr(sub.body[0], "value", None), ast.Constant) \
                            and isinstance(sub.body[0].value.value, str):
                        sub.body = sub.body[1:] or [ast.Pass()]
                out[node.name] = hashlib.sha1(ast.dump(node, include_attributes=False).encode()).hexdigest()[:12]
    return out


# normalised-AST hashes of the anchored code the models were last reconciled with (effort
# heuristic only: a difference makes the quick tier use a larger budget, DESIGN 2.2)
RECONCILED = {
    "EmbeddingsCache": "247802a80f99", "FilesystemCacheStore": "0a7dcca9f08c", "HashKeyGenerator": "d4584899cb3e",
    "InMemoryCacheStore": "4f55f64e88f8", "MD5KeyGenerator": "be81fbbe544e", "_batch_get_embeddings": "d1d0a45e940c",
    "_get_embeddings": "a0ddcf323360", "_run_batch": "29c2857303be", "cache_embeddings": "4bb38116bc95",
}


def run(tier, seed, replay=None):
    out = C.Outcome(PID, tier, seed)
    rng = random.Random(seed * 1000003 + 19)
    b = C.build_and_audit(PID, GEN)
    C.proof_coverage(out, b, "make theories/Props/C19.vo && coqc Props/C19.v (Print Assumptions)")
    for br in b["broken"]:
        out.add_broken(br, b["log"])
    with C.BuildLock():
        okm, logm = C.coq_make(["theories/Svc/EmbRun.vo"])
    if not okm:
        out.add_broken("coq:theories/Svc/EmbRun.v", logm)
    sys.path.insert(0, C.REPO)

    try:
        hashes = anchor_hashes()
    except Exception as e:  # noqa: BLE001
        hashes = {"error": repr(e)}
    amplified = bool(RECONCILED) and hashes != RECONCILED
    n_cache = 1500 if tier == "quick" else 12000
    n_sched = 500 if tier == "quick" else 20000
    n_rt = 24 if tier == "quick" else 200
    n_multi = 400 if tier == "quick" else 4000
    n_search = 800 if tier == "quick" else 8000
    if amplified and tier == "quick":
        n_cache, n_sched, n_rt, n_multi, n_search = n_cache * 4, n_sched * 6, n_rt * 3, n_multi * 4, n_search * 4

    base_dir = tempfile.mkdtemp(prefix="verif_c19_")
    corpus_dir = os.path.join(C.VERIF, "corpus", PID)
    pre_cases = []
    if os.path.isdir(corpus_dir):
        for fn in sorted(os.listdir(corpus_dir)):
            if fn.endswith(".json"):
                pre_cases.append(json.load(open(os.path.join(corpus_dir, fn))))
    corpus_n = len(pre_cases)
    if replay:
        d = json.load(open(replay))
        pre_cases = [d.get("replay", d)]
        n_cache = n_sched = n_rt = n_multi = n_search = 0
    for j, c in enumerate(pre_cases):  # private directories
        if c.get("kind") == "cache":
            c["dir"] = os.path.join(base_dir, f"pc{j}")
        elif c.get("kind") == "multi":
            c["base"] = os.path.join(base_dir, f"pm{j}")
        elif c.get("kind") == "trace" and c["cfg"].get("cache"):
            c["cfg"]["cache"]["dir"] = os.path.join(base_dir, f"ps{j}")

    try:
        # ---------------- cache differential
        t0 = time.time()
        cache_specs = [c for c in pre_cases if c.get("kind") == "cache"]
        cache_specs += [gen_cache_spec(rng, base_dir, k) for k in range(n_cache)]
        terms, kept = [], []
        dist = {}
        seen = set()
        n_nontrivial = 0
        collisions_shown = 0
        cache_viol = 0
        cache_find = {}
        for spec in cache_specs:
            try:
                obs, final = run_cache_case(spec)
            except Exception as e:  # noqa: BLE001
                out.add_broken("correspondence:C19-cache(driver)", f"{spec}: {e!r}")
                continue
            tag = ("off" if not spec["enabled"] else f"{spec['gen']}/{spec['store']}")
            dist[tag] = dist.get(tag, 0) + 1
            shipped = (not spec["enabled"]) or spec["gen"] in ("hash", "md5")
            # direct oracle (property text): results are the model's vectors, in input order
            wrong = None
            for texts, o in zip(spec["calls"], obs):
                if "exc" in o:
                    wrong = ("raises", f"_get_embeddings({texts!r}) raised {o['exc']}")
                    break
                if o["raw"] != [fake_emb(t) for t in texts]:
                    wrong = ("wrong-vector", f"_get_embeddings({texts!r}) returned the embeddings of "
                             f"{[(decode_vec(v) if isinstance(v, list) else v) for v in o['raw']] if isinstance(o['raw'], list) else o['raw']!r}")
                    break
            if len(obs) < len(spec["calls"]) and wrong is None:
                wrong = ("raises", "call sequence interrupted")
            if wrong and shipped:
                cache_viol += 1
                shape = "dups" if any(len(set(t)) < len(t) for t in spec["calls"]) else "nodups"
                sig = f"cache:wrapper_decorator:{wrong[0]}:{tag}:{shape}"
                size = sum(len(t) + 1 for t in spec["calls"])
                cache_find.setdefault(sig, []).append((size, wrong[1], spec))
            elif wrong and not shipped:
                collisions_shown += 1
            term, why = cache_case_term(spec, obs, final)
            if term is None:
                if shipped and not wrong:
                    out.add_broken("correspondence:C19-cache(observation)", f"{why}: {spec}")
                continue
            h = C.canon_hash(term)
            if h not in seen:
                seen.add(h)
                if spec["enabled"] and sum(len(t) for t in spec["calls"]) >= 2 and \
                        (len(spec["calls"]) >= 2 or any(len(set(t)) < len(t) for t in spec["calls"])):
                    n_nontrivial += 1
            terms.append(term)
            kept.append(spec)
        confirm_in_fresh_process(out, cache_find, base_dir, "cf")
        cache_dis = 0
        if okm and terms:
            bools, err = C.run_cases(PID + "_cache", PREAMBLE, terms, "check_cache")
            if err:
                out.add_broken("correspondence:C19-cache(coqc)", err)
            else:
                badc = [(s, t) for ok, s, t in zip(bools, kept, terms) if not ok]
                cache_dis = len(badc)
                if badc:
                    s, t = min(badc, key=lambda x: len(x[1]))
                    model = C.eval_term(PID + "_cache", PREAMBLE, f"model_cache {t}")
                    out.add_broken("correspondence:C19-cache",
                                   f"{len(badc)} disagreements; smallest: {({k: v for k, v in s.items() if k != 'dir' and not k.startswith('_')})} case={t} model answers {model[-1500:]}")
        # ---------------- several indexes in one process
        multi_specs = [c for c in pre_cases if c.get("kind") == "multi"]
        multi_specs += [gen_multi_spec(rng, base_dir, k) for k in range(n_multi)]
        mterms, mkept = [], []
        multi_find = {}
        multi_shared_shown = 0
        mdist = {"same_cfg_own_dir_diff_model": 0, "shared_dir_diff_model": 0, "other": 0}
        for spec in multi_specs:
            try:
                obs, final = run_multi_case(spec)
            except Exception as e:  # noqa: BLE001
                out.add_broken("correspondence:C19-multi(driver)", f"{spec}: {e!r}")
                continue
            en = [c for c in spec["indexes"] if c["enabled"]]
            shared = any(shares_store_with_other_model(spec, i) for i in range(len(spec["indexes"]))
                         if spec["indexes"][i]["gen"] in ("hash", "md5"))
            owncfg = len(en) >= 2 and len({(c["gen"], c["store"]) for c in en}) == 1 and \
                len({c["model"] for c in en}) >= 2 and not shared
            mdist["shared_dir_diff_model" if shared else "same_cfg_own_dir_diff_model" if owncfg else "other"] += 1
            for (i, texts), o in zip(spec["calls"], obs):
                c = spec["indexes"][i]
                want = [fake_emb_m(c["model"], t) for t in texts]
                if "exc" in o:
                    wrong = ("raises", f"index {i}: _get_embeddings({texts!r}) raised {o['exc']}")
                elif o["raw"] != want:
                    def show(v):
                        try:
                            return "model %d's vector of %r" % decode_vec_m(v)
                        except ValueError:
                            return repr(v)
                    wrong = ("foreign-vector", f"index {i} (model {c['model']}, {c['gen']}/{c['store']}, cache_dir #{c['dir_id']}) "
                             f"_get_embeddings({texts!r}) returned {[show(v) for v in o['raw']] if isinstance(o['raw'], list) else o['raw']!r}")
                else:
                    continue
                if multi_expected_isolated(spec, i):
                    cache_viol += 1
                    sig = (f"cache:wrapper_decorator:{wrong[0]}:several-indexes:{c['gen']}/{c['store']}"
                           + (":shared-cache_dir-different-models" if shares_store_with_other_model(spec, i) else ""))
                    size = len(spec["indexes"]) * 100 + sum(len(t) + 1 for _i, t in spec["calls"])
                    multi_find.setdefault(sig, []).append((size, wrong[1], spec))
                else:
                    multi_shared_shown += 1
                break
            term, why = multi_case_term(spec, obs, final)
            if term is None:
                if not multi_find:
                    out.add_broken("correspondence:C19-multi(observation)", f"{why}: {spec}")
                continue
            h = C.canon_hash(term)
            if h not in seen:
                seen.add(h)
                if len(en) >= 2 and len({i for i, _t in spec["calls"]}) >= 2:
                    n_nontrivial += 1
            mterms.append(term)
            mkept.append(spec)
        confirm_in_fresh_process(out, multi_find, base_dir, "mf")
        multi_dis = 0
        if okm and mterms:
            bools, err = C.run_cases(PID + "_multi", PREAMBLE, mterms, "check_multi")
            if err:
                out.add_broken("correspondence:C19-multi(coqc)", err)
            else:
                badm = [(sp, t) for ok, sp, t in zip(bools, mkept, mterms) if not ok]
                multi_dis = len(badm)
                if badm:
                    sp, t = min(badm, key=lambda x: len(x[1]))
                    model = C.eval_term(PID + "_multi", PREAMBLE, f"model_multi {t}")
                    out.add_broken("correspondence:C19-multi",
                                   f"{len(badm)} disagreements; smallest: {({k: v for k, v in sp.items() if k != 'base' and not k.startswith('_')})} case={t} model answers {model[-1500:]}")
        t_cache = time.time() - t0

        # ---------------- batching: trace inclusion + oracle
        t0 = time.time()
        scheds = [c for c in pre_cases if c.get("kind") == "trace"]
        scheds += [gen_schedule(rng, base_dir, k) for k in range(n_sched)]
        rts = [c for c in pre_cases if c.get("kind") == "realtime"] + [gen_realtime(rng) for _ in range(n_rt)]
        rts += [c for c in pre_cases if c.get("kind") == "search"] + [gen_search_case(rng) for _ in range(n_search)]
        obs, logs = run_children(scheds + rts, "run", 420 if tier == "quick" else 3000)
        n_searches = 0
        search_overlap = 0
        tterms, tkept = [], []
        trace_steps = 0
        tdist = {"max": {}, "n": {}, "mode": {}, "labels": {}}
        tviol = []
        n_done = 0
        for case, r in zip(scheds + rts, obs):
            if r is None:
                continue
            n_done += 1
            if case["kind"] == "search":
                n_searches += 1
                for sig, what in oracle_search(case, r):
                    tviol.append((sig, what, case))
                h = C.canon_hash(["search", case["batching"], case["max"], case["program"],
                                  [case["alphabet"].index(t) for t in case["texts"]]])
                if h not in seen:
                    seen.add(h)
                    if len(set(case["texts"])) < len(case["texts"]):
                        n_nontrivial += 1
                        search_overlap += 1
                continue
            if case["kind"] == "realtime":
                rr = dict(r)
                if "results" in rr:
                    rr["results"] = {k: v for k, v in rr["results"].items()}
                for sig, what in oracle_trace(case, {"results": rr.get("results", {}), **{k: rr[k] for k in ("hang", "crash") if k in rr}}):
                    tviol.append((sig + ":realtime", what, case))
                continue
            shuffled = any(a[0] == "shuffle" for a in case.get("program", []))
            for sig, what in oracle_trace(case, r):
                tviol.append((sig + (":shuffled-ready-queue" if shuffled else ""), what, case))
            if shuffled:
                tdist["nonfifo"] = tdist.get("nonfifo", 0) + 1
            if r.get("hang") or r.get("crash"):
                continue
            if r.get("problems"):
                out.add_broken("correspondence:C19-batch(instrumentation)", f"{r['problems']} on {case}")
                continue
            term, why = trace_term(case, r)
            if term is None:
                out.add_broken("correspondence:C19-batch(observation)", f"{why}: {case}")
                continue
            tterms.append(term)
            tkept.append((case, r))
            trace_steps += len(r["log"])
            tdist["max"][case["cfg"]["max"]] = tdist["max"].get(case["cfg"]["max"], 0) + 1
            tdist["n"][len(case["texts"])] = tdist["n"].get(len(case["texts"]), 0) + 1
            m = MODES[case["cfg"]["cache"]["store"] if case["cfg"].get("cache") else None]
            tdist["mode"][m] = tdist["mode"].get(m, 0) + 1
            for e in r["log"]:
                tdist["labels"][e["l"][0]] = tdist["labels"].get(e["l"][0], 0) + 1
            h = C.canon_hash([case["cfg"]["max"], m, [e["l"] for e in r["log"]]])
            if h not in seen:
                seen.add(h)
                if nontrivial_trace(case, r):
                    n_nontrivial += 1
        missing = len(scheds) + len(rts) - n_done
        if missing:
            # a child died or ran into the shell timeout: the first case without an answer is the suspect
            first = next(c for c, r in zip(scheds + rts, obs) if r is None)
            tviol.append(("batch:_batch_get_embeddings:never-yields", f"child process did not finish ({logs})", first))
        trace_dis = 0
        if okm and tterms:
            bools, err = C.run_cases(PID + "_trace", PREAMBLE, tterms, "check_trace", shard=60)
            if err:
                out.add_broken("correspondence:C19-batch(coqc)", err)
            else:
                badt = [(c, t) for ok, c, t in zip(bools, tkept, tterms) if not ok]
                trace_dis = len(badt)
                if badt:
                    (case, r), t = min(badt, key=lambda x: len(x[1]))
                    model = C.eval_term(PID + "_trace", PREAMBLE, f"trace_diag {t}")
                    out.add_broken("correspondence:C19-batch",
                                   f"{len(badt)} traces not included in Svc.Batch; smallest: {case} labels={[e['l'] for e in r['log']]} "
                                   f"(steps accepted, model state) = {model[-1200:]}")
        seen_sig = {}
        for sig, what, case in tviol:
            cur = seen_sig.get(sig)
            size = len(case["texts"]) * 100 + len(case.get("program", []))
            if cur is None or size < cur[0]:
                seen_sig[sig] = (size, what, case)
        for sig, (_sz, what, case) in seen_sig.items():
            cc = json.loads(json.dumps(case))
            if (cc.get("cfg") or {}).get("cache"):
                cc["cfg"]["cache"].pop("dir", None)
            out.findings.append(C.Finding(sig, what, cc))
        t_batch = time.time() - t0
    finally:
        shutil.rmtree(base_dir, ignore_errors=True)

    out.coverage.update({
        "evaluations": len(terms) + len(mterms) + len(tterms) + len(rts),
        "distinct_nontrivial": n_nontrivial,
        "rule": "search: 3-6 overlapping search() calls over 2-3 texts with a repeated text, gated model, batching on/off; several indexes: >=2 indexes with the cache enabled and calls on >=2 of them; cache: cache enabled, >=2 texts in play and (>=2 calls on one store or a duplicate inside one call); "
                "batch: >=2 requests and (>=2 batches or a request that found the queue full and waited for "
                "_current_batch_submitted); distinct by hash of the Coq case term (cache) / of (max_batch_size, cache mode, label sequence) (batch)",
        "samples": [{k: v for k, v in s.items() if k != "dir" and not k.startswith("_")} for s in kept[:2]]
                   + [{"cfg": {"max": c["cfg"]["max"], "cache": (c["cfg"].get("cache") or {}).get("store")}, "texts": c["texts"],
                       "labels": [e["l"] for e in r["log"]]} for c, r in tkept[:2]],
        "input_distribution": {"cache_configs": dist, "trace": tdist, "corpus_cases": corpus_n,
                               "several_indexes_cases": {**mdist, "total": len(mterms),
                                                         "colliding_generator_cases_where_impl_and_model_both_return_a_foreign_vector": multi_shared_shown},
                               "realtime_unwrapped_runs": len(rts) - n_searches,
                               "concurrent_search_cases": {"total": n_searches, "distinct_with_a_repeated_text": search_overlap},
                               "colliding_generator_cases_where_impl_and_model_both_return_a_wrong_vector": collisions_shown},
        "traces_validated_against_impl": len(tterms),
        "trace_steps_replayed": trace_steps,
        "correspondence_disagreements": cache_dis + multi_dis + trace_dis,
        "oracle_violations": cache_viol + len(tviol),
        "anchor_ast_hashes": hashes,
        "amplified": amplified,
        "timings_s": {"cache": round(t_cache, 1), "batch": round(t_batch, 1)},
    })
    out.assumptions += [
        "several indexes in one process: the key generators in play are injective on (model identity, text) inside a store and the model identity (embedding_engine, embedding_model) determines the model (C19_cache_isolation; the (T) fact cache_key_includes_model is read from cache.py); indexes with different models sharing one cache_dir are checked by the oracle; the real keys are OBSERVED through a recording store (probe_keys), not recomputed",
        "key generator injective on the texts in play (shipped: str(hash(text)) and md5; C19_cache_collision_refuted shows the property fails otherwise; the harness checks injectivity of the real generators on every generated case through the key table)",
        "the embedding model is a function of each text alone (emb), returns one vector per text and does not raise; a raising model leaves the batch's requests waiting forever (observation, outside the statement)",
        "max_batch_size >= 1 (0 makes every request wait forever; C19_default_batch_size_positive for the shipped default)",
        "liveness under fairness only: every enabled step (timer expiry, model return, task step) eventually happens; real time not modelled",
        "cache stores are finite maps with get/set (in_memory: fresh per call as EmbeddingsCache.from_config builds it; filesystem: persistent; redis not available offline and not covered)",
        "asyncio internals (Task/Future wake-up, FIFO ready queue, the two helper tasks of asyncio.wait) are not modelled; the model admits every interleaving of enabled steps, the implementation is run under the real event loop",
        "trace inclusion is checked on schedules produced by the harness director (arrivals, ticks, timer expiry, model return in any order; in ~30% of the schedules the event loop's ready queue is additionally permuted at random points); snapshot of _req_queue/_req_results/_req_idx/finished-is-None/submitted at every step boundary",
    ]
    if tier == "thorough" and b["ok"]:
        ok, log = C.coqchk(PID, b["files"])
        out.coverage["coqchk"] = "ok" if ok else "FAILED"
        if not ok:
            out.add_broken("coqchk", log)
    return C.finish(out)


if __name__ == "__main__" and len(sys.argv) >= 4 and sys.argv[1] == "child":
    child_main(sys.argv[2], sys.argv[3])
    sys.exit(0)
