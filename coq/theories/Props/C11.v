(* C11 - a saved or aged conversation state continues exactly like the live one.
   Property theorems only; every proof is `exact <lemma>`; Print Assumptions beneath each.
   `flags_now`, `classes_now`, `cfg_now` are read from the CURRENT source by the translator
   (Gen/C11Consts.v): without the re.Pattern / non-str-key / Action branches in
   serialization.py, or with another removal condition in _clean_up_state, the theorems below
   fail to check.

   What is proved, what is not:
   * C11_total, C11_roundtrip: full strength for graphs of any size (decode_from_dict o
     encode_to_dict); callbacks (functools.partial) correspond to None at this level.
   * the re-creation of the head callbacks by json_to_state (second half of Serial.json_to_state)
     has its own theorem C11_callbacks_recreated (every head of every flow state gets two fresh
     partials bound to (state, its flow state); frame for the rest of the decoded heap); the two
     halves are not composed into one isomorphism statement for State-shaped graphs.
   * C11_cleanup_commutes_partial covers the resolution of the matcher index; the claim for the
     whole event loop ("same outgoing events") is validated by exploration (X2), not proved. *)
From Coq Require Import ZArith List String Bool.
From NG Require Import Gen.C11Consts V2.Serial V2.SerialRun V2.Serial_proofs V2.Serial_examples V2.Callbacks_proofs
                       V2.Cleanup V2.Cleanup_proofs V2.CleanupRun V2.Cleanup_now.
Import ListNotations.
Open Scope string_scope.
Open Scope Z_scope.

(* (T) the repaired branches are in the source *)
Theorem C11_fix_branches_in_source :
  fx_regex_src = true /\ fx_keys_src = true /\ fx_action_src = true.
Proof. exact (conj eq_refl (conj eq_refl eq_refl)). Qed.
Print Assumptions C11_fix_branches_in_source.

(* (T) shape of the source the model transcribes *)
Theorem C11_source_shape :
  enc_registers_after_children = true /\ dec_registers_after_children = true /\
  enc_branch_order = ["in:refs"; "list"; "str"; "int"; "float"; "None"; "functools.partial"; "dict"; "dataclass";
                      "RailsConfig"; "colang_ast_module.SpecType"; "Action"; "datetime"; "Enum"; "re.Pattern";
                      "deque"; "tuple"; "set"] /\
  dec_branch_order = ["ref"; "enum"; "RailsConfig"; "SpecType"; "Action"; "in:name_to_class"; "datetime"; "deque";
                      "tuple"; "re.Pattern"; "dict"; "set"] /\
  redo_callback_attrs = ["position_changed_callback"; "status_changed_callback"] /\
  redo_callback_target = ["partial(_flow_head_changed, state, flow_state)"] /\
  redo_loops = ["state.flow_states.items()"; "flow_state.heads.items()"] /\
  ctor_rejected_fields = [] /\ action_to_dict_keys = action_fields /\ action_is_dataclass = false /\
  late_tags_free classes_now.
Proof.
  exact (conj eq_refl (conj eq_refl (conj eq_refl (conj eq_refl (conj eq_refl (conj eq_refl (conj eq_refl
        (conj eq_refl (conj eq_refl (conj eq_refl late_tags_free_now)))))))))).
Qed.
Print Assumptions C11_source_shape.

(* the encoder succeeds on every supported graph of depth below the recursion limit *)
Theorem C11_total :
  forall h r rk limit,
    supported flags_now classes_now h r = true -> acyclic h rk -> (rank_of rk r < limit)%nat ->
    exists j, encode flags_now limit h r = Some j.
Proof. exact (fun h r rk limit => encode_total flags_now classes_now h r rk limit eq_refl). Qed.
Print Assumptions C11_total.

(* ... and decoding its output yields the same graph up to a renaming of object identities
   that is one-to-one on every object except lists (which are copied, see
   C11_shared_list_refuted): sharing is preserved *)
Theorem C11_roundtrip :
  forall h r rk limit,
    supported flags_now classes_now h r = true -> acyclic h rk -> (rank_of rk r < limit)%nat ->
    exists j h' r' M,
      encode flags_now limit h r = Some j /\ decode flags_now classes_now limit j = Some (h', r') /\
      bisim true h r h' r' M /\ sharing_preserved h M.
Proof. exact (fun h r rk limit => roundtrip_graph flags_now classes_now h r rk limit eq_refl late_tags_free_now). Qed.
Print Assumptions C11_roundtrip.

(* the hypotheses are inhabited by a state with a shared Action, a set, a regex, an int-keyed dict *)
Theorem C11_roundtrip_inhabited :
  supported flags_fixed classes_now h_state (VO 0) = true /\ acyclic h_state rk_state /\
  (rank_of rk_state (VO 0%Z) < 50)%nat.
Proof. exact (conj state_supported (conj state_acyclic state_rank)). Qed.
Print Assumptions C11_roundtrip_inhabited.

(* json_to_state, second half: on the decoded heap, every head reached through
   state.flow_states[*].heads[*] gets both callback attributes bound to a fresh
   partial(_flow_head_changed, state, <its own flow state>), its other attributes and every
   other object of the heap are unchanged *)
Theorem C11_callbacks_recreated :
  forall h n state W,
    collect_heads h state = Some W -> below h n -> heads_ok h W ->
    exists h' n',
      redo_callbacks h n state = Some (h', n') /\ below h' n' /\
      (forall fs x, In (fs, VO x) W ->
         exists c fl ks0 ks p q a b,
           lookup h x = Some (mk (HData c fl) ks0) /\ lookup h' x = Some (mk (HData c fl) ks) /\
           index_of pos_f fl = Some p /\ index_of stat_f fl = Some q /\
           nth_error ks p = Some (VO a) /\ nth_error ks q = Some (VO b) /\ a <> b /\ n <= a /\ n <= b /\
           lookup h' a = Some (partial_node state fs) /\ lookup h' b = Some (partial_node state fs) /\
           (forall m, m <> p -> m <> q -> nth_error ks m = nth_error ks0 m)) /\
      (forall j, j < n -> (forall fs, ~ In (fs, VO j) W) -> lookup h' j = lookup h j).
Proof. exact redo_callbacks_spec. Qed.
Print Assumptions C11_callbacks_recreated.

Theorem C11_callbacks_inhabited :
  collect_heads ex_cb_heap (VO 0) = Some [(VO 2, VO 6); (VO 2, VO 7); (VO 3, VO 8)].
Proof. exact ex_cb_collect. Qed.
Print Assumptions C11_callbacks_inhabited.

(* DESIGN section 5, F7: on the UNREPAIRED encoder a re.Pattern in a flow variable - a reachable
   value: `$r = regex("a")` - makes state_to_json raise at every recursion limit *)
Theorem C11_regex_refuted : forall limit, encode flags_orig limit h_regex (VO 0) = None.
Proof. exact regex_refuted. Qed.
Print Assumptions C11_regex_refuted.

(* ... a dict with a non-string key comes back with another key type *)
Theorem C11_nonstr_keys_refuted :
  exists j h' r',
    encode flags_orig 5 h_intkey (VO 0) = Some j /\ decode flags_orig classes_now 5 j = Some (h', r') /\
    ~ exists M, bisim false h_intkey (VO 0) h' r' M.
Proof. exact intkey_refuted. Qed.
Print Assumptions C11_nonstr_keys_refuted.

(* ... a pending Action whose arguments hold a set makes state_to_json raise *)
Theorem C11_action_args_refuted : forall limit, encode flags_orig limit h_action (VO 0) = None.
Proof. exact action_args_refuted. Qed.
Print Assumptions C11_action_args_refuted.

(* not repaired (recorded as known findings): a cyclic reference is a RecursionError at every
   limit; a list referenced twice is restored as two lists *)
Theorem C11_cyclic_refuted : forall fl limit, encode fl limit h_cyclic (VO 0) = None.
Proof. exact cyclic_refuted. Qed.
Print Assumptions C11_cyclic_refuted.

Theorem C11_shared_list_refuted :
  exists j h' r',
    encode flags_fixed 5 h_shared_list (VO 0) = Some j /\ decode flags_fixed classes_now 5 j = Some (h', r') /\
    ~ exists M, bisim false h_shared_list (VO 0) h' r' M /\ functional M.
Proof. exact shared_list_refuted. Qed.
Print Assumptions C11_shared_list_refuted.

(* ---------------------------------------------------------------------------------- *)
(* clean-up *)

(* (T) it runs once, before the processing loop of run_to_completion; the action table is
   rebuilt from the action_uids of the remaining flow states (the rule the model transcribes) *)
Theorem C11_cleanup_position_in_source :
  cleanup_before_loop = true /\ cleanup_actions_by_reference = true.
Proof. exact (conj eq_refl eq_refl). Qed.
Print Assumptions C11_cleanup_position_in_source.

(* it removes only instances that are FINISHED/STOPPED, not activated and strictly older than
   the age, and only actions that no remaining instance references *)
Theorem C11_cleanup_only_done :
  forall now s s',
    NoDup (map fst (flows s)) -> cleanup_now now s = Some s' ->
    (forall u i, slook (flows s) u = Some i -> slook (flows s') u = None ->
       (i_status i = "FINISHED" \/ i_status i = "STOPPED") /\ i_activated i = 0 /\
       cleanup_age_s * 1000000 < now - i_updated i) /\
    (forall a x, slook (actions s) a = Some x -> slook (actions s') a = None ->
       forall u i, In (u, i) (flows s') -> ~ In a (i_actions i)).
Proof. exact only_done_now. Qed.
Print Assumptions C11_cleanup_only_done.

(* whole-state frame: the opaque rest of the state, every surviving instance (all fields except
   the cleared scores and the pruned children), every surviving action, the per-flow lists *)
Theorem C11_cleanup_frame :
  forall now s s',
    NoDup (map fst (flows s)) -> cleanup_now now s = Some s' ->
    s_rest s' = s_rest s /\
    (forall u i, slook (flows s) u = Some i -> removable cfg_now now i = false ->
       exists i', slook (flows s') u = Some i' /\ frame_rel (fun x => slook (flows s') x = None) i i') /\
    (forall u i', slook (flows s') u = Some i' ->
       exists i, slook (flows s) u = Some i /\ removable cfg_now now i = false) /\
    (forall a x, slook (actions s') a = Some x -> slook (actions s) a = Some x) /\
    (forall u i a, In (u, i) (flows s') -> In a (i_actions i) -> slook (actions s') a <> None) /\
    (forall f l', slook (by_flow s') f = Some l' ->
       exists l, slook (by_flow s) f = Some l /\ (forall x, In x l' -> In x l) /\
                 (forall x, In x l -> ~ In x l' -> slook (flows s') x = None)) /\
    (forall f l, slook (by_flow s) f = Some l -> exists l', slook (by_flow s') f = Some l').
Proof. exact (cleanup_frame cfg_now). Qed.
Print Assumptions C11_cleanup_frame.

Theorem C11_cleanup_idempotent :
  forall now s s', NoDup (map fst (flows s)) -> cleanup_now now s = Some s' -> cleanup_now now s' = Some s'.
Proof. exact (cleanup_idempotent cfg_now). Qed.
Print Assumptions C11_cleanup_idempotent.

(* PARTIAL (the modelled part of event dispatch): if the matcher index lists only heads of
   instances that are not done, every index entry resolves after the clean-up to the same head
   of the same instance (changed only as the frame allows) - no lookup of the dispatch reaches a
   removed instance.  The full claim (same outgoing events for every continuation and every
   clock advance) is validated by exploration on the real interpreter. *)
Theorem C11_cleanup_commutes_partial :
  forall now s s' (ix : index),
    NoDup (map fst (flows s)) -> cleanup_now now s = Some s' ->
    (forall name es e, slook ix name = Some es -> In e es ->
       exists i, slook (flows s) (fst e) = Some i /\ is_done cfg_now i = false /\ slook (i_heads i) (snd e) <> None) ->
    forall name,
      Forall2 (fun a b => exists fu hu i i', a = Some (fu, hu, i) /\ b = Some (fu, hu, i') /\
                                             frame_rel (fun x => slook (flows s') x = None) i i')
              (candidates ix s name) (candidates ix s' name).
Proof. exact candidates_now. Qed.
Print Assumptions C11_cleanup_commutes_partial.

Theorem C11_cleanup_inhabited :
  exists s', cleanup_now 10000000 ex_state = Some s' /\ slook (flows s') "a1" = None /\
             slook (flows s') "b1" <> None /\ slook (actions s') "act2" = None.
Proof. exact cleanup_now_example. Qed.
Print Assumptions C11_cleanup_inhabited.
