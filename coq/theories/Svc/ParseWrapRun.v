(* C13 - executable instance of the wrapper model for the correspondence check: the except
   clauses and formatter shape of the CURRENT source (Gen/C13Consts.v), and the comparison
   with what the real loaders did with an injected exception object. *)
From Coq Require Import ZArith List String Bool.
From NG Require Import Gen.C13Consts Svc.ParseWrap.
Import ListNotations.
Open Scope string_scope.

(* what the harness observed on the implementation *)
Inductive observed :=
| XOk
| XParsingError (msg : string)   (* ColangParsingError with this str() *)
| XEscape (cls : string).        (* any other exception: its class name *)

Record wcase := {
  w_content_entry : bool;        (* true: RailsConfig.from_content; false: from_path *)
  w_path : string;               (* the path of the .co file (ignored for from_content) *)
  w_version : string;
  w_outcome : outcome;
  w_lines : list string;         (* content.splitlines() as computed by Python *)
  w_observed : observed
}.

Definition pyerr_name (k : pyerr) : string :=
  match k with AttributeError => "AttributeError" | TypeError => "TypeError" | IndexError => "IndexError" end.

Definition model_of (c : wcase) : load_res :=
  if w_content_entry c
  then wrap handlers_content_now fmt_now content_file_name (w_version c) (w_outcome c) (w_lines c)
  else wrap handlers_path_now fmt_now (w_path c) (w_version c) (w_outcome c) (w_lines c).

Definition check_wrap (c : wcase) : bool :=
  match model_of c, w_observed c with
  | LOk, XOk => true
  | LParsingError m, XParsingError m' => String.eqb m m'
  | LEscape (EscPy k), XEscape n => String.eqb (pyerr_name k) n
  | LEscape EscOriginal, XEscape n =>
      match w_outcome c with PRaise e => String.eqb n (hd "" (e_isa e)) | POk => false end
  | LEscape (EscClass cls), XEscape n => String.eqb cls n
  | _, _ => false
  end.
