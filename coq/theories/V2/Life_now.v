(* V2/Life_now.v - the EndScope model instantiated with what the translator read from the
   CURRENT source (Gen/LifeConsts.v): `scope_release_shared` = the EndScope case makes the flow
   give up its share of an action that other flows still use.  `release_in_source` is a proof
   obligation: it fails to check on a tree without the release. *)
From Coq Require Import ZArith NArith List Bool.
From NG Require Import Gen.LifeConsts V2.Life V2.Life_proofs V2.Life_scope V2.Life_count V2.Life_activation V2.Life_cleanup.
Import ListNotations.
Open Scope N_scope.

Definition end_scope_now : nat -> st -> uid -> N -> res st := end_scope scope_release_shared.

Lemma source_shape : stop_guards_checked = true /\ scope_release_shared = true.
Proof. split; reflexivity. Qed.

(* the clean-up of the current source never discards the parent of a running or activated instance *)
Lemma cleanup_shape : cleanup_keeps_needed_parents = true.
Proof. reflexivity. Qed.

(* runs of the modelled operations incl. the clean-up AS IN THE CURRENT SOURCE keep the invariants *)
Theorem brun_now_inv : forall rel fuel l s s',
  Inv s -> famk s -> brun cleanup_keeps_needed_parents rel fuel l s = Ok s' ->
  boks cleanup_keeps_needed_parents rel fuel l s -> Inv s' /\ famk s'.
Proof. rewrite cleanup_shape. exact brun_inv_fam. Qed.

Lemma end_scope_now_true : end_scope_now = end_scope true.
Proof. unfold end_scope_now. destruct source_shape as (_ & ->). reflexivity. Qed.

Definition scope_end_statement : Prop :=
  forall rk n s f name s' i fl al rest,
    ranked rk s -> getf s f = Some i -> pop_scope name (i_scopes i) = Some ((fl, al), rest) ->
    end_scope_now n s f name = Ok s' ->
    (* the flows registered in the scope are stopped *)
    (forall c, In c fl -> lst s' c = false) /\
    (* Stop accounting, only for actions of the scope or of the stopped flows *)
    stops_spec (scope_actions_region s fl al) s s' /\
    (* every unfinished action of the scope gives up one share *)
    (forall a c, In a al -> geta s a = Some c -> active (a_status c) = true ->
       exists c', geta s' a = Some c' /\ (a_count c' < a_count c)%Z) /\
    (* and a shared one that keeps running is no longer held by f: no second release *)
    (NoDup (i_actions i) ->
     forall a c', In a al -> geta s' a = Some c' -> active (a_status c') = true -> ~ held s' f a) /\
    (* frame *)
    (forall a, ~ scope_actions_region s fl al a -> geta s' a = geta s a) /\
    (forall x, ~ scope_region s fl x ->
       match getf s x, getf s' x with
       | None, None => True
       | Some xi, Some xi' =>
           i_flow xi' = i_flow xi /\ i_status xi' = i_status xi /\ i_parent xi' = i_parent xi /\
           i_activated xi' = i_activated xi /\ i_nis xi' = i_nis xi /\
           (forall c, In c (i_children xi') -> In c (i_children xi)) /\
           (forall c, ~ scope_region s fl c ->
              count_occ N.eq_dec (i_children xi') c = count_occ N.eq_dec (i_children xi) c) /\
           (x <> f -> i_actions xi' = i_actions xi /\ i_scopes xi' = i_scopes xi)
       | _, _ => False
       end).

Theorem scope_end_now : scope_end_statement.
Proof.
  unfold scope_end_statement. rewrite end_scope_now_true.
  intros rk n s f name s' i fl al rest Hr E Hpop H.
  destruct (end_scope_spec rk true n s f name s' i fl al rest Hr E Hpop H) as (H1 & H2 & H3 & H4 & H5).
  repeat match goal with |- _ /\ _ => split end; auto.
  intros Hnd. eapply end_scope_releases; eauto.
Qed.
