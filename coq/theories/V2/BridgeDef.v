(* C11 - bridge between the two models (definitions): the abstraction `alpha` of a State object
   graph (V2/Serial.v) to the abstract interpreter state of V2/Cleanup.v.  It reads exactly what
   the harness's abstraction of real states reads: flow_states (flow_id, _status, status_updated,
   activated, parent_uid, child_flow_uids, action_uids, the matching scores of the heads, the
   flow lists of the scopes), flow_id_states, and the keys of actions. *)
From Coq Require Import ZArith List String Bool.
From NG Require Import V2.Serial V2.Cleanup.
Import ListNotations.
Open Scope string_scope.
Open Scope Z_scope.

Definition obind {A B} (o : option A) (f : A -> option B) : option B :=
  match o with Some x => f x | None => None end.
Notation "x <- o ;; k" := (obind o (fun x => k)) (at level 61, o at next level, right associativity).

Section Alpha.
  Variable ts : string -> Z.        (* datetime.isoformat() -> clock ticks: oracle *)

  Definition get_str (v : val) : option string := match v with VP (PStr s) => Some s | _ => None end.
  Definition get_opt_str (v : val) : option (option string) :=
    match v with VP (PStr s) => Some (Some s) | VP PNone => Some None | _ => None end.
  Definition get_int (v : val) : option Z :=
    match v with VP (PInt z) => Some z | VP (PBool true) => Some 1 | VP (PBool false) => Some 0 | _ => None end.
  Definition get_num (v : val) : option Z :=
    match v with VP (PFloat f) => Some f | VP (PInt z) => Some z | _ => None end.

  Definition list_vals (h : heap) (v : val) : option (list val) :=
    match v with VO i => match lookup h i with Some (mk HList ks) => Some ks | _ => None end | _ => None end.
  Definition tuple_vals (h : heap) (v : val) : option (list val) :=
    match v with VO i => match lookup h i with Some (mk HTuple ks) => Some ks | _ => None end | _ => None end.
  Definition enum_member (h : heap) (v : val) : option string :=
    match v with VO i => match lookup h i with Some (mk (HEnum _ m) _) => Some m | _ => None end | _ => None end.
  Definition datetime_of (h : heap) (v : val) : option Z :=
    match v with VO i => match lookup h i with Some (mk (HDatetime iso) _) => Some (ts iso) | _ => None end | _ => None end.
  Definition key_str_only (k : key) : option string := match k with KS s => Some s | _ => None end.
  Definition dict_items (h : heap) (v : val) : option (list (string * val)) :=
    match v with
    | VO i => match lookup h i with
              | Some (mk (HDict ks) vs) => ss <- map_opt key_str_only ks ;; Some (combine ss vs)
              | _ => None
              end
    | _ => None
    end.

  Definition str_list (h : heap) (v : val) : option (list string) := ks <- list_vals h v ;; map_opt get_str ks.
  Definition num_list (h : heap) (v : val) : option (list Z) := ks <- list_vals h v ;; map_opt get_num ks.

  Definition head_abs (h : heap) (kv : string * val) : option (string * list Z) :=
    ms <- field h (snd kv) "matching_scores" ;; sc <- num_list h ms ;; Some (fst kv, sc).

  Definition scope_abs (h : heap) (kv : string * val) : option (string * list string) :=
    tv <- tuple_vals h (snd kv) ;;
    match tv with
    | [fl; _] => l <- str_list h fl ;; Some (fst kv, l)
    | _ => None
    end.

  Definition inst_abs (h : heap) (fs : val) : option inst :=
    fid <- obind (field h fs "flow_id") get_str ;;
    st <- obind (field h fs "_status") (enum_member h) ;;
    upd <- obind (field h fs "status_updated") (datetime_of h) ;;
    act <- obind (field h fs "activated") get_int ;;
    par <- obind (field h fs "parent_uid") get_opt_str ;;
    ch <- obind (field h fs "child_flow_uids") (str_list h) ;;
    acts <- obind (field h fs "action_uids") (str_list h) ;;
    hs <- obind (obind (field h fs "heads") (dict_items h)) (map_opt (head_abs h)) ;;
    sc <- obind (obind (field h fs "scopes") (dict_items h)) (map_opt (scope_abs h)) ;;
    Some (mkInst fid st upd act par ch acts hs sc 0).

  Definition flow_entry (h : heap) (kv : string * val) : option (string * inst) :=
    i <- inst_abs h (snd kv) ;; Some (fst kv, i).

  Definition by_flow_entry (h : heap) (kv : string * val) : option (string * list string) :=
    l <- list_vals h (snd kv) ;;
    us <- map_opt (fun f => obind (field h f "uid") get_str) l ;; Some (fst kv, us).

  (* the abstract state of a State object; actions are opaque (0) *)
  Definition alpha (h : heap) (st : val) : option state :=
    fl <- obind (obind (field h st "flow_states") (dict_items h)) (map_opt (flow_entry h)) ;;
    bf <- obind (obind (field h st "flow_id_states") (dict_items h)) (map_opt (by_flow_entry h)) ;;
    ai <- obind (field h st "actions") (dict_items h) ;;
    Some (mkState fl bf (map (fun kv => (fst kv, 0)) ai) 0).

End Alpha.
