(* C11 - executable instance of the bridge for the correspondence: `alpha` evaluated on the
   rendering of a real State object against the harness's own abstraction of the same real state
   (clock oracle: every timestamp = 0 on both sides; actions opaque = 0). *)
From Coq Require Import ZArith List String Bool.
From NG Require Import V2.Serial V2.Cleanup V2.BridgeDef V2.CleanupRun.
Import ListNotations.
Open Scope string_scope.
Open Scope Z_scope.

Definition ts0 : string -> Z := fun _ => 0.

Definition check_alpha (c : heap * val * state) : bool :=
  let '(h, r, expected) := c in
  match alpha ts0 h r with Some a => state_eqb a expected | None => false end.

(* ... and the reference closure holds for what alpha reads *)
Definition check_alpha_refs (c : heap * val * state) : bool :=
  let '(h, r, expected) := c in
  match alpha ts0 h r with Some a => refs_okb a | None => false end.
