(* V1.Code_proofs - facts about Structured.compile (sizes, unfolding of the nested fixpoints),
   code fragments inside a flat element list (`code_at`), and the relation `kmatch` between a
   SOURCE continuation and a position in the compiled code (the classical compiler-correctness
   set-up: code pointers versus continuations). *)
From Coq Require Import ZArith List String Bool Lia.
From NG Require Import V1.Expr V1.Elems V1.Slide V1.Interp V1.Structured.
Import ListNotations.
Open Scope list_scope.
Open Scope Z_scope.

(* ------------------------------------------------------------------ induction on statements *)
Section stmt_ind'.
  Variable P : stmt -> Prop.
  Hypothesis HUser : forall i, P (SUser i).
  Hypothesis HBot : forall i, P (SBot i).
  Hypothesis HExec : forall a p k, P (SExec a p k).
  Hypothesis HSet : forall k e, P (SSet k e).
  Hypothesis HIf : forall c t e, Forall P t -> Forall P e -> P (SIf c t e).
  Hypothesis HWhile : forall c b, Forall P b -> P (SWhile c b).
  Hypothesis HBreak : P SBreak.
  Hypothesis HContinue : P SContinue.
  Hypothesis HDo : forall f, P (SDo f).

  Fixpoint stmt_ind' (s : stmt) : P s :=
    let go := fix go (l : list stmt) : Forall P l :=
                match l with
                | [] => Forall_nil _
                | x :: r => Forall_cons _ (stmt_ind' x) (go r)
                end in
    match s with
    | SUser i => HUser i
    | SBot i => HBot i
    | SExec a p k => HExec a p k
    | SSet k e => HSet k e
    | SIf c t e => HIf c t e (go t) (go e)
    | SWhile c b => HWhile c b (go b)
    | SBreak => HBreak
    | SContinue => HContinue
    | SDo f => HDo f
    end.
End stmt_ind'.

(* ------------------------------------------------------------------ unfolding *)

Lemma size_if : forall c t e,
  size (SIf c t e) = 1 + bsize t + match e with [] => 0 | _ => 1 + bsize e end.
Proof. reflexivity. Qed.

Lemma size_while : forall c b, size (SWhile c b) = 2 + bsize b.
Proof. reflexivity. Qed.

Lemma compile_if : forall d c t e,
  compile d (SIf c t e) =
  match e with
  | [] => LIf c (bsize t + 1) :: compile_block (shift d 1) t
  | _ => LIf c (bsize t + 2) :: compile_block (shift d 1) t
         ++ LJump (bsize e + 1) false None :: compile_block (shift d (bsize t + 2)) e
  end.
Proof. reflexivity. Qed.

Lemma compile_while : forall d c b,
  compile d (SWhile c b) =
  LWhile c 1 (bsize b + 2) :: compile_block (Some (bsize b + 1, -1)) b ++ [LJump (- (bsize b + 1)) false None].
Proof. reflexivity. Qed.

Lemma size_pos : forall s, 1 <= size s.
Proof.
  induction s using stmt_ind'; try (simpl; lia).
  - rewrite size_if.
    assert (Ht : 0 <= bsize t) by (clear - H; induction H; simpl; lia).
    assert (He : 0 <= bsize e) by (clear - H0; induction H0; simpl; lia).
    destruct e; lia.
  - rewrite size_while.
    assert (Hb : 0 <= bsize b) by (clear - H; induction H; simpl; lia). lia.
Qed.

Lemma bsize_nonneg : forall l, 0 <= bsize l.
Proof. induction l; simpl; [lia|]. pose proof (size_pos a). lia. Qed.

Lemma bsize_app : forall a b, bsize (a ++ b) = bsize a + bsize b.
Proof. induction a; intros; simpl; [lia|]. rewrite IHa. lia. Qed.

Definition zlen {A} (l : list A) : Z := Z.of_nat (List.length l).

Lemma zlen_app : forall {A} (a b : list A), zlen (a ++ b) = zlen a + zlen b.
Proof. intros; unfold zlen; rewrite app_length; lia. Qed.

Lemma zlen_cons : forall {A} (x : A) l, zlen (x :: l) = 1 + zlen l.
Proof. intros; unfold zlen; cbn [List.length]; lia. Qed.

Lemma zlen_nonneg : forall {A} (l : list A), 0 <= zlen l.
Proof. intros; unfold zlen; lia. Qed.

Lemma compile_length : forall s d, zlen (compile d s) = size s.
Proof.
  induction s using stmt_ind'; intros d; try reflexivity.
  - rewrite compile_if, size_if.
    assert (Ht : forall d, zlen (compile_block d t) = bsize t).
    { clear - H. induction H; intros d; simpl; [reflexivity|]. rewrite zlen_app, H, IHForall. reflexivity. }
    assert (He : forall d, zlen (compile_block d e) = bsize e).
    { clear - H0. induction H0; intros d; simpl; [reflexivity|]. rewrite zlen_app, H, IHForall. reflexivity. }
    destruct e.
    + rewrite zlen_cons, Ht. lia.
    + rewrite zlen_cons, zlen_app, zlen_cons, Ht, He. lia.
  - rewrite compile_while, size_while.
    assert (Hb : forall d, zlen (compile_block d b) = bsize b).
    { clear - H. induction H; intros d; simpl; [reflexivity|]. rewrite zlen_app, H, IHForall. reflexivity. }
    rewrite zlen_cons, zlen_app, Hb. change (zlen [LJump (- (bsize b + 1)) false None]) with 1. lia.
Qed.

Lemma compile_block_length : forall l d, zlen (compile_block d l) = bsize l.
Proof.
  induction l; intros d; simpl; [reflexivity|]. rewrite zlen_app, compile_length, IHl. reflexivity.
Qed.

(* ------------------------------------------------------------------ code fragments *)

Definition code_at (C : list elem) (pc : Z) (frag : list elem) : Prop :=
  exists C1 C2, C = C1 ++ frag ++ C2 /\ zlen C1 = pc.

Definition instr (C : list elem) (pc : Z) : option elem :=
  if pc <? 0 then None else nth_error C (Z.to_nat pc).

Lemma code_at_nil : forall C pc, 0 <= pc <= zlen C -> code_at C pc [].
Proof.
  intros C pc H. exists (firstn (Z.to_nat pc) C), (skipn (Z.to_nat pc) C). split.
  - simpl. symmetry. apply firstn_skipn.
  - unfold zlen in *. rewrite firstn_length. lia.
Qed.

Lemma code_at_app_l : forall C pc a b, code_at C pc (a ++ b) -> code_at C pc a.
Proof.
  intros C pc a b (C1 & C2 & HC & Hl). exists C1, (b ++ C2). split; [|exact Hl].
  rewrite HC, <- app_assoc. reflexivity.
Qed.

Lemma code_at_app_r : forall C pc a b, code_at C pc (a ++ b) -> code_at C (pc + zlen a) b.
Proof.
  intros C pc a b (C1 & C2 & HC & Hl). exists (C1 ++ a), C2. split.
  - rewrite HC, <- !app_assoc. reflexivity.
  - rewrite zlen_app. lia.
Qed.

Lemma code_at_head : forall C pc x l, code_at C pc (x :: l) -> instr C pc = Some x.
Proof.
  intros C pc x l (C1 & C2 & HC & Hl). unfold instr.
  pose proof (zlen_nonneg C1). destruct (pc <? 0) eqn:E; [lia|].
  subst C. unfold zlen in Hl. replace (Z.to_nat pc) with (List.length C1 + 0)%nat by lia.
  rewrite nth_error_app2 by lia. replace (List.length C1 + 0 - List.length C1)%nat with 0%nat by lia.
  reflexivity.
Qed.

Lemma code_at_tail : forall C pc x l, code_at C pc (x :: l) -> code_at C (pc + 1) l.
Proof.
  intros C pc x l H. change (x :: l) with ([x] ++ l) in H.
  apply code_at_app_r in H. exact H.
Qed.

Lemma code_at_range : forall C pc frag, code_at C pc frag -> 0 <= pc /\ pc + zlen frag <= zlen C.
Proof.
  intros C pc frag (C1 & C2 & HC & Hl). subst C. rewrite !zlen_app.
  pose proof (zlen_nonneg C1). pose proof (zlen_nonneg C2). lia.
Qed.

Lemma code_at_whole : forall C, code_at C 0 C.
Proof. intros C. exists [], []. split; [rewrite app_nil_r; reflexivity|reflexivity]. Qed.

Lemma instr_pyidx : forall C pc el, 0 <= pc -> instr C pc = Some el -> pyidx C pc = Some el.
Proof.
  intros C pc el Hpc H. unfold instr in H. unfold pyidx.
  destruct (pc <? 0) eqn:E; [lia|].
  assert (Hlt : (Z.to_nat pc < List.length C)%nat) by (apply nth_error_Some; congruence).
  destruct ((pc <? 0) || (Z.of_nat (Datatypes.length C) <=? pc)) eqn:E2.
  - apply orb_true_iff in E2. destruct E2; lia.
  - exact H.
Qed.

Lemma instr_lt : forall C pc el, instr C pc = Some el -> 0 <= pc < zlen C.
Proof.
  intros C pc el H. unfold instr in H. destruct (pc <? 0) eqn:E; [discriminate|].
  assert (Hlt : (Z.to_nat pc < List.length C)%nat) by (apply nth_error_Some; congruence).
  unfold zlen. lia.
Qed.

(* ------------------------------------------------------------------ continuations vs positions *)

(* the loop context at position pc, from the absolute positions (w, x) of the enclosing
   `while` element and of the element after its closing jump *)
Definition rel (lp : option (Z * Z)) (pc : Z) : lctx :=
  match lp with Some (w, x) => Some (x - pc, w - pc) | None => None end.

Lemma shift_rel : forall lp pc n, shift (rel lp pc) n = rel lp (pc + n).
Proof. intros [[w x]|] pc n; simpl; [f_equal; f_equal; lia|reflexivity]. Qed.

Definition inl (lp : option (Z * Z)) : bool := match lp with Some _ => true | None => false end.

Inductive kmatch (C : list elem) : kont -> Z -> option (Z * Z) -> Prop :=
| km_done : forall pc, pc = zlen C -> kmatch C KDone pc None
| km_seq : forall rest k pc lp,
    code_at C pc (compile_block (rel lp pc) rest) ->
    wf_block (inl lp) rest = true ->
    kmatch C k (pc + bsize rest) lp ->
    kmatch C (KSeq rest k) pc lp
| km_loop : forall c body k pc w x lp',
    code_at C w (compile None (SWhile c body)) ->
    wf_block true body = true ->
    pc = w + 1 + bsize body ->
    x = pc + 1 ->
    kmatch C k x lp' ->
    kmatch C (KLoop c body k) pc (Some (w, x))
| km_jump : forall k pc d lp,
    instr C pc = Some (LJump d false None) ->
    kmatch C k (pc + d) lp ->
    kmatch C k pc lp.

Lemma kmatch_unwind : forall C k pc lp,
  kmatch C k pc lp ->
  match lp with
  | Some (w, x) => exists c body k' lp', unwind k = Some (c, body, k') /\ kmatch C k' x lp' /\
                                         code_at C w (compile None (SWhile c body)) /\
                                         wf_block true body = true /\ x = w + 2 + bsize body
  | None => unwind k = None
  end.
Proof.
  induction 1; simpl; auto.
  - exists c, body, k, lp'. repeat split; auto. lia.
Qed.

Lemma kmatch_range : forall C k pc lp, kmatch C k pc lp -> 0 <= pc <= zlen C.
Proof.
  induction 1.
  - subst. pose proof (zlen_nonneg C). lia.
  - apply code_at_range in H. pose proof (zlen_nonneg (compile_block (rel lp pc) rest)). lia.
  - apply code_at_range in H. rewrite compile_length, size_while in H.
    pose proof (bsize_nonneg body). lia.
  - apply instr_lt in H. lia.
Qed.

(* compile of a `while` does not depend on the enclosing loop context *)
Lemma compile_while_indep : forall d d' c b, compile d (SWhile c b) = compile d' (SWhile c b).
Proof. reflexivity. Qed.

(* the elements a flow blocks on *)
Definition elem_of_wait (w : wait) : elem :=
  match w with
  | WUser i => LUser i
  | WBot i => LRun "utter" i "" None
  | WExec a p k => LRun a "" p k
  end.

Definition wf_wait (w : wait) : Prop :=
  match w with WExec a _ _ => String.eqb a "utter" = false | _ => True end.

Lemma is_match_wait : forall w ev, wf_wait w -> is_match (elem_of_wait w) ev = wait_match w ev.
Proof.
  intros [i|i|a p k] ev Hw; destruct ev; unfold is_match, elem_of_wait, wait_match, wf_wait in *;
    try reflexivity;
    try (destruct success; cbn [negb]; try reflexivity);
    try (destruct (String.eqb typ "UtteranceUserActionFinished" || String.eqb typ "StartUtteranceBotAction"); reflexivity).
  - apply String.eqb_sym.
  - rewrite Hw. reflexivity.
Qed.

Lemma is_actionable_wait : forall w, wf_wait w -> is_actionable (elem_of_wait w) = actionable w.
Proof.
  intros [i|i|a p k] Hw; simpl in *; try reflexivity. rewrite Hw. reflexivity.
Qed.

Lemma step_of_wait_ok : forall w, wf_wait w -> actionable w = true ->
  step_to_event (elem_of_wait w) = Ok (step_of_wait w).
Proof.
  intros [i|i|a p k] Hw Ha; simpl in *; try discriminate; try reflexivity.
  rewrite Hw. reflexivity.
Qed.
