(* V1.Elems - flat flow elements exactly as coyml_parser.parse_flow_elements emits them and
   RuntimeV1_0._load_flow_config stores them in FlowConfig.elements, the FlowConfig record, the
   events of a history and the next-step events compute_next_steps returns.

   Offsets are Z ("lands outside" is expressible).  Only the keys the interpreter reads are
   kept (the harness prints elements from the real parser's output, fail-closed):
     UserIntent   intent_name
     run_action   action_name, action_params["value"] (read for `utter` only), the whole
                  action_params rendered canonically (opaque, only returned), action_result_key
     <event type> any other `_type`: matched generically by type and non-private properties
     set          key, expression, _next (default 1)
     if           expression, _next_else
     while        expression, _next (default 1), _next_on_break
     jump         _next, _absolute, _label (labels are jumps with _next = 1)
     break        _next_on_break (default 1)      continue   _next_on_continue (default 1)
     check        expression, _next (default 1)   stop
     flow         flow_name                       branch     branch_heads
     meta         (only ever first; removed by _load_flow_config; kept for completeness)
   `_next_on_break/_next_on_continue` decorations on other element kinds are ignored by
   slide() and are not represented. *)
From Coq Require Import ZArith QArith List String Bool.
From NG Require Import Gen.C14Consts V1.Expr.
Import ListNotations.
Open Scope Z_scope.

Inductive elem :=
| LUser (intent : string)
| LRun (action_name : string) (value : string) (params : string) (result_key : option string)
| LEvent (typ : string) (props : list (string * value))
| LSet (key : string) (e : expr) (next : Z)
| LIf (e : expr) (next_else : Z)
| LWhile (e : expr) (next : Z) (next_on_break : Z)
| LJump (next : Z) (absolute : bool) (label : option string)
| LBreak (next_on_break : Z)
| LContinue (next_on_continue : Z)
| LCheck (e : expr) (next : Z)
| LStop
| LFlow (flow_name : string)
| LBranch (heads : list Z)
| LMeta.

Record flow_config := {
  fc_id : string;
  fc_elems : list elem;
  fc_priority : Q;
  fc_extension : bool;
  fc_interruptible : bool;
  fc_subflow : bool;
  fc_multiple : bool;
  fc_triggers : list string;      (* trigger_event_types *)
}.

(* flow_configs: a Python dict in insertion order *)
Definition configs := list flow_config.

Fixpoint find_config (cs : configs) (id : string) : option flow_config :=
  match cs with
  | [] => None
  | c :: rest => if String.eqb (fc_id c) id then Some c else find_config rest id
  end.

(* events of a history *)
Inductive event :=
| EvUser (intent : string)                         (* UserIntent *)
| EvBot (intent : string)                          (* BotIntent *)
| EvActFin (action_name : string) (success : bool) (* InternalSystemActionFinished, status == "success" *)
| EvStartAct                                       (* StartInternalSystemAction *)
| EvCtx (data : list (string * value))             (* ContextUpdate *)
| EvHide                                           (* hide_prev_turn *)
| EvOther (typ : string) (props : list (string * value)).  (* any other type *)

Open Scope string_scope.
Definition event_type (e : event) : string :=
  match e with
  | EvUser _ => "UserIntent"
  | EvBot _ => "BotIntent"
  | EvActFin _ _ => "InternalSystemActionFinished"
  | EvStartAct => "StartInternalSystemAction"
  | EvCtx _ => "ContextUpdate"
  | EvHide => "hide_prev_turn"
  | EvOther t _ => t
  end.

(* FlowConfig.trigger_event_types default, as read from the current source *)
Definition default_triggers : list string := default_trigger_types.

(* what compute_next_steps returns (uids / timestamps dropped) *)
Inductive out_event :=
| OCtx (data : list (string * value))                                   (* ContextUpdate *)
| OBot (intent : string)                                                (* BotIntent *)
| OAct (action_name : string) (params : string) (result_key : option string). (* StartInternalSystemAction *)

(* Python list indexing l[i] with negative wrap-around; None = IndexError *)
Definition pyidx {A} (l : list A) (i : Z) : option A :=
  let n := Z.of_nat (List.length l) in
  let j := (if i <? 0 then n + i else i)%Z in
  if ((j <? 0) || (n <=? j))%Z then None else nth_error l (Z.to_nat j).

Definition string_in (s : string) (l : list string) : bool :=
  existsb (String.eqb s) l.
