(* C11 - a State-shaped graph built from the field lists of the CURRENT source (class table of
   Gen/C11Consts.v) that inhabits the hypotheses of the composed round-trip theorem. *)
From Coq Require Import ZArith List String Bool Lia.
From NG Require Import Gen.C11Consts V2.Serial V2.SerialRun V2.Serial_proofs V2.Serial_examples
                       V2.Callbacks_proofs V2.State_proofs.
Import ListNotations.
Open Scope string_scope.
Open Scope Z_scope.

Definition obj (cls : string) (asg : list (string * val)) : node :=
  match class_fields classes_now cls with
  | Some fs => mk (HData cls fs) (map (fun f => match slookup asg f with Some v => v | None => VP PNone end) fs)
  | None => mk (HOther cls) []
  end.

Definition cbp (fs : id) : node := mk (HPartial cb_name) [VO 0; VO fs].

Definition h_st : heap :=
  [ (0, obj "State" [("flow_states", VO 1); ("flow_configs", VO 20); ("actions", VO 21); ("internal_events", VO 22);
                     ("main_flow_state", VO 2); ("context", VO 20); ("outgoing_events", VO 23); ("last_events", VO 23);
                     ("context_updates", VO 20); ("flow_id_states", VO 24); ("event_matching_heads", VO 25);
                     ("event_matching_heads_reverse_map", VO 20)]);
    (1, mk (HDict [KS "m"; KS "a"]) [VO 2; VO 3]);
    (2, obj "FlowState" [("uid", VP (PStr "m")); ("flow_id", VP (PStr "main")); ("hierarchy_position", VP (PStr "0"));
                         ("heads", VO 4); ("scopes", VO 20); ("head_fork_uids", VO 20); ("action_uids", VO 26);
                         ("context", VO 6); ("priority", VP (PFloat 1)); ("arguments", VO 20); ("child_flow_uids", VO 27);
                         ("_status", VO 9); ("status_updated", VO 28); ("activated", VP (PInt 0));
                         ("new_instance_started", VP (PBool false)); ("_event_name_map", VO 20)]);
    (3, obj "FlowState" [("uid", VP (PStr "a")); ("flow_id", VP (PStr "a")); ("hierarchy_position", VP (PStr "0.1"));
                         ("heads", VO 10); ("scopes", VO 20); ("head_fork_uids", VO 20); ("action_uids", VO 26);
                         ("context", VO 11); ("priority", VP (PFloat 1)); ("arguments", VO 20); ("parent_uid", VP (PStr "m"));
                         ("child_flow_uids", VO 23); ("_status", VO 9); ("status_updated", VO 28); ("activated", VP (PInt 1));
                         ("new_instance_started", VP (PBool false)); ("_event_name_map", VO 20)]);
    (4, mk (HDict [KS "h1"]) [VO 12]);
    (5, mk (HAction action_fields)
           [VP (PStr "u"); VP (PStr "MyAction"); VP (PStr "m"); VP (PStr "STARTED"); VO 20; VO 29; VP (PInt 2)]);
    (6, mk (HDict [KS "act"; KS "s"; KS "r"; KI 1]) [VO 5; VO 7; VO 8; VP (PStr "x")]);
    (7, mk HSet [VP (PStr "a"); VP (PStr "b")]);
    (8, mk (HRegex "a." 32) []);
    (9, mk (HEnum "FlowStatus" "STARTED") []);
    (10, mk (HDict [KS "h2"; KS "h3"]) [VO 13; VO 14]);
    (11, mk (HDict [KS "act"; KS "parent"]) [VO 5; VP (PStr "m")]);
    (12, obj "FlowHead" [("uid", VP (PStr "h1")); ("flow_state_uid", VP (PStr "m")); ("matching_scores", VO 23);
                         ("scope_uids", VO 23); ("child_head_uids", VO 23); ("catch_pattern_failure_label", VO 23);
                         ("position_changed_callback", VO 30); ("status_changed_callback", VO 31);
                         ("_position", VP (PInt 3)); ("_status", VO 19)]);
    (13, obj "FlowHead" [("uid", VP (PStr "h2")); ("flow_state_uid", VP (PStr "a")); ("matching_scores", VO 23);
                         ("scope_uids", VO 23); ("child_head_uids", VO 23); ("catch_pattern_failure_label", VO 23);
                         ("position_changed_callback", VO 32); ("status_changed_callback", VO 33);
                         ("_position", VP (PInt 1)); ("_status", VO 19)]);
    (14, obj "FlowHead" [("uid", VP (PStr "h3")); ("flow_state_uid", VP (PStr "a")); ("matching_scores", VO 23);
                         ("scope_uids", VO 23); ("child_head_uids", VO 23); ("catch_pattern_failure_label", VO 23);
                         ("position_changed_callback", VO 34); ("status_changed_callback", VO 35);
                         ("_position", VP (PInt 2)); ("_status", VO 19)]);
    (19, mk (HEnum "FlowHeadStatus" "ACTIVE") []);
    (20, mk (HDict []) []);
    (21, mk (HDict [KS "u"]) [VO 5]);
    (22, mk HDeque []);
    (23, mk HList []);
    (24, mk (HDict [KS "main"; KS "a"]) [VO 36; VO 37]);
    (25, mk (HDict [KS "E"]) [VO 38]);
    (26, mk HList [VP (PStr "u")]);
    (27, mk HList [VP (PStr "a")]);
    (28, mk (HDatetime "2026-01-01T00:00:00") []);
    (29, mk (HDict [KS "tags"]) [VO 7]);
    (30, cbp 2); (31, cbp 2); (32, cbp 3); (33, cbp 3); (34, cbp 3); (35, cbp 3);
    (36, mk HList [VO 2]); (37, mk HList [VO 3]);
    (38, mk HList [VO 39]); (39, mk HTuple [VP (PStr "a"); VP (PStr "h2")]) ].

Definition rk_st : id -> nat :=
  rank_tbl [(0, 9%nat); (1, 8%nat); (24, 8%nat); (36, 7%nat); (37, 7%nat); (2, 6%nat); (3, 6%nat); (4, 3%nat); (10, 3%nat);
            (6, 5%nat); (11, 5%nat); (21, 5%nat); (5, 4%nat); (29, 3%nat); (12, 2%nat); (13, 2%nat); (14, 2%nat);
            (25, 3%nat); (38, 2%nat); (39, 1%nat); (26, 1%nat); (27, 1%nat)].

Example st_supported : supported flags_fixed classes_now h_st (VO 0) = true.
Proof. vm_compute. reflexivity. Qed.

Example st_acyclic : acyclic h_st rk_st.
Proof. apply acyclicb_sound. vm_compute. reflexivity. Qed.

Example st_rank : (rank_of rk_st (VO 0%Z) < 50)%nat.
Proof. vm_compute. lia. Qed.

Example st_hyps : state_hyps h_st 0 = true.
Proof. vm_compute. reflexivity. Qed.

(* and the model really restores it: three heads, six fresh callbacks *)
Example st_restored :
  match encode flags_fixed 50 h_st (VO 0) with
  | Some j => match json_to_state flags_fixed classes_now 50 j with
              | Some (h2, VO s') => state_hyps h2 s'
              | _ => false
              end
  | None => false
  end = true.
Proof. vm_compute. reflexivity. Qed.

(* (T) the State / FlowState / FlowHead classes of the current source have the attributes the
   callback pass navigates *)
Lemma state_shape_in_source :
  (exists fs, class_fields classes_now "State" = Some fs /\ index_of "flow_states" fs <> None) /\
  (exists fs, class_fields classes_now "FlowState" = Some fs /\ index_of "heads" fs <> None) /\
  (exists fs, class_fields classes_now "FlowHead" = Some fs /\ index_of pos_f fs <> None /\ index_of stat_f fs <> None).
Proof.
  split; [|split]; eexists; (split; [vm_compute; reflexivity|]); vm_compute; repeat split; discriminate.
Qed.
