(* C20 - proofs about the path model (Svc/Path.v): what normpath returns on absolute paths,
   what normpath (join base id) is for a separator-free id, confinement of get_rails_path,
   redundancy of the commonprefix test after the reject test, and the commonprefix quirk. *)
From Coq Require Import List Bool Arith Lia.
From NG Require Import Svc.Path.
Import ListNotations.

Arguments Path.ceq : simpl never.

Section PathProofs.
  Variable A : Type.
  Variable eqA : forall x y : A, {x = y} + {x <> y}.
  Variables sep dot bslash : A.

  Notation str := (list A).
  Notation ceq := (Path.ceq A eqA).
  Notation str_eqb := (Path.str_eqb A eqA).
  Notation dotdot := (Path.dotdot A dot).
  Notation starts_with_sep := (Path.starts_with_sep A eqA sep).
  Notation ends_with_sep := (Path.ends_with_sep A eqA sep).
  Notation join := (Path.join A eqA sep).
  Notation split := (Path.split A eqA sep).
  Notation join_segs := (Path.join_segs A sep).
  Notation initial_slashes := (Path.initial_slashes A eqA sep).
  Notation np_step := (Path.np_step A eqA dot).
  Notation norm_comps := (Path.norm_comps A eqA dot).
  Notation normpath := (Path.normpath A eqA sep dot).
  Notation abspath := (Path.abspath A eqA sep dot).
  Notation lcp := (Path.lcp A eqA).
  Notation commonprefix := (Path.commonprefix A eqA).
  Notation mem := (Path.mem A eqA).
  Notation match_here := (Path.match_here A eqA).
  Notation re_search := (Path.re_search A eqA).
  Notation pat_rejects_char := (Path.pat_rejects_char A eqA).
  Notation tail_sep := (Path.tail_sep A eqA sep).
  Notation plain := (Path.plain A sep dot).
  Notation inside := (Path.inside A eqA sep dot).
  Notation abs_normal := (Path.abs_normal A sep dot).

  (* ------------------------------------------------------------------ basic equalities *)

  Lemma ceq_true : forall x y, ceq x y = true <-> x = y.
  Proof. intros x y. unfold Path.ceq. destruct (eqA x y); split; congruence. Qed.

  Lemma ceq_false : forall x y, ceq x y = false <-> x <> y.
  Proof. intros x y. unfold Path.ceq. destruct (eqA x y); split; congruence. Qed.

  Lemma ceq_refl : forall x, ceq x x = true.
  Proof. intros x. apply ceq_true. reflexivity. Qed.

  Lemma str_eqb_true : forall s t, str_eqb s t = true <-> s = t.
  Proof.
    induction s as [|x s IH]; destruct t as [|y t]; simpl; split; intros H; try congruence.
    - apply andb_true_iff in H. destruct H as [H1 H2].
      apply ceq_true in H1. apply IH in H2. congruence.
    - inversion H; subst. rewrite ceq_refl. simpl. apply IH. reflexivity.
  Qed.

  Lemma str_eqb_refl : forall s, str_eqb s s = true.
  Proof. intros s. apply str_eqb_true. reflexivity. Qed.

  Lemma str_eqb_false : forall s t, str_eqb s t = false <-> s <> t.
  Proof.
    intros s t. split.
    - intros H E. apply str_eqb_true in E. congruence.
    - intros H. destruct (str_eqb s t) eqn:E; [apply str_eqb_true in E; contradiction | reflexivity].
  Qed.

  Lemma mem_true : forall x c, mem x c = true <-> In x c.
  Proof.
    intros x c. induction c as [|y c IH]; simpl.
    - split; [discriminate | tauto].
    - rewrite orb_true_iff, IH, ceq_true. split; intros [H|H]; auto.
  Qed.

  (* ------------------------------------------------------------------ ends_with_sep *)

  Lemma ends_with_sep_cons : forall x t, t <> [] -> ends_with_sep (x :: t) = ends_with_sep t.
  Proof. intros x [|y t] H; [contradiction | reflexivity]. Qed.

  Lemma ends_with_sep_snoc : forall s c, ends_with_sep (s ++ [c]) = ceq c sep.
  Proof.
    induction s as [|x s IH]; intros c.
    - reflexivity.
    - change ((x :: s) ++ [c]) with (x :: (s ++ [c])).
      rewrite ends_with_sep_cons by (destruct s; discriminate). apply IH.
  Qed.

  Lemma ends_with_sep_app_nonempty :
    forall s t, t <> [] -> ends_with_sep (s ++ t) = ends_with_sep t.
  Proof.
    induction s as [|x s IH]; intros t Ht.
    - reflexivity.
    - change ((x :: s) ++ t) with (x :: (s ++ t)).
      rewrite ends_with_sep_cons by (destruct s; [assumption | discriminate]). apply IH. assumption.
  Qed.

  Lemma ends_with_sep_nosep : forall s, ~ In sep s -> ends_with_sep s = false.
  Proof.
    induction s as [|x s IH]; intros H.
    - reflexivity.
    - destruct s as [|y s].
      + simpl. apply ceq_false. intros E. apply H. left. assumption.
      + rewrite ends_with_sep_cons by discriminate. apply IH. intros Hin. apply H. right. assumption.
  Qed.

  Lemma ends_with_sep_plain_tail :
    forall s x, x <> [] -> ~ In sep x -> ends_with_sep (s ++ x) = false.
  Proof.
    intros s x Hx Hs. rewrite ends_with_sep_app_nonempty by assumption.
    apply ends_with_sep_nosep. assumption.
  Qed.

  (* ------------------------------------------------------------------ split / join_segs *)

  Lemma split_nonempty : forall s, split s <> [].
  Proof.
    induction s as [|c s IH]; simpl.
    - discriminate.
    - destruct (eqA c sep); [discriminate|]. destruct (split s); discriminate.
  Qed.

  Lemma split_nosep : forall s, ~ In sep s -> split s = [s].
  Proof.
    induction s as [|c s IH]; intros H; simpl.
    - reflexivity.
    - destruct (eqA c sep) as [E|E].
      + exfalso. apply H. left. assumption.
      + rewrite IH; [reflexivity|]. intros Hin. apply H. right. assumption.
  Qed.

  Lemma split_app_sep : forall s t, split (s ++ sep :: t) = split s ++ split t.
  Proof.
    induction s as [|c s IH]; intros t.
    - simpl. destruct (eqA sep sep); [reflexivity | congruence].
    - simpl. destruct (eqA c sep).
      + rewrite IH. reflexivity.
      + rewrite IH. destruct (split s) eqn:E.
        * exfalso. apply (split_nonempty s). assumption.
        * reflexivity.
  Qed.

  Lemma split_elems_nosep : forall s, Forall (fun x => ~ In sep x) (split s).
  Proof.
    induction s as [|c s IH]; simpl.
    - constructor; [tauto | constructor].
    - destruct (eqA c sep).
      + constructor; [tauto | assumption].
      + destruct (split s) as [|seg rest].
        * constructor; [|constructor]. intros [H|[]]. congruence.
        * inversion IH; subst. constructor; [|assumption].
          intros [H|H]; [congruence | contradiction].
  Qed.

  Lemma split_repeat_sep : forall n t, split (repeat sep n ++ t) = repeat [] n ++ split t.
  Proof.
    induction n as [|n IH]; intros t.
    - reflexivity.
    - simpl. destruct (eqA sep sep); [|congruence]. rewrite IH. reflexivity.
  Qed.

  Lemma join_segs_cons2 : forall s x r, join_segs (s :: x :: r) = s ++ sep :: join_segs (x :: r).
  Proof. reflexivity. Qed.

  Lemma join_segs_snoc : forall l x, l <> [] -> join_segs (l ++ [x]) = join_segs l ++ sep :: x.
  Proof.
    induction l as [|s l IH]; intros x H.
    - contradiction.
    - destruct l as [|y l].
      + reflexivity.
      + change ((s :: y :: l) ++ [x]) with (s :: ((y :: l) ++ [x])).
        destruct ((y :: l) ++ [x]) as [|z r] eqn:E; [discriminate|].
        rewrite join_segs_cons2. rewrite <- E. rewrite IH by discriminate.
        rewrite join_segs_cons2. rewrite <- app_assoc. reflexivity.
  Qed.

  Lemma split_join_segs :
    forall l, l <> [] -> Forall (fun x => ~ In sep x) l -> split (join_segs l) = l.
  Proof.
    induction l as [|s l IH]; intros Hne Hall.
    - contradiction.
    - inversion Hall as [|? ? Hs Hl]; subst. destruct l as [|y l].
      + simpl. apply split_nosep. assumption.
      + rewrite join_segs_cons2, split_app_sep, (split_nosep s) by assumption.
        rewrite IH by (discriminate || assumption). reflexivity.
  Qed.

  Lemma plain_nosep : forall l, Forall plain l -> Forall (fun x => ~ In sep x) l.
  Proof. intros l H. eapply Forall_impl; [|exact H]. intros a [_ [Ha _]]. exact Ha. Qed.

  Lemma join_segs_ends :
    forall l, l <> [] -> Forall plain l -> forall pre, ends_with_sep (pre ++ join_segs l) = false.
  Proof.
    intros l Hne Hall pre.
    destruct (exists_last Hne) as [l' [x E]]. subst l.
    apply Forall_app in Hall. destruct Hall as [_ Hx]. inversion Hx as [|? ? [Hx1 [Hx2 _]] _]; subst.
    destruct l' as [|y l'].
    - simpl. apply ends_with_sep_plain_tail; assumption.
    - rewrite join_segs_snoc by discriminate.
      rewrite app_assoc. change (sep :: x) with ([sep] ++ x). rewrite app_assoc.
      apply ends_with_sep_plain_tail; assumption.
  Qed.

  Lemma join_segs_starts :
    forall l, Forall plain l -> starts_with_sep (join_segs l) = false.
  Proof.
    intros [|s l] H.
    - reflexivity.
    - inversion H as [|? ? [Hs1 [Hs2 _]] _]; subst.
      destruct s as [|c s]; [congruence|].
      assert (E : starts_with_sep (join_segs ((c :: s) :: l)) = ceq c sep).
      { destruct l; reflexivity. }
      rewrite E. apply ceq_false. intros Ec. apply Hs2. left. assumption.
  Qed.

  (* ------------------------------------------------------------------ initial_slashes *)

  Lemma initial_slashes_repeat :
    forall n t, (n = 1 \/ n = 2) -> starts_with_sep t = false ->
                initial_slashes (repeat sep n ++ t) = n.
  Proof.
    intros n t [Hn|Hn] Ht; subst n; simpl; rewrite ceq_refl.
    - destruct t as [|c t]; [reflexivity|]. simpl in Ht. rewrite Ht. reflexivity.
    - destruct t as [|c t]; [reflexivity|]. simpl in Ht. rewrite Ht. reflexivity.
  Qed.

  Lemma initial_slashes_abs :
    forall p, starts_with_sep p = true -> initial_slashes p = 1 \/ initial_slashes p = 2.
  Proof.
    intros [|c1 r1] H; simpl in *; [discriminate|]. rewrite H.
    destruct r1 as [|c2 r2]; [auto|]. destruct (ceq c2 sep); [|auto].
    destruct r2 as [|c3 r3]; [auto|]. destruct (ceq c3 sep); auto.
  Qed.

  (* ------------------------------------------------------------------ the normpath loop *)

  Lemma plain_not_special :
    forall s, plain s -> str_eqb s [] = false /\ str_eqb s [dot] = false /\ str_eqb s dotdot = false.
  Proof.
    intros s [H1 [_ [H3 H4]]]. repeat split; apply str_eqb_false; assumption.
  Qed.

  Lemma np_step_plain : forall ab stk s, plain s -> np_step ab stk s = s :: stk.
  Proof.
    intros ab stk s Hs. destruct (plain_not_special s Hs) as [E1 [E2 E3]].
    unfold Path.np_step. rewrite E1, E2, E3. reflexivity.
  Qed.

  Lemma np_step_empty : forall ab stk, np_step ab stk [] = stk.
  Proof. reflexivity. Qed.

  Lemma fold_np_plain :
    forall ab segs stk, Forall plain segs -> fold_left (np_step ab) segs stk = rev segs ++ stk.
  Proof.
    induction segs as [|s segs IH]; intros stk H.
    - reflexivity.
    - inversion H; subst. simpl. rewrite np_step_plain by assumption.
      rewrite IH by assumption. rewrite <- app_assoc. reflexivity.
  Qed.

  Lemma fold_np_empties :
    forall ab n stk, fold_left (np_step ab) (repeat [] n) stk = stk.
  Proof. induction n as [|n IH]; intros stk; [reflexivity | simpl; apply IH]. Qed.

  (* in absolute mode the stack only ever holds plain segments *)
  Lemma np_step_abs_plain :
    forall stk comp, Forall plain stk -> ~ In sep comp -> Forall plain (np_step true stk comp).
  Proof.
    intros stk comp Hstk Hc. unfold Path.np_step.
    destruct (str_eqb comp []) eqn:E1; [assumption|].
    destruct (str_eqb comp [dot]) eqn:E2; [assumption|]. simpl.
    destruct (str_eqb comp dotdot) eqn:E3; simpl.
    - destruct stk as [|top stk'].
      + constructor.
      + inversion Hstk as [|? ? Htop Hrest]; subst.
        destruct (plain_not_special top Htop) as [_ [_ E]]. rewrite E. assumption.
    - constructor; [|assumption].
      apply str_eqb_false in E1. apply str_eqb_false in E2. apply str_eqb_false in E3.
      repeat split; assumption.
  Qed.

  Lemma fold_np_abs_plain :
    forall comps stk, Forall plain stk -> Forall (fun x => ~ In sep x) comps ->
                      Forall plain (fold_left (np_step true) comps stk).
  Proof.
    induction comps as [|c comps IH]; intros stk Hstk Hc.
    - assumption.
    - inversion Hc; subst. simpl. apply IH; [|assumption]. apply np_step_abs_plain; assumption.
  Qed.

  Lemma repeat_sep_nonempty : forall n t, (n = 1 \/ n = 2) -> repeat sep n ++ t <> [].
  Proof. intros n t [H|H]; subst; discriminate. Qed.

  (* normpath of an absolute path is one or two separators + plain segments *)
  Lemma normpath_abs_normal :
    forall p, starts_with_sep p = true -> abs_normal (normpath p).
  Proof.
    intros p Hp. destruct p as [|c p]; [discriminate|].
    unfold Path.normpath.
    set (n := initial_slashes (c :: p)).
    assert (Hn : n = 1 \/ n = 2) by (apply initial_slashes_abs; assumption).
    assert (Hab : negb (Nat.eqb n 0) = true) by (destruct Hn as [H|H]; rewrite H; reflexivity).
    rewrite Hab.
    set (comps := norm_comps true (split (c :: p))).
    assert (Hcomps : Forall plain comps).
    { unfold comps, Path.norm_comps. apply Forall_rev.
      apply fold_np_abs_plain; [constructor | apply split_elems_nosep]. }
    destruct (repeat sep n ++ join_segs comps) eqn:E.
    - exfalso. eapply repeat_sep_nonempty; eassumption.
    - exists n, comps. rewrite <- E. auto.
  Qed.

  Lemma join_abs_starts :
    forall cwd p, starts_with_sep cwd = true -> starts_with_sep (join cwd p) = true.
  Proof.
    intros cwd p H. unfold Path.join.
    destruct (starts_with_sep p) eqn:E; [assumption|].
    destruct cwd as [|c cwd]; [discriminate|].
    destruct (is_nil (c :: cwd) || ends_with_sep (c :: cwd)); exact H.
  Qed.

  (* abspath under an absolute working directory is a normalised absolute path *)
  Lemma abspath_abs_normal :
    forall cwd root, starts_with_sep cwd = true -> abs_normal (abspath cwd root).
  Proof.
    intros cwd root H. unfold Path.abspath. apply normpath_abs_normal.
    destruct (starts_with_sep root) eqn:E; [assumption | apply join_abs_starts; assumption].
  Qed.

  (* ------------------------------------------------------------------ normpath (join base id) *)

  Lemma abs_normal_ends :
    forall n segs, (n = 1 \/ n = 2) -> Forall plain segs ->
      ends_with_sep (repeat sep n ++ join_segs segs) = is_nil segs.
  Proof.
    intros n segs Hn Hs. destruct segs as [|s segs].
    - simpl. rewrite app_nil_r. destruct Hn; subst; simpl; apply ceq_refl.
    - simpl is_nil. apply join_segs_ends; [discriminate | assumption].
  Qed.

  Lemma nosep_not_starts : forall id, ~ In sep id -> starts_with_sep id = false.
  Proof.
    intros [|c id] H; [reflexivity|]. simpl. apply ceq_false. intros E. apply H. left. assumption.
  Qed.

  (* join base id, as a normal-form expression *)
  Lemma join_base_id :
    forall n segs id, (n = 1 \/ n = 2) -> Forall plain segs -> ~ In sep id ->
      join (repeat sep n ++ join_segs segs) id = repeat sep n ++ join_segs (segs ++ [id])
      /\ join (repeat sep n ++ join_segs segs) id
         = (repeat sep n ++ join_segs segs) ++ tail_sep (repeat sep n ++ join_segs segs) ++ id.
  Proof.
    intros n segs id Hn Hs Hid. unfold Path.join, Path.tail_sep.
    rewrite (nosep_not_starts id Hid).
    rewrite abs_normal_ends by assumption.
    assert (Hnil : is_nil (repeat sep n ++ join_segs segs) = false).
    { destruct Hn; subst; reflexivity. }
    rewrite Hnil. simpl orb.
    destruct segs as [|s segs].
    - simpl. rewrite app_nil_r. split; reflexivity.
    - simpl is_nil. cbv iota. rewrite join_segs_snoc by discriminate.
      rewrite <- !app_assoc. split; reflexivity.
  Qed.

  Lemma normpath_of_normal_form :
    forall n comps, (n = 1 \/ n = 2) -> Forall plain comps ->
      forall extra,
        (* comps then one more raw component `extra` without separator *)
        ~ In sep extra ->
        normpath (repeat sep n ++ join_segs (comps ++ [extra]))
        = let path := repeat sep n ++ join_segs (rev (np_step true (rev comps) extra)) in
          match path with [] => [dot] | _ => path end.
  Proof.
    intros n comps Hn Hc extra He.
    assert (Hstart : starts_with_sep (join_segs (comps ++ [extra])) = false).
    { destruct comps as [|s comps].
      - simpl. apply nosep_not_starts. assumption.
      - inversion Hc as [|? ? [Hs1 [Hs2 _]] _]; subst. destruct s as [|c s]; [congruence|].
        change (((c :: s) :: comps) ++ [extra]) with ((c :: s) :: (comps ++ [extra])).
        assert (E : forall l, starts_with_sep (join_segs ((c :: s) :: l)) = ceq c sep)
          by (intros [|? ?]; reflexivity).
        rewrite E. apply ceq_false. intros Ec. apply Hs2. left. assumption. }
    unfold Path.normpath.
    destruct (repeat sep n ++ join_segs (comps ++ [extra])) eqn:E.
    { exfalso. eapply repeat_sep_nonempty; eassumption. }
    rewrite <- E. clear E.
    rewrite initial_slashes_repeat by assumption.
    assert (Hab : negb (Nat.eqb n 0) = true) by (destruct Hn as [H|H]; rewrite H; reflexivity).
    rewrite Hab. unfold Path.norm_comps.
    rewrite split_repeat_sep.
    rewrite split_join_segs.
    2:{ destruct comps; discriminate. }
    2:{ apply Forall_app. split; [apply plain_nosep; assumption | constructor; [assumption | constructor]]. }
    rewrite fold_left_app, fold_np_empties. rewrite fold_left_app.
    rewrite (fold_np_plain true comps) by assumption. rewrite app_nil_r. reflexivity.
  Qed.

  (* the three possible values of normpath (join base id) for a separator-free id *)
  Lemma normpath_join_base :
    forall n segs id, (n = 1 \/ n = 2) -> Forall plain segs -> ~ In sep id ->
      let base := repeat sep n ++ join_segs segs in
      normpath (join base id) =
        if str_eqb id [] || str_eqb id [dot] then base
        else if str_eqb id dotdot then repeat sep n ++ join_segs (removelast segs)
        else base ++ tail_sep base ++ id.
  Proof.
    intros n segs id Hn Hs Hid base.
    destruct (join_base_id n segs id Hn Hs Hid) as [J1 J2]. fold base in J1, J2.
    rewrite J1, normpath_of_normal_form by assumption. cbv zeta.
    unfold Path.np_step.
    destruct (str_eqb id [] || str_eqb id [dot]) eqn:E1.
    - rewrite rev_involutive. fold base.
      destruct base eqn:Eb; [|reflexivity].
      exfalso. unfold base in Eb. eapply repeat_sep_nonempty; eassumption.
    - destruct (str_eqb id dotdot) eqn:E2.
      + simpl negb. simpl orb.
        assert (Htop : match rev segs with top :: _ => str_eqb top dotdot | [] => false end = false).
        { destruct (rev segs) as [|top r] eqn:Er; [reflexivity|].
          assert (Hp : plain top).
          { apply Forall_rev in Hs. rewrite Er in Hs. inversion Hs; assumption. }
          apply plain_not_special in Hp. tauto. }
        rewrite Htop.
        assert (Hrl : rev (match rev segs with _ :: stk' => stk' | [] => [] end) = removelast segs).
        { destruct (rev segs) as [|top r] eqn:Er.
          - apply (f_equal (@rev _)) in Er. rewrite rev_involutive in Er. subst. reflexivity.
          - apply (f_equal (@rev _)) in Er. rewrite rev_involutive in Er. simpl in Er. subst.
            rewrite removelast_last. reflexivity. }
        rewrite Hrl.
        destruct (repeat sep n ++ join_segs (removelast segs)) eqn:Eb; [|reflexivity].
        exfalso. eapply repeat_sep_nonempty; eassumption.
      + simpl negb. simpl orb. simpl rev. rewrite rev_involutive. rewrite <- J1, J2.
        destruct (base ++ tail_sep base ++ id) eqn:Eb; [|reflexivity].
        exfalso. unfold base in Eb. rewrite <- app_assoc in Eb. eapply repeat_sep_nonempty; eassumption.
  Qed.

  (* ------------------------------------------------------------------ commonprefix *)

  Lemma lcp_app_self : forall b x, lcp (b ++ x) b = b.
  Proof.
    induction b as [|c b IH]; intros x.
    - destruct x; reflexivity.
    - simpl. rewrite ceq_refl, IH. reflexivity.
  Qed.

  Lemma lcp_self : forall b, lcp b b = b.
  Proof. intros b. rewrite <- (app_nil_r b) at 1. apply lcp_app_self. Qed.

  Lemma lcp_length_l : forall a b, length (lcp a b) <= length a.
  Proof.
    induction a as [|x a IH]; intros b; [simpl; lia|].
    destruct b as [|y b]; simpl; [lia|]. destruct (ceq x y); simpl; [|lia].
    specialize (IH b). lia.
  Qed.

  (* lcp is the longest common prefix: a prefix of both ... *)
  Lemma lcp_prefix_l : forall a b, exists r, a = lcp a b ++ r.
  Proof.
    induction a as [|x a IH]; intros b; [exists []; reflexivity|].
    destruct b as [|y b]; simpl; [eexists; reflexivity|].
    destruct (ceq x y); [|eexists; reflexivity].
    destruct (IH b) as [r Hr]. exists r. simpl. congruence.
  Qed.

  Lemma lcp_comm : forall a b, lcp a b = lcp b a.
  Proof.
    induction a as [|x a IH]; intros [|y b]; simpl; try reflexivity.
    destruct (ceq x y) eqn:E.
    - apply ceq_true in E. subst. rewrite ceq_refl, IH. reflexivity.
    - assert (E' : ceq y x = false) by (apply ceq_false; apply ceq_false in E; congruence).
      rewrite E'. reflexivity.
  Qed.

  (* ... and every common prefix is a prefix of it *)
  Lemma lcp_greatest : forall c ra rb, exists r, lcp (c ++ ra) (c ++ rb) = c ++ r.
  Proof.
    induction c as [|x c IH]; intros ra rb; simpl.
    - eexists; reflexivity.
    - rewrite ceq_refl. destruct (IH ra rb) as [r Hr]. exists r. congruence.
  Qed.

  (* ------------------------------------------------------------------ re_search *)

  Lemma re_search_here :
    forall alts a s, In a alts -> match_here a s = true -> re_search alts s = true.
  Proof.
    intros alts a s Hin Hm. destruct s; simpl; apply orb_true_iff; left;
      apply existsb_exists; exists a; auto.
  Qed.

  Lemma re_search_later :
    forall alts l s, re_search alts s = true -> re_search alts (l ++ s) = true.
  Proof.
    induction l as [|x l IH]; intros s H; [assumption|].
    simpl. apply orb_true_iff. right. apply IH. assumption.
  Qed.

  Lemma pat_rejects_char_sound :
    forall pat x s, pat_rejects_char pat x = true -> In x s -> re_search pat s = true.
  Proof.
    intros pat x s Hp Hin. unfold Path.pat_rejects_char in Hp.
    apply existsb_exists in Hp. destruct Hp as [a [Ha Hm]].
    destruct a as [|c [|c' a']]; try discriminate.
    apply in_split in Hin. destruct Hin as [l1 [l2 E]]. subst s.
    apply re_search_later. eapply re_search_here; [exact Ha|].
    simpl. rewrite Hm. reflexivity.
  Qed.

  (* ------------------------------------------------------------------ get_rails_path *)

  Section GetRails.
    Variable pat : list (list (list A)).
    Variable use_prefix_check : bool.

    Notation get_rails_path := (Path.get_rails_path A eqA sep dot pat use_prefix_check).

    (* what the theorem needs from the source: the reject test fires on every id that
       contains a separator, and an id that IS ".." is stopped by the reject test or by the
       commonprefix test *)
    Hypothesis guard_sep : pat_rejects_char pat sep = true.
    Hypothesis guard_dotdot : re_search pat dotdot = true \/ use_prefix_check = true.

    Lemma accept_nosep : forall base id p, get_rails_path base id = Accept p -> ~ In sep id.
    Proof.
      intros base id p H Hin. unfold Path.get_rails_path in H.
      rewrite (pat_rejects_char_sound pat sep id guard_sep Hin) in H. discriminate.
    Qed.

    Lemma parent_shorter :
      forall n segs, segs <> [] -> Forall plain segs ->
        length (repeat sep n ++ join_segs (removelast segs)) < length (repeat sep n ++ join_segs segs).
    Proof.
      intros n segs Hne Hs. destruct (exists_last Hne) as [l [x E]]. subst segs.
      rewrite removelast_last. apply Forall_app in Hs. destruct Hs as [_ Hx].
      inversion Hx as [|? ? [Hx1 _] _]; subst.
      assert (Hlen : 0 < length x) by (destruct x; [congruence | simpl; lia]).
      destruct l as [|y l].
      - simpl. rewrite !app_length. simpl. lia.
      - rewrite join_segs_snoc by discriminate. rewrite !app_length. simpl. lia.
    Qed.

    (* CONFINEMENT, single id: whatever the id, an accepted path is the root itself or a
       direct child of the root whose name is a plain directory entry name *)
    Theorem get_rails_path_confined :
      forall base id p, abs_normal base -> get_rails_path base id = Accept p -> inside base p.
    Proof.
      intros base id p [n [segs [Hn [Hs Eb]]]] H.
      assert (Hid : ~ In sep id) by (eapply accept_nosep; eassumption).
      unfold Path.get_rails_path in H.
      destruct (re_search pat id) eqn:Erej; [discriminate|].
      pose proof (normpath_join_base n segs id Hn Hs Hid) as Hnp. cbv zeta in Hnp.
      rewrite <- Eb in Hnp. rewrite Hnp in H. clear Hnp.
      destruct (str_eqb id [] || str_eqb id [dot]) eqn:E1.
      - (* "" or "." : the root itself *)
        destruct (use_prefix_check && _) in H; [discriminate|]. left. congruence.
      - destruct (str_eqb id dotdot) eqn:E2.
        + (* ".." *)
          apply str_eqb_true in E2. subst id.
          destruct guard_dotdot as [G|G]; [congruence|]. rewrite G in H. simpl andb in H.
          destruct segs as [|s segs'] eqn:Esegs.
          * (* root is "/" or "//": ".." stays at the root *)
            simpl removelast in H. rewrite <- Eb in H.
            destruct (negb _) in H; [discriminate|]. left. congruence.
          * exfalso. rewrite <- Esegs in *.
            assert (Hne : segs <> []) by (rewrite Esegs; discriminate).
            pose proof (parent_shorter n segs Hne Hs) as Hlt. rewrite <- Eb in Hlt.
            unfold Path.commonprefix in H. simpl fold_left in H.
            destruct (str_eqb (lcp (repeat sep n ++ join_segs (removelast segs)) base) base) eqn:Ec.
            -- apply str_eqb_true in Ec.
               pose proof (lcp_length_l (repeat sep n ++ join_segs (removelast segs)) base) as Hl.
               rewrite Ec in Hl. lia.
            -- simpl in H. discriminate.
        + (* a plain name *)
          destruct (use_prefix_check && _) in H; [discriminate|]. inversion H; subst p.
          right. exists id. split; [reflexivity|].
          apply orb_false_iff in E1. destruct E1 as [E1a E1b].
          apply str_eqb_false in E1a. apply str_eqb_false in E1b. apply str_eqb_false in E2.
          repeat split; assumption.
    Qed.

    (* REJECT TEST MAKES THE commonprefix TEST UNREACHABLE: when the reject test also stops
       "..", an id that passes it always passes the commonprefix test *)
    Theorem prefix_check_redundant :
      forall base id, abs_normal base -> re_search pat dotdot = true -> re_search pat id = false ->
        commonprefix [normpath (join base id); base] = base.
    Proof.
      intros base id [n [segs [Hn [Hs Eb]]]] Hdd Hrej.
      assert (Hid : ~ In sep id).
      { intros Hin. rewrite (pat_rejects_char_sound pat sep id guard_sep Hin) in Hrej. discriminate. }
      pose proof (normpath_join_base n segs id Hn Hs Hid) as Hnp. cbv zeta in Hnp.
      rewrite <- Eb in Hnp. rewrite Hnp. unfold Path.commonprefix. simpl fold_left.
      destruct (str_eqb id [] || str_eqb id [dot]); [apply lcp_self|].
      destruct (str_eqb id dotdot) eqn:E2.
      - apply str_eqb_true in E2. congruence.
      - apply lcp_app_self.
    Qed.

    (* hence the answer does not depend on whether the commonprefix test is there *)
    Theorem get_rails_path_prefix_check_irrelevant :
      forall base id, abs_normal base -> re_search pat dotdot = true ->
        get_rails_path base id = Path.get_rails_path A eqA sep dot pat false base id.
    Proof.
      intros base id Hb Hdd. unfold Path.get_rails_path.
      destruct (re_search pat id) eqn:Erej; [reflexivity|].
      rewrite (prefix_check_redundant base id Hb Hdd Erej), str_eqb_refl.
      simpl. rewrite andb_false_r. reflexivity.
    Qed.

    (* FUNCTIONAL SPECIFICATION of the per-id path logic when the reject test fires on
       separators and on "..": reject exactly when the pattern matches; otherwise "" and "."
       name the root and every other id names the child root/id *)
    Theorem get_rails_path_spec :
      forall base id, abs_normal base -> re_search pat dotdot = true ->
        get_rails_path base id =
          if re_search pat id then Reject
          else Accept (if str_eqb id [] || str_eqb id [dot] then base else base ++ tail_sep base ++ id).
    Proof.
      intros base id Hb Hdd. rewrite (get_rails_path_prefix_check_irrelevant base id Hb Hdd).
      unfold Path.get_rails_path. destruct (re_search pat id) eqn:Erej; [reflexivity|].
      simpl andb. cbv iota.
      destruct Hb as [n [segs [Hn [Hs Eb]]]].
      assert (Hid : ~ In sep id).
      { intros Hin. rewrite (pat_rejects_char_sound pat sep id guard_sep Hin) in Erej. discriminate. }
      pose proof (normpath_join_base n segs id Hn Hs Hid) as Hnp. cbv zeta in Hnp.
      rewrite <- Eb in Hnp. rewrite Hnp.
      destruct (str_eqb id [] || str_eqb id [dot]); [reflexivity|].
      destruct (str_eqb id dotdot) eqn:E2; [|reflexivity].
      apply str_eqb_true in E2. congruence.
    Qed.

    (* an accepted path, seen through the root: the root is a proper prefix followed by a
       separator (segment-wise containment, which is what commonprefix does NOT test) *)
    Corollary get_rails_path_segment_prefix :
      forall base id p, abs_normal base -> get_rails_path base id = Accept p ->
        p = base \/ exists rest, p = base ++ tail_sep base ++ rest /\ rest <> [] /\ ~ In sep rest.
    Proof.
      intros base id p Hb H. destruct (get_rails_path_confined base id p Hb H) as [E|[seg [E [P1 [P2 _]]]]].
      - left. assumption.
      - right. exists seg. auto.
    Qed.
  End GetRails.

  (* with at least one segment in the root (i.e. the root is not "/" or "//") the child is
     base ++ "/" ++ seg, the form used in DESIGN.md *)
  Lemma tail_sep_nonroot :
    forall n segs, (n = 1 \/ n = 2) -> Forall plain segs -> segs <> [] ->
      tail_sep (repeat sep n ++ join_segs segs) = [sep].
  Proof.
    intros n segs Hn Hs Hne. unfold Path.tail_sep. rewrite abs_normal_ends by assumption.
    destruct segs; [contradiction | reflexivity].
  Qed.

  (* ------------------------------------------------------------------ the quirk *)

  (* commonprefix alone does not confine: for every root with at least one segment and every
     non-empty suffix x, the sibling  root ++ x  passes the commonprefix test although, when x
     does not begin with a separator, it is not inside the root. *)
  Theorem commonprefix_sibling_passes :
    forall base x, commonprefix [base ++ x; base] = base.
  Proof. intros base x. unfold Path.commonprefix. simpl. apply lcp_app_self. Qed.

  Theorem sibling_not_inside :
    forall n segs x c, (n = 1 \/ n = 2) -> Forall plain segs -> segs <> [] -> c <> sep ->
      let base := repeat sep n ++ join_segs segs in
      ~ inside base (base ++ c :: x).
  Proof.
    intros n segs x c Hn Hs Hne Hc base [E|[seg [E _]]].
    - rewrite <- (app_nil_r base) in E at 2. apply app_inv_head in E. discriminate.
    - unfold base in E at 3. rewrite tail_sep_nonroot in E by assumption.
      apply app_inv_head in E. simpl in E. congruence.
  Qed.

End PathProofs.
