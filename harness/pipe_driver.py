"""Driver of the REAL rails pipeline for C01/C02 (shared by harness/c01.py and harness/c02.py).

Builds `LLMRails` instances (Colang 1.0 and 2.x) whose input/output rails are custom flows that
each `execute` their own scripted action registered with `app.register_action`, with a
recording FakeLLM (tests/utils.py), and drives multi-turn conversations through
`LLMRails.generate` (messages API on ONE instance; Colang 2.x with the returned `state`).

A *case* is a JSON-able dict

  {"ver": "v1"|"v2", "mode": "general"|"passthrough"|"dialog", "exc": bool, "n_in": k, "n_out": m,
   "turns": [{"user": <text>, "iv": [verdict per input rail], "ov": [verdict per output rail],
              "llm": [completion of the i-th LLM call of the turn, ...]}]}

verdict: "a" accept | "r" reject | ["w", <text>] rewrite to <text>.
`run_case` returns per turn
  {"obs": [["I", k, text_seen] | ["O", k, text_seen] | ["L", task, call_idx, [marker texts in the prompt]]],
   "reply": ["msg", content] | ["exc", type, message], "flag": bool, "ctx": {...}}
Nothing here knows what the property demands; it only drives and observes.  The Coq side of the
same case is printed by `case_term` and evaluated by Pipe/PipeRun.v (check_v1 / check_v2).
"""
from __future__ import annotations

import json
import logging
import os
import re
import subprocess
import sys

from harness import common as C

REFUSAL = "RFz"
PREDEF = "PDz"
REFUSAL_OUT = "RFOz"

# every text that travels through the pipeline is ONE marker token; prompts are observed as the
# set of marker tokens they contain
MARK_RE = re.compile(r"(?<![A-Za-z0-9])(?:U|RI|RO|L|RF|RFO|PD|X)[0-9]*(?:[xy][0-9a-f]+)*z(?![A-Za-z0-9])")


def in_exc_msg(k):
    return f"Input blocked by in rail {k}"


def out_exc_msg(k):
    return f"Output blocked by out rail {k}"


# ---------------------------------------------------------------------------------------
# embedding search provider (deterministic, returns the items in insertion order; no model
# download).  Registered through a config.py `init(app)` hook, the documented way.

CFG_DIR = os.path.join(C.BUILD, "pipe_cfg")
CONFIG_PY = '''
from typing import List, Optional
from nemoguardrails.embeddings.index import EmbeddingsIndex, IndexItem


class VerifIndex(EmbeddingsIndex):
    """All items, in insertion order (no embeddings)."""

    def __init__(self, **kwargs):
        self.items: List[IndexItem] = []

    @property
    def embedding_size(self):
        return 0

    async def add_item(self, item: IndexItem):
        self.items.append(item)

    async def add_items(self, items: List[IndexItem]):
        self.items.extend(items)

    async def build(self):
        pass

    async def search(self, text: str, max_results: int = 5, threshold: Optional[float] = None):
        return list(self.items)[:max_results]


def init(app):
    app.register_embedding_search_provider("verif", VerifIndex)
'''


def ensure_cfg_dir():
    os.makedirs(CFG_DIR, exist_ok=True)
    p = os.path.join(CFG_DIR, "config.py")
    if not os.path.exists(p) or open(p).read() != CONFIG_PY:
        tmp = p + f".{os.getpid()}.tmp"
        with open(tmp, "w") as f:
            f.write(CONFIG_PY)
        os.replace(tmp, p)
    return CFG_DIR


# ---------------------------------------------------------------------------------------


class Recorder:
    """Mutable script + observation log shared by the scripted actions and the fake LLM."""

    def __init__(self):
        self.iv, self.ov, self.llm = [], [], []
        self.act = ""
        self.obs = []
        self.llm_i = 0
        self.mode = ""


def _mk_llm(rec):
    sys.path.insert(0, C.REPO)
    from tests.utils import FakeLLM

    class RecLLM(FakeLLM):
        def _reply(self, prompt):
            text = prompt if isinstance(prompt, str) else json.dumps(prompt, default=str)
            task = None
            try:
                from nemoguardrails.context import llm_call_info_var

                info = llm_call_info_var.get()
                task = getattr(info, "task", None)
            except Exception:  # noqa: BLE001
                pass
            if rec.mode == "v2":
                task = "value"
            elif rec.mode == "passthrough" and task == "general":
                task = "passthrough"
            rec.obs.append(["L", task, rec.llm_i, sorted(set(MARK_RE.findall(text)))])
            i = rec.llm_i
            rec.llm_i += 1
            if i >= len(rec.llm):
                raise RuntimeError(f"unscripted LLM call {i}")
            return rec.llm[i]

        def _call(self, prompt, stop=None, run_manager=None, **kw):
            return self._reply(prompt)

        async def _acall(self, prompt, stop=None, run_manager=None, **kw):
            return self._reply(prompt)

    return RecLLM(responses=[])


V1_RAIL_IN = """
define flow in rail {k}
  $r = execute in_rail_{k}
  if $r == "__REJECT__"
    if $config.enable_rails_exceptions
      create event InputRailException(message="{msg}")
    else
      bot refuse to respond
    stop
  if $r
    $user_message = $r
"""

V1_RAIL_OUT = """
define flow out rail {k}
  $r = execute out_rail_{k}
  if $r == "__REJECT__"
    if $config.enable_rails_exceptions
      create event OutputRailException(message="{msg}")
    else
      bot refuse to respond
    stop
  if $r
    $bot_message = $r
"""

V1_DIALOG = """
define user express greeting
  "hello there"

define user ask question
  "a question"

define flow greeting
  user express greeting
  bot express greeting

define flow question
  user ask question
  bot answer question

define user ask rag
  "a rag question"

define flow rag
  user ask rag
  $answer = execute rag
  bot $answer

define bot express greeting
  "{predef}"
"""


# generation options that must not change anything the property speaks about (one set per
# conversation: the history cache is keyed by the options too, so a caller that changes them
# between calls re-submits its transcript - DESIGN C01 scope note)
NEUTRAL_OPTIONS = {
    "none": None,
    "log": {"log": {"activated_rails": True, "llm_calls": True}},
    "rails_all": {"rails": ["input", "dialog", "retrieval", "output"]},
    "llm_params": {"llm_params": {"temperature": 0.3}},
    "llm_output": {"llm_output": True},
}


def _verdict_value(v):
    if v == "a":
        return None
    if v == "r":
        return "__REJECT__"
    return v[1]


def build_v1(n_in, n_out, mode, exc):
    logging.disable(logging.CRITICAL)
    sys.path.insert(0, C.REPO)
    from nemoguardrails import LLMRails, RailsConfig

    rec = Recorder()
    rec.mode = mode
    co = f'define bot refuse to respond\n  "{REFUSAL}"\n'
    for k in range(n_in):
        co += V1_RAIL_IN.format(k=k, msg=in_exc_msg(k))
    for k in range(n_out):
        co += V1_RAIL_OUT.format(k=k, msg=out_exc_msg(k))
    if mode == "dialog":
        co += V1_DIALOG.format(predef=PREDEF)
    yml = "models: []\n"
    yml += "rails:\n"
    yml += "  input:\n    flows: [" + ", ".join(f"in rail {k}" for k in range(n_in)) + "]\n"
    yml += "  output:\n    flows: [" + ", ".join(f"out rail {k}" for k in range(n_out)) + "]\n"
    if exc:
        yml += "enable_rails_exceptions: true\n"
    if mode == "passthrough":
        yml += "passthrough: true\n"
    yml += "core:\n  embedding_search_provider:\n    name: verif\n"
    config = RailsConfig.from_content(co, yml)
    config.config_path = ensure_cfg_dir()
    app = LLMRails(config, llm=_mk_llm(rec))

    from nemoguardrails.actions import action

    # rail actions are system actions, like the library's (self_check_input, mask_sensitive_data, ...):
    # the return value of a NON-system action is rendered into the colang history of later
    # dialog prompts ("# The result was ..."), which is a property of that action, not of the gate
    def mk_in(k):
        @action(name=f"in_rail_{k}", is_system_action=True)
        async def act(context=None):
            rec.obs.append(["I", k, (context or {}).get("user_message")])
            return _verdict_value(rec.iv[k] if k < len(rec.iv) else "a")
        return act

    def mk_out(k):
        @action(name=f"out_rail_{k}", is_system_action=True)
        async def act(context=None):
            rec.obs.append(["O", k, (context or {}).get("bot_message")])
            return _verdict_value(rec.ov[k] if k < len(rec.ov) else "a")
        return act

    # a custom (LLM-calling) action whose result is uttered with `bot $answer`, as in
    # examples/configs/rag/custom_rag_output_rails; a system action like the library's
    @action(name="rag", is_system_action=True)
    async def rag():
        rec.obs.append(["A", "rag", rec.act])
        return rec.act

    for k in range(n_in):
        app.register_action(mk_in(k), f"in_rail_{k}")
    for k in range(n_out):
        app.register_action(mk_out(k), f"out_rail_{k}")
    app.register_action(rag, "rag")
    return app, rec


def run_v1(app, rec, case):
    from nemoguardrails.colang.v1_0.runtime.flows import compute_context

    app.events_history_cache.clear()
    # the event history the NEXT turn will start from = the events handed to the runtime plus the
    # events it produced (what generate_async stores in its history cache); recorded by wrapping
    # the runtime entry point in-process (no dependence on the cache's internal layout)
    if not hasattr(app.runtime, "_verif_orig_generate_events"):
        app.runtime._verif_orig_generate_events = app.runtime.generate_events

        async def _rec_generate_events(events, processing_log=None):
            snapshot = list(events)
            new = await app.runtime._verif_orig_generate_events(events, processing_log=processing_log)
            app.runtime._verif_last_events = snapshot + list(new)
            app.runtime._verif_new_events = list(new)
            return new

        app.runtime.generate_events = _rec_generate_events
    history = []
    turns_out = []
    api = case.get("api", "messages")
    conv_options = NEUTRAL_OPTIONS.get(case.get("options") or "none")
    state = {}
    for turn in case["turns"]:
        rec.iv, rec.ov, rec.llm = turn["iv"], turn["ov"], turn.get("llm", [])
        rec.act = turn.get("act", "")
        rec.obs, rec.llm_i = [], 0
        history.append({"role": "user", "content": turn["user"]})
        app.runtime._verif_last_events = None
        # per-call generation options: the conversation-wide neutral ones, and (state API) the
        # rails categories this call switches off
        options = None if conv_options is None else json.loads(json.dumps(conv_options))
        opt = turn.get("opt")
        if opt and not (opt.get("input", True) and opt.get("output", True)):
            options = dict(options or {})
            options["rails"] = {"input": bool(opt.get("input", True)), "output": bool(opt.get("output", True))}
        try:
            if api == "state":
                res = app.generate(messages=[{"role": "user", "content": turn["user"]}], state=state,
                                   **({"options": options} if options is not None else {}))
                state = res.state
                res = res.response[0]
            elif options is not None:
                res = app.generate(messages=history, options=options).response[0]
            else:
                res = app.generate(messages=history)
        except Exception as e:  # noqa: BLE001 - an escaping exception is an observation
            turns_out.append({"obs": rec.obs, "error": f"{type(e).__name__}: {e}"[:300]})
            break
        if res.get("role") == "exception":
            reply = ["exc", res["content"].get("type"), res["content"].get("message")]
        else:
            reply = ["msg", res.get("content")]
        history.append(res)
        evs = app.runtime._verif_last_events
        ctx = compute_context(evs) if evs else {}
        utter = [e.get("script") for e in (getattr(app.runtime, "_verif_new_events", None) or [])
                 if e.get("type") == "StartUtteranceBotAction"]
        turns_out.append({"obs": rec.obs, "reply": reply, "flag": bool(ctx.get("skip_output_rails")), "utter": utter,
                          "ctx": {k: ctx.get(k) for k in ("user_message", "bot_message", "triggered_input_rail",
                                                           "triggered_output_rail")}})
    return turns_out


V2_MAIN = """
import core
import guardrails

flow main
  activate answering

flow answering
  user said something as $ref
  $answer = ..."Answer the user: {$ref.transcript}"
  bot say $answer
"""

V2_IN_HEAD = "flow input rails $input_text\n"
V2_IN_RAIL = """  $v{k} = await InRail{k}Action(text=$input_text)
  if $v{k} == "reject"
    if $system.config.enable_rails_exceptions
      send InputRailException(message="{msg}")
    else
      bot say "{refusal}"
    abort
"""
V2_OUT_HEAD = "flow output rails $output_text\n"
V2_OUT_RAIL = """  $v{k} = await OutRail{k}Action(text=$output_text)
  if $v{k} == "reject"
    if $system.config.enable_rails_exceptions
      send OutputRailException(message="{msg}")
    else
      bot say "{refusal}"
    abort
"""


def build_v2(n_in, n_out, exc):
    logging.disable(logging.CRITICAL)
    sys.path.insert(0, C.REPO)
    from nemoguardrails import LLMRails, RailsConfig

    rec = Recorder()
    rec.mode = "v2"
    co = V2_MAIN
    if n_in:
        co += "\n" + V2_IN_HEAD + "".join(V2_IN_RAIL.format(k=k, msg=in_exc_msg(k), refusal=REFUSAL) for k in range(n_in))
    if n_out:
        co += "\n" + V2_OUT_HEAD + "".join(V2_OUT_RAIL.format(k=k, msg=out_exc_msg(k), refusal=REFUSAL_OUT) for k in range(n_out))
    yml = 'colang_version: "2.x"\nmodels: []\n'
    if exc:
        yml += "enable_rails_exceptions: true\n"
    yml += "core:\n  embedding_search_provider:\n    name: verif\n"
    config = RailsConfig.from_content(co, yml)
    config.config_path = ensure_cfg_dir()
    app = LLMRails(config, llm=_mk_llm(rec))

    def mk(side, k):
        async def act(text=None):
            rec.obs.append([side, k, text])
            vs = rec.iv if side == "I" else rec.ov
            v = vs[k] if k < len(vs) else "a"
            return "reject" if v == "r" else "accept"
        return act

    for k in range(n_in):
        app.register_action(mk("I", k), f"InRail{k}Action")
    for k in range(n_out):
        app.register_action(mk("O", k), f"OutRail{k}Action")
    return app, rec


def run_v2(app, rec, case):
    from nemoguardrails.colang.v2_x.runtime.serialization import json_to_state

    state = {}
    turns_out = []
    for turn in case["turns"]:
        rec.iv, rec.ov, rec.llm = turn["iv"], turn["ov"], turn.get("llm", [])
        rec.obs, rec.llm_i = [], 0
        try:
            res = app.generate(messages=[{"role": "user", "content": turn["user"]}], state=state)
        except Exception as e:  # noqa: BLE001
            turns_out.append({"obs": rec.obs, "error": f"{type(e).__name__}: {e}"[:300]})
            break
        state = res.state
        msg = res.response[0]
        excs = [e for e in msg.get("events", []) if str(e.get("type", "")).endswith("Exception")]
        if excs:
            reply = ["exc", excs[-1].get("type"), excs[-1].get("message"), msg.get("content")]
        else:
            reply = ["msg", msg.get("content")]
        try:
            st = json_to_state(state["state"])
            flag = bool(st.context.get("output_rails_in_progress"))
            ctx = {k: st.context.get(k) for k in ("user_message", "bot_message", "last_bot_message")}
        except Exception as e:  # noqa: BLE001
            flag, ctx = None, {"error": repr(e)[:200]}
        content = msg.get("content")
        utter = [] if content in ("", None) else str(content).split("\n")
        turns_out.append({"obs": rec.obs, "reply": reply, "flag": flag, "ctx": ctx, "utter": utter})
    return turns_out


_APPS = {}


def run_case(case):
    key = (case["ver"], case["n_in"], case["n_out"], case.get("mode", ""), case["exc"])
    if key not in _APPS:
        _APPS[key] = (build_v1(case["n_in"], case["n_out"], case["mode"], case["exc"]) if case["ver"] == "v1"
                      else build_v2(case["n_in"], case["n_out"], case["exc"]))
    app, rec = _APPS[key]
    return run_v1(app, rec, case) if case["ver"] == "v1" else run_v2(app, rec, case)


# ---------------------------------------------------------------------------------------
# the SHIPPED library rail `self check output` (Colang 1.0 flows.v1.co and Colang 2.x flows.co),
# driven through every caller-visible channel: `generate` (messages), `generate_events` (the
# returned events) and, for Colang 2, `generate` with state.  A library case is
#   {"lib": "self_check_output", "ver": "v1"|"v2", "api": "generate"|"events", "exc": bool,
#    "blocks": [bool per turn]}      (turn t: the LLM answers "L{t}x0z"; the self-check LLM call
#                                     answers "Yes" (block) / "No")

LIB_YML = """
models: []
rails:
  output:
    flows: [self check output]
enable_rails_exceptions: {exc}
prompts:
  - task: self_check_output
    content: "Should this be blocked? {{{{ bot_response }}}}"
core:
  embedding_search_provider:
    name: verif
"""

LIB_V2_CO = """
import core
import guardrails
import nemoguardrails.library.self_check.output_check

flow main
  activate answering

flow answering
  user said something as $ref
  $answer = ..."Answer the user: {$ref.transcript}"
  bot say $answer
"""

LIB_REFUSAL = "I'm sorry, I can't respond to that."


def run_library_case(case):
    """Needs COLANGPATH=<repo root> in the environment BEFORE nemoguardrails is imported."""
    logging.disable(logging.CRITICAL)
    sys.path.insert(0, C.REPO)
    from nemoguardrails import LLMRails, RailsConfig
    from tests.utils import FakeLLM

    yml = LIB_YML.format(exc="true" if case["exc"] else "false")
    if case["ver"] == "v2":
        config = RailsConfig.from_content(LIB_V2_CO, 'colang_version: "2.x"\n' + yml)
    else:
        config = RailsConfig.from_content("", yml)
    config.config_path = ensure_cfg_dir()
    responses = []
    for t, b in enumerate(case["blocks"]):
        responses += [(f'"L{t}x0z"' if case["ver"] == "v2" else f"L{t}x0z"), "Yes" if b else "No"]
    app = LLMRails(config, llm=FakeLLM(responses=responses))
    out = []
    history, events, state = [], [], {}
    for t, b in enumerate(case["blocks"]):
        user = f"U{t}z"
        try:
            if case["ver"] == "v2":
                res = app.generate(messages=[{"role": "user", "content": user}], state=state)
                state = res.state
                msg = res.response[0]
                content = msg.get("content") or ""
                utter = [] if content == "" else content.split("\n")
                excs = [e.get("type") for e in msg.get("events", []) if str(e.get("type", "")).endswith("Exception")]
            elif case["api"] == "generate":
                history.append({"role": "user", "content": user})
                res = app.generate(messages=history)
                history.append(res)
                if res.get("role") == "exception":
                    utter, excs = [], [res["content"].get("type")]
                else:
                    utter, excs = [res.get("content")], []
            else:
                events.append({"type": "UtteranceUserActionFinished", "final_transcript": user})
                new = app.generate_events(events=list(events))
                events.extend(new)
                utter = [e.get("script") for e in new if e.get("type") == "StartUtteranceBotAction"]
                excs = [e.get("type") for e in new if str(e.get("type", "")).endswith("Exception")]
        except Exception as e:  # noqa: BLE001
            out.append({"error": f"{type(e).__name__}: {e}"[:300]})
            break
        out.append({"utter": utter, "exceptions": excs})
    return out


def library_oracle(case, observed):
    """A message the library rail blocked is released on NO channel; the refusal / the rail
    exception is; an allowed message is returned.  Yields (signature, what, turn)."""
    out = []
    chan = f"{case['ver']}-{case.get('api', 'generate')}"
    for t, (b, ob) in enumerate(zip(case["blocks"], observed)):
        if "error" in ob:
            out.append((f"library-self-check-output-{chan}-raised", f"turn {t}: {ob['error']}", t))
            break
        m = f"L{t}x0z"
        if b:
            if any(m in (u or "") for u in ob["utter"]):
                sig = ("library-self-check-output-blocked-text-released-with-rail-exceptions" if case["exc"]
                       else "library-self-check-output-blocked-text-released")
                out.append((sig, f"{chan}, enable_rails_exceptions={case['exc']}, turn {t}: `self check output` blocked {m} "
                                 f"but the caller receives utterances {ob['utter']} (exceptions {ob['exceptions']})", t))
            elif case["exc"] and ob["exceptions"] != ["OutputRailException"]:
                out.append(("library-self-check-output-no-exception", f"{chan} turn {t}: blocked, exceptions {ob['exceptions']}", t))
            elif not case["exc"] and ob["utter"] != [LIB_REFUSAL]:
                out.append(("library-self-check-output-no-refusal", f"{chan} turn {t}: blocked, utterances {ob['utter']}", t))
        elif ob["utter"] != [m]:
            out.append(("library-self-check-output-allowed-text-not-returned", f"{chan} turn {t}: allowed {m}, utterances {ob['utter']}", t))
    return out


def library_cases():
    cases = []
    for ver, api in (("v1", "generate"), ("v1", "events"), ("v2", "generate")):
        for exc in (False, True):
            for blocks in ([True], [False, True, False], [True, True, False], [False, False, True, False]):
                cases.append({"lib": "self_check_output", "ver": ver, "api": api, "exc": exc, "blocks": blocks})
    return cases


# ---- the shipped `self check input` as rail 0, followed by a scripted second input rail and the
# generation: {"lib": "input_chain", "ver", "exc", "blocks": [bool per turn]} (the judge blocks a
# user message that carries the marker)

CHAIN_YML = """
models: []
{rails}enable_rails_exceptions: {exc}
prompts:
  - task: self_check_input
    content: "JUDGE-INPUT: {{{{ user_input }}}}"
core:
  embedding_search_provider:
    name: verif
"""
CHAIN_V1_CO = """
define flow second rail
  $second = execute second_rail
"""
CHAIN_V2_CO = """
import core
import guardrails
import nemoguardrails.library.self_check.input_check

flow main
  activate answering

flow answering
  user said something as $ref
  $answer = ..."Answer the user: {$ref.transcript}"
  bot say $answer

flow input rails $input_text
  self check input
  await SecondRailAction(text=$input_text)
"""


def run_input_chain_case(case):
    logging.disable(logging.CRITICAL)
    sys.path.insert(0, C.REPO)
    from nemoguardrails import LLMRails, RailsConfig
    from nemoguardrails.actions import action
    from tests.utils import FakeLLM

    exc = "true" if case["exc"] else "false"
    if case["ver"] == "v2":
        config = RailsConfig.from_content(CHAIN_V2_CO, 'colang_version: "2.x"\n' + CHAIN_YML.format(rails="", exc=exc))
    else:
        rails = "rails:\n  input:\n    flows: [self check input, second rail]\n"
        config = RailsConfig.from_content(CHAIN_V1_CO, CHAIN_YML.format(rails=rails, exc=exc))
    config.config_path = ensure_cfg_dir()
    log = {"turn": 0, "seq": []}

    class Judge(FakeLLM):
        def _reply(self, prompt):
            text = prompt if isinstance(prompt, str) else json.dumps(prompt, default=str)
            if "JUDGE-INPUT: " in text:
                log["seq"].append("J")
                return "Yes" if JUDGE_MARK in text.split("JUDGE-INPUT: ", 1)[1] else "No"
            log["seq"].append("G")
            a = f"L{log['turn']}x0z"
            return f'"{a}"' if case["ver"] == "v2" else a

        def _call(self, prompt, stop=None, run_manager=None, **kw):
            return self._reply(prompt)

        async def _acall(self, prompt, stop=None, run_manager=None, **kw):
            return self._reply(prompt)

    app = LLMRails(config, llm=Judge(responses=[]))

    @action(name="second_rail", is_system_action=True)
    async def second_rail_v1(context=None):
        log["seq"].append("R")
        return True

    async def second_rail_v2(text=None):
        log["seq"].append("R")
        return True

    if case["ver"] == "v2":
        app.register_action(second_rail_v2, "SecondRailAction")
    else:
        app.register_action(second_rail_v1, "second_rail")
    out, history, state = [], [], {}
    for t, b in enumerate(case["blocks"]):
        log.update(turn=t, seq=[])
        user = f"U{t}z {JUDGE_MARK}" if b else f"U{t}z"
        try:
            if case["ver"] == "v2":
                res = app.generate(messages=[{"role": "user", "content": user}], state=state)
                state = res.state
                msg = res.response[0]
                content = msg.get("content") or ""
                utter = [] if content == "" else content.split("\n")
                excs = [e.get("type") for e in msg.get("events", []) if str(e.get("type", "")).endswith("Exception")]
            else:
                history.append({"role": "user", "content": user})
                res = app.generate(messages=history)
                history.append(res)
                if res.get("role") == "exception":
                    utter, excs = [], [res["content"].get("type")]
                else:
                    utter, excs = [res.get("content")], []
        except Exception as e:  # noqa: BLE001
            out.append({"seq": list(log["seq"]), "error": f"{type(e).__name__}: {e}"[:300]})
            break
        out.append({"seq": list(log["seq"]), "utter": utter, "exceptions": excs})
    return out


def input_chain_oracle(case, observed):
    """After the library rail rejects: no later rail call, no generation LLM call in that turn, the reply is
    the refusal / the rail exception.  Otherwise: judge, second rail, generation - in this order."""
    out = []
    chan = f"{case['ver']}, enable_rails_exceptions={case['exc']}"
    for t, (b, ob) in enumerate(zip(case["blocks"], observed)):
        if "error" in ob:
            out.append(("library-self-check-input-chain-raised", f"{chan}, turn {t}: {ob['error']}", t))
            break
        seq = ob["seq"]
        if b:
            if seq[:1] != ["J"]:
                out.append(("library-self-check-input-not-called-first", f"{chan}, turn {t}: calls {seq}", t))
            elif "R" in seq[1:]:
                out.append(("library-self-check-input-later-rail-runs-after-reject",
                            f"{chan}, turn {t}: `self check input` rejected, calls {seq} (J judge, R second rail, G generation), "
                            f"reply utterances {ob['utter']} exceptions {ob['exceptions']}", t))
            elif "G" in seq[1:]:
                out.append(("library-self-check-input-generation-after-reject",
                            f"{chan}, turn {t}: `self check input` rejected, calls {seq}, utterances {ob['utter']}", t))
            elif case["exc"] and ob["exceptions"] != ["InputRailException"]:
                out.append(("library-self-check-input-no-exception", f"{chan}, turn {t}: exceptions {ob['exceptions']} utterances {ob['utter']}", t))
            elif not case["exc"] and ob["utter"] != [LIB_REFUSAL]:
                out.append(("library-self-check-input-no-refusal", f"{chan}, turn {t}: utterances {ob['utter']}", t))
        else:
            if seq != ["J", "R", "G"] or ob["utter"] != [f"L{t}x0z"]:
                out.append(("library-self-check-input-accepted-turn-differs",
                            f"{chan}, turn {t}: calls {seq}, utterances {ob['utter']}", t))
    return out


def input_chain_cases():
    return [{"lib": "input_chain", "ver": ver, "exc": exc, "blocks": blocks}
            for ver in ("v1", "v2") for exc in (False, True)
            for blocks in ([True], [False, True, False], [True, True, False], [False, False, True, True])]


# ---- entry points x passthrough x a bot message generated INSIDE the turn of a rewriting input rail:
# {"lib": "rewrite_entry", "entry": "prompt"|"messages", "passthrough": bool, "ack": "none"|"predef"|"llm",
#  "rewrites": [bool per turn]}.  The input rail replaces $user_message by a masked text and (ack) lets the
# bot acknowledge it - with a predefined message or one generated by the LLM (generate_bot_message).
# Observed: for every prompt the LLM receives, whether it contains the ORIGINAL / the REWRITTEN text.

REWRITE_CO = """
define flow mask rail
  $masked = execute mask_rail
  if $masked != $user_message
    $user_message = $masked
{ack}
"""


def run_rewrite_entry_case(case):
    logging.disable(logging.CRITICAL)
    sys.path.insert(0, C.REPO)
    from nemoguardrails import LLMRails, RailsConfig
    from nemoguardrails.actions import action
    from tests.utils import FakeLLM

    ack = {"none": "", "predef": "    bot acknowledge masking", "llm": "    bot acknowledge masking"}[case["ack"]]
    co = REWRITE_CO.format(ack=ack)
    if case["ack"] == "predef":
        co += '\ndefine bot acknowledge masking\n  "ACKz"\n'
    yml = "models: []\nrails:\n  input:\n    flows: [mask rail]\n"
    if case["passthrough"]:
        yml += "passthrough: true\n"
    yml += "core:\n  embedding_search_provider:\n    name: verif\n"
    config = RailsConfig.from_content(co, yml)
    config.config_path = ensure_cfg_dir()
    log = {"turn": 0, "prompts": []}

    class Rec(FakeLLM):
        def _reply(self, prompt):
            text = prompt if isinstance(prompt, str) else json.dumps(prompt, default=str)
            t = log["turn"]
            log["prompts"].append({"original": f"SECRET{t}z" in text, "rewritten": f"MASKED{t}z" in text,
                                   "earlier_original": any(f"SECRET{k}z" in text for k in range(t))})
            return f"L{t}x{len(log['prompts'])}z"

        def _call(self, prompt, stop=None, run_manager=None, **kw):
            return self._reply(prompt)

        async def _acall(self, prompt, stop=None, run_manager=None, **kw):
            return self._reply(prompt)

    app = LLMRails(config, llm=Rec(responses=[]))

    @action(name="mask_rail", is_system_action=True)
    async def mask_rail(context=None):
        return re.sub(r"SECRET(\d+)z", r"MASKED\1z", (context or {}).get("user_message") or "")

    app.register_action(mask_rail, "mask_rail")
    out, history = [], []
    for t, rw in enumerate(case["rewrites"]):
        log.update(turn=t, prompts=[])
        user = f"please use SECRET{t}z now" if rw else f"plain question {t}"
        try:
            if case["entry"] == "prompt":
                reply = app.generate(prompt=user)
            else:
                history.append({"role": "user", "content": user})
                res = app.generate(messages=history)
                history.append(res)
                reply = res.get("content") if res.get("role") != "exception" else "<exception>"
        except Exception as e:  # noqa: BLE001
            out.append({"prompts": list(log["prompts"]), "error": f"{type(e).__name__}: {e}"[:300]})
            break
        out.append({"prompts": list(log["prompts"]), "reply": str(reply)[:200],
                    "reply_has_original": f"SECRET{t}z" in str(reply)})
    return out


def rewrite_entry_oracle(case, observed):
    """If a rail rewrites the message, every later stage - including every prompt sent to the LLM, in this
    turn and in later turns of the conversation - sees only the rewritten text."""
    out = []
    chan = f"generate({case['entry']}=...), passthrough={case['passthrough']}, bot message in the rail: {case['ack']}"
    for t, (rw, ob) in enumerate(zip(case["rewrites"], observed)):
        if "error" in ob:
            out.append(("v1-rewrite-entry-raised", f"{chan}, turn {t}: {ob['error']}", t))
            break
        for i, pr in enumerate(ob["prompts"]):
            if rw and pr["original"]:
                out.append(("v1-original-text-in-prompt",
                            f"{chan}, turn {t}: LLM prompt #{i} of the turn contains the ORIGINAL text although the input "
                            f"rail rewrote $user_message (rewritten text present: {pr['rewritten']})", t))
            if pr["earlier_original"] and case["entry"] == "messages" and not case["passthrough"]:
                out.append(("v1-original-text-in-prompt",
                            f"{chan}, turn {t}: LLM prompt #{i} contains the original text of an earlier rewritten turn", t))
    return out


def rewrite_entry_cases():
    return [{"lib": "rewrite_entry", "entry": e, "passthrough": p, "ack": a, "rewrites": rws}
            for e in ("prompt", "messages") for p in (False, True) for a in ("none", "predef", "llm")
            for rws in ([True], [False, True, True])]


# ---- the library rails driven by a JUDGE whose verdict is a function of the prompt it is shown
# (marker present => block), with texts of edge sizes: the rail must be shown the COMPLETE text
# that is later released (or the text is refused / the turn fails closed)

JUDGE_MARK = "FORBIDDENz"
JUDGE_SIZES = [1, 100, 7999, 8001, 20000]
JUDGE_POS = ["none", "begin", "middle", "end"]
JUDGE_YML = """
models: []
rails:
  {side}:
    flows: [self check {side}]
enable_rails_exceptions: false
prompts:
  - task: self_check_{side}
    content: "JUDGE-{SIDE}: {{{{ {var} }}}}"
core:
  embedding_search_provider:
    name: verif
"""
JUDGE_V2_CO = LIB_V2_CO.replace("import nemoguardrails.library.self_check.output_check",
                                "import nemoguardrails.library.self_check.SIDE_check")


def judge_text(size, pos):
    """A text of about `size` characters (no quotes/newlines, no outer blanks) with the marker at pos."""
    filler = ("lorem ipsum " * (size // 12 + 1))[:size].strip() or "a"
    if len(filler) < size:
        filler = filler + "x" * (size - len(filler))
    if pos == "none":
        return filler
    if pos == "begin":
        return (JUDGE_MARK + " " + filler)[:max(size, len(JUDGE_MARK))].strip()
    if pos == "end":
        return (filler[:max(0, size - len(JUDGE_MARK) - 1)] + " " + JUDGE_MARK).strip()
    h = max(0, (size - len(JUDGE_MARK)) // 2)
    return (filler[:h] + " " + JUDGE_MARK + " " + filler[h:max(h, size - len(JUDGE_MARK) - 2)]).strip()


def run_library_judge_case(case):
    logging.disable(logging.CRITICAL)
    sys.path.insert(0, C.REPO)
    from nemoguardrails import LLMRails, RailsConfig
    from tests.utils import FakeLLM

    side = case["rail"]
    yml = JUDGE_YML.format(side=side, SIDE=side.upper(), var="bot_response" if side == "output" else "user_input")
    if case["ver"] == "v2":
        config = RailsConfig.from_content(JUDGE_V2_CO.replace("SIDE", side), 'colang_version: "2.x"\n' + yml)
    else:
        config = RailsConfig.from_content("", yml)
    config.config_path = ensure_cfg_dir()
    sized = judge_text(case["size"], case["pos"])
    if side == "output":
        users, answers = ["hello", "tell me"], ["short clean answer", sized]
    else:
        users, answers = ["hello", sized], ["first answer", "second answer"]
    log = {"turn": 0, "shown": [], "gen": 0}

    class Judge(FakeLLM):
        def _reply(self, prompt):
            text = prompt if isinstance(prompt, str) else json.dumps(prompt, default=str)
            tag = f"JUDGE-{side.upper()}: "
            if tag in text:
                shown = text.split(tag, 1)[1]
                log["shown"].append(shown)
                return "Yes" if JUDGE_MARK in shown else "No"
            log["gen"] += 1
            a = answers[log["turn"]]
            return f'"{a}"' if case["ver"] == "v2" else a

        def _call(self, prompt, stop=None, run_manager=None, **kw):
            return self._reply(prompt)

        async def _acall(self, prompt, stop=None, run_manager=None, **kw):
            return self._reply(prompt)

    app = LLMRails(config, llm=Judge(responses=[]))
    out, history, state = [], [], {}
    for t in range(2):
        log.update(turn=t, shown=[], gen=0)
        full = answers[t] if side == "output" else users[t]
        ob = {}
        try:
            if case["ver"] == "v2":
                res = app.generate(messages=[{"role": "user", "content": users[t]}], state=state)
                state = res.state
                msg = res.response[0]
                content = msg.get("content") or ""
                utter = [content] if content else []
            else:
                history.append({"role": "user", "content": users[t]})
                res = app.generate(messages=history)
                history.append(res)
                utter = [] if res.get("role") == "exception" else [res.get("content") or ""]
        except Exception as e:  # noqa: BLE001 - fail-closed as far as C02 is concerned; recorded
            ob["error"] = f"{type(e).__name__}: {e}"[:200]
            utter = []
        ob.update({"text_len": len(full), "gen_calls": log["gen"],
                   "shown": [{"len": len(x), "complete": full in x, "marker": JUDGE_MARK in x} for x in log["shown"]],
                   "utter": [{"len": len(u), "is_full_text": u == answers[t], "marker": JUDGE_MARK in u, "head": u[:60]}
                             for u in utter]})
        out.append(ob)
        if "error" in ob:
            break
    return out


def library_judge_oracle(case, observed):
    """The rail is SHOWN the complete text: an LLM answer that is released to the caller was contained
    completely in a prompt of `self check output`; a generation step runs only after
    `self check input` was shown the complete user message.  A marked text is never released."""
    out = []
    side, chan = case["rail"], f"{case['ver']}-size{case['size']}-{case['pos']}"
    for t, ob in enumerate(observed):
        complete = any(x["complete"] for x in ob.get("shown", []))
        if side == "output":
            for u in ob.get("utter", []):
                if u["marker"]:
                    out.append(("library-self-check-output-marked-text-released",
                                f"{chan}, turn {t}: the released answer ({u['len']} chars) contains the marker the judge blocks; "
                                f"the rail was shown {[(x['len'], x['complete']) for x in ob['shown']]} (len, complete)", t))
                elif u["is_full_text"] and not complete:
                    out.append(("library-self-check-output-not-shown-the-complete-text",
                                f"{chan}, turn {t}: answer of {u['len']} chars released, the rail was shown "
                                f"{[(x['len'], x['complete']) for x in ob['shown']]} (len, complete)", t))
        else:
            if ob.get("gen_calls", 0) > 0 and not complete:
                out.append(("library-self-check-input-not-shown-the-complete-text",
                            f"{chan}, turn {t}: generation ran on a user message of {ob['text_len']} chars, the rail was shown "
                            f"{[(x['len'], x['complete']) for x in ob['shown']]} (len, complete)", t))
            if ob.get("gen_calls", 0) > 0 and t == 1 and case["pos"] != "none":
                out.append(("library-self-check-input-marked-text-reached-generation",
                            f"{chan}, turn {t}: a marked user message reached the LLM", t))
    return out


def library_judge_cases(rail):
    return [{"lib": "judge", "rail": rail, "ver": ver, "size": size, "pos": pos}
            for ver in ("v1", "v2") for size in JUDGE_SIZES for pos in JUDGE_POS]


def run_any_library_case(c):
    kind = c.get("lib")
    if kind == "judge":
        return run_library_judge_case(c)
    if kind == "input_chain":
        return run_input_chain_case(c)
    if kind == "rewrite_entry":
        return run_rewrite_entry_case(c)
    return run_library_case(c)


def any_library_oracle(c, observed):
    kind = c.get("lib")
    if kind == "judge":
        return library_judge_oracle(c, observed)
    if kind == "input_chain":
        return input_chain_oracle(c, observed)
    if kind == "rewrite_entry":
        return rewrite_entry_oracle(c, observed)
    return library_oracle(c, observed)


def library_cases_for(pid):
    """The shipped library rails each property probes."""
    if pid == "C01":
        return input_chain_cases() + library_judge_cases("input") + rewrite_entry_cases()
    return library_cases() + library_judge_cases("output")


def run_library_probe(cases, tag, jobs=8):
    """Runs the library cases in child processes (COLANGPATH must be set before nemoguardrails is imported)."""
    d = os.path.join(C.BUILD, "pipe", tag)
    os.makedirs(d, exist_ok=True)
    env = dict(os.environ)
    env.update(C.impl_env())
    env["COLANGPATH"] = C.REPO
    n = max(1, min(jobs, len(cases)))
    procs = []
    for ci in range(n):
        idxs = list(range(ci, len(cases), n))
        pin, pout = os.path.join(d, f"lib_in_{ci}.json"), os.path.join(d, f"lib_out_{ci}.json")
        with open(pin, "w") as f:
            json.dump([cases[i] for i in idxs], f)
        if os.path.exists(pout):
            os.remove(pout)
        errf = open(os.path.join(d, f"lib_err_{ci}.log"), "w")
        p = subprocess.Popen(["timeout", "900", C.PY, "-m", "harness.pipe_driver", "--library", pin, pout],
                             cwd=C.VERIF, env=env, stdout=subprocess.DEVNULL, stderr=errf)
        procs.append((p, idxs, pout, errf))
    results = [None] * len(cases)
    for p, idxs, pout, errf in procs:
        p.wait()
        errf.close()
        if p.returncode != 0 or not os.path.exists(pout):
            return None, f"library probe rc={p.returncode}: {open(errf.name, errors='replace').read()[-1500:]}"
        for i, o in zip(idxs, json.load(open(pout))):
            results[i] = o
    return results, None


# ---------------------------------------------------------------------------------------
# parallel execution: chunks of cases in child processes (each under a shell timeout)


def run_cases_parallel(cases, tag, jobs=None, timeout=900):
    jobs = jobs or C.NPROC
    d = os.path.join(C.BUILD, "pipe", tag)
    os.makedirs(d, exist_ok=True)
    # interleave so that every worker gets a similar mix (an LLMRails instance is built once per
    # configuration and process; there are few configurations)
    n_chunks = max(1, min(jobs, len(cases)))
    chunks = [list(range(ci, len(cases), n_chunks)) for ci in range(n_chunks)]
    procs = []
    env = dict(os.environ)
    env.update(C.impl_env())
    for ci, idxs in enumerate(chunks):
        pin, pout = os.path.join(d, f"in_{ci}.json"), os.path.join(d, f"out_{ci}.json")
        with open(pin, "w") as f:
            json.dump([cases[i] for i in idxs], f)
        if os.path.exists(pout):
            os.remove(pout)
        errf = open(os.path.join(d, f"err_{ci}.log"), "w")
        p = subprocess.Popen(["timeout", str(timeout), C.PY, "-m", "harness.pipe_driver", "--worker", pin, pout],
                             cwd=C.VERIF, env=env, stdout=subprocess.DEVNULL, stderr=errf)
        procs.append((p, idxs, pout, errf))
    results = [None] * len(cases)
    errors = []
    for p, idxs, pout, errf in procs:
        p.wait()
        errf.close()
        if p.returncode != 0 or not os.path.exists(pout):
            tail = open(errf.name, errors="replace").read()[-1500:]
            errors.append(f"worker rc={p.returncode}: {tail}")
            continue
        outs = json.load(open(pout))
        for i, o in zip(idxs, outs):
            results[i] = o
    return results, errors


def _worker(pin, pout):
    cases = json.load(open(pin))
    outs = []
    for c in cases:
        try:
            outs.append(run_case(c))
        except Exception as e:  # noqa: BLE001 - building/driving failed: reported as an observation
            outs.append([{"obs": [], "error": f"driver: {type(e).__name__}: {e}"[:300]}])
    with open(pout, "w") as f:
        json.dump(outs, f)


# ---------------------------------------------------------------------------------------
# Coq terms

PREAMBLE = """From Coq Require Import List String Bool Arith.
From NG Require Import Pipe.Rails Pipe.TurnV1 Pipe.TurnV2 Pipe.PipeRun.
Import ListNotations.
Open Scope string_scope.
Open Scope list_scope.
"""


def coq_verdict(v):
    if v == "a":
        return "Accept"
    if v == "r":
        return "Reject"
    return f"(Rewrite {C.coq_string(v[1])})"


def coq_opt_str(x):
    return "None" if x is None else f"(Some {C.coq_string(str(x))})"


KIND = {"general": "KGeneral", "passthrough": "KPassthrough", "generate_user_intent": "KIntent",
        "generate_next_steps": "KNext", "generate_bot_message": "KBotMsg", "value": "KValue"}


def rail_id(name):
    m = re.fullmatch(r"(in|out) rail (\d+)", name or "")
    if not m:
        return None
    return int(m.group(2)) + (100 if m.group(1) == "out" else 0)


def coq_opt_rail(name):
    if name is None:
        return "None"
    r = rail_id(name)
    return "(Some 999)" if r is None else f"(Some {r})"


def parse_exc(reply):
    """('I'|'O', k) of a rail-exception reply, or None."""
    typ, msg = reply[1], reply[2] or ""
    m = re.fullmatch(r"(Input|Output) blocked by (in|out) rail (\d+)", msg)
    if m and typ == m.group(1) + "RailException" and (m.group(1) == "Input") == (m.group(2) == "in"):
        return ("I" if m.group(1) == "Input" else "O"), int(m.group(3))
    return None


def coq_reply(reply):
    if reply[0] == "msg":
        content = reply[1]
        parts = [] if content in ("", None) else str(content).split("\n")
        return "(RMsg " + C.coq_list([C.coq_string(p) for p in parts]) + ")"
    pe = parse_exc(reply)
    if pe:
        return f"(RExc SIn {pe[1]})" if pe[0] == "I" else f"(RExc SOut {100 + pe[1]})"
    return '(RMsg ["<unrecognised exception>"])'


def coq_obs(o):
    if o[0] == "A":
        return None   # the custom action call itself is not part of the model's trace
    if o[0] in ("I", "O"):
        side = "SIn" if o[0] == "I" else "SOut"
        rid = o[1] + (100 if o[0] == "O" else 0)
        return f"(ORail {side} {rid} {C.coq_string('<None>' if o[2] is None else str(o[2]))})"
    kind = KIND.get(o[1]) or "KGeneral"
    return f"(OLLM {kind} {o[2]} {C.coq_list([C.coq_string(m) for m in o[3]])})"


def coq_exp(ver, t):
    if "error" in t:
        # an exception escaped `generate`: never equal to anything the model produces
        return '(mkExp [] (RMsg ["<generate raised>"]) false None None None None [])'
    ctx = t["ctx"]
    ti = coq_opt_rail(ctx.get("triggered_input_rail")) if ver == "v1" else "None"
    to = coq_opt_rail(ctx.get("triggered_output_rail")) if ver == "v1" else "None"
    return ("(mkExp " + C.coq_list([x for x in (coq_obs(o) for o in t["obs"]) if x is not None]) + " " + coq_reply(t["reply"]) + " "
            + C.coq_bool(bool(t["flag"])) + " " + coq_opt_str(ctx.get("user_message")) + " "
            + coq_opt_str(ctx.get("bot_message")) + " " + ti + " " + to + " "
            + C.coq_list([C.coq_string(str(x)) for x in t.get("utter", [])]) + ")")


def coq_turns(case):
    ts = []
    for t in case["turns"]:
        ts.append("(mkTC " + C.coq_string(t["user"]) + " " + C.coq_list([coq_verdict(v) for v in t["iv"]]) + " "
                  + C.coq_list([coq_verdict(v) for v in t["ov"]]) + " "
                  + C.coq_list([C.coq_string(x) for x in t.get("llm", [])]) + " "
                  + C.coq_string(t.get("act", "")) + " "
                  + C.coq_bool((t.get("opt") or {}).get("input", True)) + " "
                  + C.coq_bool((t.get("opt") or {}).get("output", True)) + ")")
    return C.coq_list(ts)


def coq_cfg(case):
    ins = C.coq_list([str(k) for k in range(case["n_in"])])
    outs = C.coq_list([str(100 + k) for k in range(case["n_out"])])
    if case["ver"] == "v1":
        return (f"(mkCfg {ins} {outs} {C.coq_bool(case['mode'] == 'dialog')} {C.coq_bool(case['exc'])} "
                f"{C.coq_bool(case['mode'] == 'passthrough')})")
    return f"(mkCfg2 {ins} {outs} {C.coq_bool(case['exc'])})"


def case_term(case, observed):
    exps = C.coq_list([coq_exp(case["ver"], t) for t in observed])
    # a conversation cut short by an escaping exception is compared against the full model run => mismatch
    return f"({coq_cfg(case)}, {coq_turns(case)}, {exps})"


# ---------------------------------------------------------------------------------------
# case generation (texts are unique marker tokens)


def llm_script(mode, ver, t, kind, salt=""):
    """Scripted completions of turn t (what the FakeLLM returns at call 0, 1, 2)."""
    if ver == "v2":
        return [f'"L{t}x0{salt}z"']
    if mode in ("general", "passthrough"):
        return [f"L{t}x0{salt}z"]
    if kind == "p":
        return ["  express greeting"]
    if kind == "v":
        return ["  ask rag"]
    if kind == "f":
        return ["  ask question", f'  "L{t}x1{salt}z"']
    return ["  ask something else", "bot respond something", f'  "L{t}x2{salt}z"']


def mk_turn(ver, mode, t, iv, ov, kind="", salt=""):
    def vv(side, k, v):
        return ["w", f"R{side}{t}x{k}{salt}z"] if v == "w" else v
    turn = {"user": f"U{t}{salt}z", "iv": [vv("I", k, v) for k, v in enumerate(iv)],
            "ov": [vv("O", k, v) for k, v in enumerate(ov)], "kind": kind,
            "llm": llm_script(mode, ver, t, kind, salt)}
    if kind == "v":
        turn["act"] = f"L{t}x9{salt}z"   # text produced by the custom action (an LLM-marker: provenance FromLLM)
    return turn


def bot_text_of(turn):
    """The marker text of the LLM-/action-generated bot message of a scripted turn (or None)."""
    if turn.get("act"):
        return turn["act"]
    for comp in turn.get("llm", []):
        m = re.search(r"L[0-9]+x[0-9]+(?:y[0-9a-f]+)?z", comp)
        if m:
            return m.group(0)
    return None


def set_bot_text(turn, text):
    old = bot_text_of(turn)
    if old is None:
        return
    if turn.get("act"):
        turn["act"] = text
    turn["llm"] = [c.replace(old, text) for c in turn["llm"]]


def reuse_cases(focus, rng, n_per_config=14):
    """Conversations that REUSE texts: the same user text in consecutive / non-consecutive turns
    (after accept, after reject, after rewrite), the same LLM text in two turns, a user text equal
    to an earlier bot text or to the target of an earlier rewrite.  Nothing in the property
    depends on texts being new, so every turn's rail calls must be those of a fresh conversation."""
    cases = []
    configs = [("v1", m, e) for m, e in V1_CONFIGS] + [("v2", "", False), ("v2", "", True)]
    for ver, mode, exc in configs:
        alpha = ["a", "r", "w"] if ver == "v1" else ["a", "r"]
        for i in range(n_per_config):
            n_in, n_out = rng.choice([(2, 1), (1, 2), (3, 1), (1, 1)])
            T = 4
            turns = []
            for t in range(T):
                iv = rand_vec(rng, n_in, alpha, 0.55)
                ov = rand_vec(rng, n_out, alpha, 0.6)
                kind = rng.choice(["p", "f", "n", "f", "v"]) if mode == "dialog" else ""
                turns.append(mk_turn(ver, mode, t, iv, ov, kind))
            # the systematic patterns first, then random reuse
            pat = i % 7
            if pat == 0:      # retry of a just-rejected message; then the same text accepted twice
                turns[0]["iv"] = ["a"] * (n_in - 1) + ["r"]
                turns[1]["user"] = turns[0]["user"]
                turns[1]["iv"] = ["a"] * (n_in - 1) + ["r"]
                turns[2]["user"] = turns[0]["user"]
                turns[2]["iv"] = ["a"] * n_in
                turns[3]["user"] = turns[0]["user"]
                turns[3]["iv"] = ["r"] + ["a"] * (n_in - 1)
            elif pat == 1:    # accepted, then the same text again with a rejecting verdict
                turns[0]["iv"] = ["a"] * n_in
                turns[1]["user"] = turns[0]["user"]
                turns[1]["iv"] = ["r"] + ["a"] * (n_in - 1)
                turns[3]["user"] = turns[0]["user"]
            elif pat == 2:    # non-consecutive repetition
                turns[2]["user"] = turns[0]["user"]
                turns[3]["user"] = turns[1]["user"]
            elif pat == 3:    # the same LLM text in two turns, blocked once and passed once
                for t in (1, 2, 3):
                    set_bot_text(turns[t], bot_text_of(turns[0]) or "L0x0z")
                turns[1]["ov"] = ["r"] + ["a"] * (n_out - 1)
                turns[2]["ov"] = ["a"] * n_out
            elif pat == 4:    # user text equal to an earlier bot text
                bt = bot_text_of(turns[0])
                if bt:
                    turns[1]["user"] = bt
                    turns[3]["user"] = bt
            elif pat == 5 and ver == "v1":   # a rewrite to a text that equals another turn's user text; then that text itself
                turns[0]["iv"] = [["w", turns[1]["user"]]] + ["a"] * (n_in - 1)
                turns[2]["user"] = turns[0]["user"]
                turns[2]["iv"] = [["w", turns[1]["user"]]] + ["a"] * (n_in - 1)
            else:             # random reuse
                for t in range(1, T):
                    if rng.random() < 0.6:
                        turns[t]["user"] = turns[rng.randrange(t)]["user"]
                    if rng.random() < 0.3:
                        set_bot_text(turns[t], bot_text_of(turns[rng.randrange(t)]) or f"L{t}x0z")
            cases.append({"ver": ver, "mode": mode, "exc": exc, "n_in": n_in, "n_out": n_out, "turns": turns})
    return cases


def all_vectors(n, alphabet):
    if n == 0:
        return [[]]
    return [[a] + rest for a in alphabet for rest in all_vectors(n - 1, alphabet)]



V1_CONFIGS = [("general", False), ("general", True), ("passthrough", False), ("dialog", False), ("dialog", True)]


def rand_vec(rng, n, alphabet, p_accept=0.6):
    return [("a" if rng.random() < p_accept else rng.choice(alphabet)) for _ in range(n)]


def blank_cases(rng):
    """Empty and whitespace-only user messages (a spurious ASR result, an empty form field): they are
    user messages like any other - all input rails, in order, before anything else."""
    cases = []
    for ver, mode, exc in (("v2", "", False), ("v2", "", True), ("v1", "general", False)):
        for n_in, n_out in ((1, 1), (2, 1)):
            for pat in range(4):
                turns = []
                for t in range(3):
                    iv = rand_vec(rng, n_in, ["a", "r"], 0.6)
                    ov = ["a"] * n_out
                    turns.append(mk_turn(ver, mode, t, iv, ov, ""))
                blank = ["", "  "][pat % 2]
                if pat < 2:      # a blank first message that a rail rejects, then a normal one, then blank accepted
                    turns[0]["user"], turns[0]["iv"] = blank, ["a"] * (n_in - 1) + ["r"]
                    turns[2]["user"], turns[2]["iv"] = blank, ["a"] * n_in
                else:            # normal, blank rejected by rail 0, the other blank accepted
                    turns[1]["user"], turns[1]["iv"] = blank, ["r"] + ["a"] * (n_in - 1)
                    turns[2]["user"], turns[2]["iv"] = ["  ", ""][pat % 2], ["a"] * n_in
                cases.append({"ver": ver, "mode": mode, "exc": exc, "n_in": n_in, "n_out": n_out, "turns": turns})
    return cases


def state_api_cases(focus, rng, n_per_config=8):
    """Colang 1.0 served through the explicit state API (`generate(messages=[new], state=prev.state)`)
    with PER-CALL generation options: one call switches a rails category off, the other calls
    bring no options - they must run all their rails again (options are per call; the state
    carries none)."""
    cases = []
    for mode, exc in (("general", False), ("general", True), ("dialog", False), ("dialog", True)):
        for i in range(n_per_config):
            n_in, n_out = rng.choice([(1, 2), (2, 1), (1, 1), (2, 2)])
            T = 4
            turns = []
            for t in range(T):
                iv = rand_vec(rng, n_in, ["a", "r", "w"], 0.6)
                ov = rand_vec(rng, n_out, ["a", "r", "w"], 0.5)
                kind = rng.choice(["p", "f", "n", "v"]) if mode == "dialog" else ""
                turns.append(mk_turn("v1", mode, t, iv, ov, kind))
            p = i % 3
            side = "output" if (focus == "out" or i % 2 == 0) else "input"
            turns[p]["opt"] = {"input": side != "input", "output": side != "output"}
            if mode == "dialog" and turns[p + 1]["kind"] == "p":
                turns[p + 1] = mk_turn("v1", mode, p + 1, turns[p + 1]["iv"], turns[p + 1]["ov"], "f")
            if side == "output":
                turns[p]["iv"] = ["a"] * n_in
                turns[p + 1]["iv"] = ["a"] * n_in
                turns[p + 1]["ov"] = [rng.choice(["r", ["w", f"RO{p + 1}x0z"]])] + ["a"] * (n_out - 1)
            else:
                turns[p + 1]["iv"] = [rng.choice(["r", ["w", f"RI{p + 1}x0z"]])] + ["a"] * (n_in - 1)
            if i % 4 == 3:   # two different calls with options
                q = (p + 2) % T
                turns[q]["opt"] = {"input": rng.random() < 0.5, "output": rng.random() < 0.5}
            cases.append({"ver": "v1", "mode": mode, "exc": exc, "n_in": n_in, "n_out": n_out, "api": "state",
                          "turns": turns})
    return cases


def gen_cases(focus, tier, rng):
    """focus 'in' (C01) / 'out' (C02): every verdict vector of the focused side at every turn
    position of a conversation, for every configuration; the other turns and the other side
    are drawn from rng.  thorough adds 4 rails / 4-5 turns / salted (random) texts."""
    cases = []
    T = 3 if focus == "in" else 4
    shapes_v1 = [(3, 1), (2, 2), (1, 0)] if focus == "in" else [(1, 2), (2, 1), (0, 1)]
    shapes_v2 = [(3, 1), (2, 2), (1, 0)] if focus == "in" else [(1, 2), (2, 1), (0, 1)]

    def conv(ver, mode, exc, n_in, n_out, p, vec, T, salt=""):
        alpha = ["a", "r", "w"] if ver == "v1" else ["a", "r"]
        turns = []
        for t in range(T):
            iv = rand_vec(rng, n_in, alpha)
            ov = rand_vec(rng, n_out, alpha)
            if t == p:
                if focus == "in":
                    iv = list(vec)
                else:
                    ov = list(vec)
                    iv = ["a"] * n_in if rng.random() < 0.8 else iv
            kind = rng.choice(["p", "f", "n", "v"]) if mode == "dialog" else ""
            if mode == "dialog" and focus == "out" and t == p:
                kind = rng.choice(["f", "n", "v", "v", "p"])
            turns.append(mk_turn(ver, mode, t, iv, ov, kind, salt))
        return {"ver": ver, "mode": mode, "exc": exc, "n_in": n_in, "n_out": n_out, "turns": turns}

    for mode, exc in V1_CONFIGS:
        for n_in, n_out in shapes_v1:
            n = n_in if focus == "in" else n_out
            for p in range(T):
                for vec in all_vectors(n, ["a", "r", "w"]):
                    cases.append(conv("v1", mode, exc, n_in, n_out, p, vec, T))
    for exc in (False, True):
        for n_in, n_out in shapes_v2:
            n = n_in if focus == "in" else n_out
            for p in range(T):
                for vec in all_vectors(n, ["a", "r"]):
                    cases.append(conv("v2", "", exc, n_in, n_out, p, vec, T))
    cases += reuse_cases(focus, rng, 14 if tier == "quick" else 70)
    cases += blank_cases(rng)
    # the messages API is also exercised WITH (neutral) generation options on every call
    names = ["none", "log", "rails_all", "none", "llm_params", "llm_output", "log"]
    for i, c in enumerate(cases):
        if c["ver"] == "v1":
            c["api"] = "messages"
            c["options"] = names[(i + len(c["turns"][0]["iv"])) % len(names)]
    cases += state_api_cases(focus, rng, 8 if tier == "quick" else 40)
    if tier == "thorough":
        for i in range(1500):
            ver = rng.choice(["v1", "v1", "v2"])
            mode, exc = rng.choice(V1_CONFIGS) if ver == "v1" else ("", rng.random() < 0.5)
            # a Colang 1.0 turn may produce at most 100 events (runtime.py raises "Too many events."):
            # reached with 7 rails in general mode, 6 in dialog mode - stay below the cap
            cap = 8 if ver == "v2" else (5 if mode == "dialog" else 6)
            while True:
                n_in, n_out = rng.randint(0, 4), rng.randint(0, 4)
                if n_in + n_out <= cap:
                    break
            TT = rng.choice([4, 5])
            salt = "y%x" % rng.getrandbits(20)
            p = rng.randrange(TT)
            n = n_in if focus == "in" else n_out
            vec = rand_vec(rng, n, ["a", "r", "w"] if ver == "v1" else ["a", "r"], 0.3)
            cases.append(conv(ver, mode, exc, n_in, n_out, p, vec, TT, salt))
    return cases



# ---------------------------------------------------------------------------------------
# the check skeleton shared by C01 and C02 (CONVENTIONS section 3)


def conv_size(case):
    return sum(len(json.dumps(t)) for t in case["turns"])


def shrink_case(case, still_bad, budget=40):
    """Greedy reduction of a conversation that still fails `still_bad(case) -> bool` (runs the
    implementation): drop trailing turns, turn verdicts into accepts."""
    import copy

    cur = copy.deepcopy(case)
    steps = 0
    changed = True
    while changed and steps < budget:
        changed = False
        dropped = False
        for ti in reversed(range(len(cur["turns"]))):
            if len(cur["turns"]) > 1 and steps < budget:
                cand = copy.deepcopy(cur)
                del cand["turns"][ti]
                steps += 1
                if still_bad(cand):
                    cur, changed, dropped = cand, True, True
                    break
        if dropped:
            continue
        for ti, t in enumerate(cur["turns"]):
            for side in ("iv", "ov"):
                for k, v in enumerate(t[side]):
                    if v != "a" and steps < budget:
                        cand = copy.deepcopy(cur)
                        cand["turns"][ti][side][k] = "a"
                        steps += 1
                        if still_bad(cand):
                            cur, changed = cand, True
    return cur


def run_check(pid, gen, focus, oracle, tier, seed, replay, checker_cmd, rule, assumptions, notes=(), library=False):
    import random

    out = C.Outcome(pid, tier, seed)
    rng = random.Random(seed * 1000003 + (1 if focus == "in" else 2))
    b = C.build_and_audit(pid, gen)
    C.proof_coverage(out, b, checker_cmd)
    for br in b["broken"]:
        out.add_broken(br, b["log"])
    # the executable model must build for the correspondence even when a proof is broken
    with C.BuildLock():
        okm, logm = C.coq_make(["theories/Pipe/PipeRun.vo"])
    if not okm:
        out.add_broken("coq:theories/Pipe/PipeRun.v", logm)

    cases, origin, corpus_lib = [], [], []
    corpus_dir = os.path.join(C.VERIF, "corpus", pid)
    if os.path.isdir(corpus_dir):
        for fn in sorted(os.listdir(corpus_dir)):
            if fn.endswith(".json"):
                d = json.load(open(os.path.join(corpus_dir, fn)))
                if "lib" in d["case"]:
                    corpus_lib.append(d["case"])
                    continue
                cases.append(d["case"])
                origin.append("corpus:" + fn)
    lib_cases = (corpus_lib if library else []) + (library_cases_for(pid) if (library and not replay) else [])
    if replay:
        d = json.load(open(replay))
        r = d.get("replay", d)
        if "case" in r and "lib" in r["case"]:
            lib_cases.append(r["case"])
        elif "case" in r:
            cases.append(r["case"])
            origin.append("replay")
    if not replay:
        for c in gen_cases(focus, tier, rng):
            cases.append(c)
            origin.append("gen")

    import time as _time
    _t0 = _time.time()
    results, errors = run_cases_parallel(cases, pid.lower())
    t_impl = round(_time.time() - _t0, 1)
    for e in errors:
        out.add_broken(f"harness:{pid}-worker", e)

    # ---- correspondence with the model (evaluated inside Coq).  Gen/C01Flows.v is shared by every
    # run of C01/C02 (possibly with another VERIF_REPO): regenerate it, rebuild the executable model
    # and evaluate the cases while holding the build lock, so that the .vo files stay consistent
    _lock = C.BuildLock()
    _lock.__enter__()
    try:
        if okm:
            C.regen(gen)
            okm, logm = C.coq_make(["theories/Pipe/PipeRun.vo"])
            if not okm:
                out.add_broken("coq:theories/Pipe/PipeRun.v", logm)
        n_turns = 0
        _t0 = _time.time()
        disagreements = {"v1": [], "v1s": [], "v2": []}
        if okm:
            def family(c):
                return "v1s" if (c["ver"] == "v1" and c.get("api") == "state") else c["ver"]

            for ver, fn in (("v1", "check_v1"), ("v1s", "check_v1_state"), ("v2", "check_v2")):
                idx = [i for i, c in enumerate(cases) if family(c) == ver and results[i] is not None]
                terms = [case_term(cases[i], results[i]) for i in idx]
                n_turns += sum(len(results[i]) for i in idx)
                if not terms:
                    continue
                bools, err = C.run_cases(f"{pid}_{ver}", PREAMBLE, terms, fn)
                if err:
                    out.add_broken(f"correspondence:{pid}-{ver}(coqc)", err)
                    continue
                disagreements[ver] = [i for i, okb in zip(idx, bools) if not okb]
        for ver, bad in disagreements.items():
            if bad:
                i = min(bad, key=lambda j: conv_size(cases[j]))
                if ver == "v1s":
                    call = f"conv_v1_state {coq_turns(cases[i])} {coq_cfg(cases[i])} init_state 0 {coq_turns(cases[i])}"
                else:
                    fnm = "conv_v1_c" if ver == "v1" else "conv_v2_c current_fixd_run"
                    call = f"{fnm} {coq_turns(cases[i])} {coq_cfg(cases[i])}"
                model = C.eval_term(f"{pid}_{ver}", PREAMBLE,
                                    f"map (fun r => (trace_obs (snd (fst r)), snd r)) ({call})")
                out.add_broken(f"correspondence:{pid}-{ver}",
                               f"{len(bad)} conversations disagree with the model; smallest: case={json.dumps(cases[i])} "
                               f"observed={json.dumps(results[i])} model={model[-1500:]}")


    finally:
        _lock.__exit__(None, None, None)
    t_model = round(_time.time() - _t0, 1)
    # ---- direct property oracle on the IMPLEMENTATION's observations
    viol = []
    for i, (c, r) in enumerate(zip(cases, results)):
        if r is None:
            continue
        for sig, what, turn_idx in oracle(c, r):
            viol.append((sig, what, turn_idx, i))
    by_sig = {}
    for sig, what, turn_idx, i in viol:
        by_sig.setdefault(sig, []).append((what, turn_idx, i))
    for sig, lst in by_sig.items():
        what, turn_idx, i = min(lst, key=lambda x: conv_size(cases[x[2]]))

        def still_bad(cand, sig=sig):
            try:
                return any(s == sig for s, _w, _t in oracle(cand, run_case(cand)))
            except Exception:  # noqa: BLE001
                return False

        small = cases[i]
        try:
            small = shrink_case(cases[i], still_bad)
        except Exception:  # noqa: BLE001
            pass
        try:
            obs_small = run_case(small)
            w2 = [w for s, w, _t in oracle(small, obs_small) if s == sig]
            what = w2[0] if w2 else what
        except Exception:  # noqa: BLE001
            obs_small = results[i]
        out.findings.append(C.Finding(sig, f"{what} ({len(lst)} conversations)",
                                      {"case": small, "observed": obs_small, "signature": sig, "what": what}))

    # ---- the shipped library rail `self check output` on every caller-visible channel
    lib_viol = 0
    if lib_cases:
        lib_obs, lerr = run_library_probe(lib_cases, pid.lower())
        if lerr:
            out.add_broken(f"harness:{pid}-library-probe", lerr)
        else:
            by = {}
            for lc, lo in zip(lib_cases, lib_obs):
                for sig, what, _t in any_library_oracle(lc, lo):
                    lib_viol += 1
                    by.setdefault(sig, []).append((what, lc, lo))
            for sig, lst in by.items():
                what, lc, lo = min(lst, key=lambda x: (x[1].get("size", 0), len(x[1].get("blocks", x[1].get("rewrites", [])))))
                out.findings.append(C.Finding(sig, f"{what} ({len(lst)} library conversations)",
                                              {"case": lc, "observed": lo, "signature": sig, "what": what}))
        if lib_obs is not None:
            out.coverage["library_rail_fail_closed_errors"] = sum(
                1 for lo in lib_obs for t in (lo or []) if isinstance(t, dict) and "error" in t)
        out.coverage["library_rail_conversations"] = len(lib_cases)
        out.coverage["library_rail_violations"] = lib_viol

    # ---- evidence
    seen, nontrivial = set(), 0
    hist = {}
    for c, r in zip(cases, results):
        h = C.canon_hash(c)
        if h in seen:
            continue
        seen.add(h)
        vs = [v if isinstance(v, str) else "w" for t in c["turns"] for v in t["iv"] + t["ov"]]
        key = (c["ver"], c.get("mode", ""), c["exc"], c.get("api", ""), c.get("options", ""))
        hist[str(key)] = hist.get(str(key), 0) + 1
        if (c["n_in"] + c["n_out"]) >= 2 and len(c["turns"]) >= 2 and any(v != "a" for v in vs):
            nontrivial += 1
    out.coverage.update({
        "evaluations": len([r for r in results if r is not None]),
        "turns_compared": n_turns,
        "distinct_nontrivial": nontrivial,
        "rule": rule,
        "samples": [{"case": cases[i], "observed": results[i]} for i in range(min(2, len(cases)))],
        "input_distribution": {"conversations_per_config(ver,mode,exceptions)": hist,
                               "corpus_cases": sum(1 for o in origin if o.startswith("corpus")),
                               "focus": focus},
        "traces_validated_against_impl": len([r for r in results if r is not None]),
        "correspondence_disagreements": sum(len(v) for v in disagreements.values()),
        "oracle_violations": len(viol),
        "timing_s": {"implementation_runs": t_impl, "model_in_coq": t_model},
    })
    out.assumptions += assumptions
    out.notes += list(notes)
    if tier == "thorough" and b["ok"]:
        ok, log = C.coqchk(pid, b["files"])
        out.coverage["coqchk"] = "ok" if ok else "FAILED"
        if not ok:
            out.add_broken("coqchk", log)
    return C.finish(out)


# helpers for the oracles (independent of the Coq model: plain re-statement of the property text)


def expected_rail_calls(verdicts, text, rewriting):
    """The calls the property demands for one pass over a rail list: [(k, text shown)], the
    final text, and the index of the rejecting rail (or None)."""
    calls = []
    cur = text
    for k, v in enumerate(verdicts):
        calls.append((k, cur))
        if v == "r":
            return calls, cur, k
        if v != "a" and rewriting:
            cur = v[1]
    return calls, cur, None


COMMON_ASSUMPTIONS = [
    "rails have the canonical shape of the library rails: execute a (system) action; on reject `bot refuse to respond` "
    "(or the rail exception when enable_rails_exceptions) then `stop` (Colang 2: `bot say` refusal / send exception, `abort`); "
    "a rewriting Colang 1 rail assigns $user_message / $bot_message; rails do not touch the loop variables $i / $input_flows",
    "rail actions, the LLM, the parsers of LLM output, the dialog policy and the predefined messages are arbitrary functions "
    "(Section variables); action failures (C03), generation options (C16) and streaming are outside these models",
    "one bot message per turn: dialog flows that utter several bot messages in one turn, multi-step generation and "
    "single_call mode are outside the models (each would repeat `process bot message` per message)",
    "prompt rendering is not modelled: the model tracks which texts flow into a prompt, the harness compares the set of "
    "marker texts found in the real prompt (the next-step prompt strips message texts: inclusion only); the predefined "
    "messages of the configuration are constants and are ignored in that comparison",
    "conversations are driven turn by turn on one LLMRails instance, the caller appending each reply to its message list "
    "(Colang 2: passing the returned state); re-submitting an old transcript to a fresh instance is history supplied by "
    "the caller and outside the claim (DESIGN C01 scope note); in passthrough mode the caller's message list is sent "
    "verbatim, so texts of earlier rejected turns re-enter prompts through the caller (modelled as `raw`)",
    "generation options are per call: the messages-API conversations pass one of {none, log, rails list enabling "
    "everything, llm_params, llm_output} on EVERY call (a caller that changes options between calls misses the history "
    "cache and thereby re-submits its transcript - scope note); per-call rails.input/rails.output switches are exercised "
    "through the state API (general and dialog mode), other option categories belong to C16",
    "passthrough x enable_rails_exceptions is not enumerated: a role=`exception` message in the caller's list makes llm_call "
    "raise (internal error + hide_prev_turn), which is C03 territory",
]

OBSERVATIONS = [
    "O1: the return value of a NON-system rail action is rendered into the colang history of later dialog prompts "
    "('# The result was ...'): with rewriting rails whose action returns the new text, intermediate rewrites and texts of "
    "rejected turns reach generate_user_intent prompts; library rail actions are system actions and are not rendered",
    "O2 (now a finding of C02, see fixes/C02-selfcheck-output-stop.patch): library flow `self check output` with enable_rails_exceptions creates OutputRailException but does "
    "not `stop`: later output rails still run and StartUtteranceBotAction(blocked text) is stored in the event history; "
    "the reply is the exception (Props/C02.v C02_T_self_check_output_stops exempts that edge)",
    "O4: a Colang 1.0 turn that produces more than 100 events makes generate raise Exception('Too many events.') "
    "(runtime.py safety cap): reached with 7 accept-all rails (input+output) in general mode, 6 in dialog mode; an "
    "availability limit outside C01/C02 - the thorough generator stays below it",
    "O5: Colang 1.0 explicit state API: GenerationResponse.state holds the events of the LAST call only "
    "(generate_async returns {'events': events} without the state_events it started from), so a call sees the history "
    "and context of the previous call and nothing older; every call is still gated (modelled in PipeRun.conv_v1_state)",
    "O6: shipped `self check input` / `self check output` with texts of 1 .. 20 000 characters: the rail prompt contains the "
    "complete text up to the prompt's max_length (16 000); beyond it render_task_prompt raises inside the action - Colang 1.0 "
    "answers with the internal-error message, Colang 2.x treats the failed action as not allowed and refuses (both fail-closed)",
    "O3: after an internal error (hide_prev_turn) flows read the context of the truncated history while "
    "_process_start_action suppresses ContextUpdates equal to the context of ALL events: a later rail decision can read a "
    "stale action result (seen with passthrough + exception message in the caller's list); reported to the C03 builder",
]

if __name__ == "__main__":
    if len(sys.argv) >= 4 and sys.argv[1] == "--worker":
        _worker(sys.argv[2], sys.argv[3])
    elif len(sys.argv) >= 4 and sys.argv[1] == "--library":
        _cases = json.load(open(sys.argv[2]))
        _outs = []
        for _c in _cases:
            try:
                _outs.append(run_any_library_case(_c))
            except Exception as _e:  # noqa: BLE001
                _outs.append([{"error": f"driver: {type(_e).__name__}: {_e}"[:300]}])
        with open(sys.argv[3], "w") as _f:
            json.dump(_outs, _f)
    else:
        case = json.loads(sys.argv[1])
        obs = run_case(case)
        for t in obs:
            print(json.dumps(t))
        print(case_term(case, obs))
