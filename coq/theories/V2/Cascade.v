(* C10 part 2: the event cascade of ONE run_to_completion - StartFlow events creating instances,
   heads sliding to their next stop, ForkHead creating heads, MergeHeads / WaitForHeads removing
   them, FlowStarted/FlowFinished/FlowFailed/ColangError events waking or failing heads that rest
   on a match for an internal event, finished or failed ACTIVATED instances being restarted
   (`_finish_flow` / `_abort_flow`), the immediate-finish guard of `_advance_head_front`, the label
   `start_new_flow_instance`, actionable heads winning or LOSING the action conflict resolution
   when the queue is empty.  Definitions only; proofs in Cascade_proofs.v.

   Abstractions (all over-approximations of what can happen):
   * which head reacts how to an internal event is an arbitrary oracle `react`
     (ignore / advance / fail = its match failed / kill = instance aborted by a dying parent);
   * which actionable head wins or loses, which heads a merge removes: arbitrary oracles;
   * expression values: oracle `orc` as in Term.v.
   `guard` = the repaired restart logic (fixes/C10-activated-abort-restart.patch). *)
From Coq Require Import List Arith Bool Lia.
From NG Require Import V2.Term.
Import ListNotations.

Inductive cstatus := CStarting | CStarted | CDead.

Record chead := {
  h_pos : nat;                (* the element the head rests on *)
  h_catch : list label;
  h_inert : bool;             (* rests on a match for an EXTERNAL event that is not the current one or is
                                 blocked on WaitForHeads: nothing in this cascade advances it *)
  h_alts : list nat           (* where it is advanced from: behind its element; behind its catch label
                                 when its match fails / its action loses *)
}.

Record cinst := {
  c_flow : flowid;
  c_heads : list chead;
  c_status : cstatus;
  c_act : bool;               (* activated > 0 *)
  c_restarted : bool;         (* new_instance_started *)
  c_forked : bool             (* a ForkHead was executed since the instance started *)
}.

Inductive cev := CStart (f : flowid) (act : bool) | CNote.

Record cstate := { c_insts : list cinst; c_queue : list cev; c_tick : nat }.

Inductive reaction := RIgnore | RAdvance | RFail | RKill.
Inductive creaction := CWin | CLose.

Inductive cres := COk (st : cstate) | COut | CUnsup.

Definition listening (c : cinst) : bool := match c_status c with CDead => false | _ => true end.
Definition started (c : cinst) : bool := match c_status c with CStarted => true | _ => false end.

Definition fresh (f : flowid) (act : bool) : cinst :=
  {| c_flow := f; c_heads := [ {| h_pos := 0; h_catch := []; h_inert := false; h_alts := [1] |} ];
     c_status := CStarting; c_act := act; c_restarted := false; c_forked := false |}.

Definition is_stop (e : elem) : bool :=
  match e with EBlock _ | EWaitInt _ | EWaitHeads => true | _ => false end.

Record rout := { r_inst : cinst; r_right : list cev; r_left : list cev }.

Definition note_if (b : bool) : list cev := if b then [CNote] else [].
Definition start_if (b : bool) (f : flowid) (a : bool) : list cev := if b then [CStart f a] else [].

Definition dead_inst (c : cinst) (rst : bool) : cinst :=
  {| c_flow := c_flow c; c_heads := []; c_status := CDead; c_act := c_act c; c_restarted := rst;
     c_forked := c_forked c |}.

(* the instance dies by its own failure: _abort_flow(restart_flow = may_restart) *)
Definition fail_inst (c : cinst) (may_restart : bool) (colang_error : bool) (restarted0 : bool) : rout :=
  let restart := c_act c && negb restarted0 && may_restart in
  {| r_inst := dead_inst c (restarted0 || restart);
     r_right := note_if colang_error ++ [CNote];
     r_left := start_if restart (c_flow c) (c_act c) |}.

(* the repaired guard: a flow that fails by itself is restarted only if it had been STARTED *)
Definition guard_ok (guard : bool) (c : cinst) : bool := if guard then started c else true.

(* aborted from outside with deactivate_flow=True (parent finished / failed): no restart *)
Definition kill_inst (c : cinst) : rout :=
  {| r_inst := dead_inst c (c_restarted c); r_right := [CNote]; r_left := [] |}.

Fixpoint remove_nth {A} (l : list A) (n : nat) : list A :=
  match l, n with
  | [], _ => []
  | _ :: l', O => l'
  | x :: l', S n' => x :: remove_nth l' n'
  end.

(* `all heads are waiting at a match (not an expansion-internal one) or a WaitForHeads` *)
Definition head_waits (es : list elem) (h : chead) : bool :=
  negb (Nat.eqb (h_pos h) 0) &&        (* position 0 = `match StartFlow`: the head that is just being started *)
  match nth_error es (h_pos h) with
  | Some (EBlock BMatch) | Some (EWaitInt true) | Some EWaitHeads => true
  | _ => false
  end.

(* _advance_head_front for head `hd` (already taken out of `c`): slide from resume point q *)
Definition run_head (guard : bool) (es : list elem) (o : nat -> outcome) (c : cinst) (hd : chead) (q : nat)
  : option rout :=
  let r := slide (length es + 1) es o q (h_catch hd) in
  let st := started c in
  let starts := map (fun fa => CStart (fst fa) (snd fa)) (s_starts r) in
  let lbl := s_newinst r && st in                       (* start_new_flow_instance passed while STARTED *)
  let left0 := start_if lbl (c_flow c) (c_act c) in
  let restarted0 := c_restarted c || lbl in
  let mk heads status forked :=
      {| c_flow := c_flow c; c_heads := heads; c_status := status; c_act := c_act c;
         c_restarted := restarted0; c_forked := forked |} in
  match s_stop r with
  | OutOfFuel => None
  | Blocked p =>
      match nth_error es p with
      | Some e =>
          let inert := match e with EBlock BMatch | EWaitHeads => true | _ => false end in
          let hd' := {| h_pos := p; h_catch := s_catch r; h_inert := inert;
                        h_alts := map fst (resumes es (s_catch r) p e) |} in
          let heads' := hd' :: c_heads c in
          let becomes := negb st && forallb (head_waits es) heads' in
          Some {| r_inst := mk heads' (if becomes then CStarted else c_status c) (c_forked c);
                  r_right := starts ++ note_if becomes; r_left := left0 |}
      | None => None
      end
  | Forked p ts =>
      (* the new heads are recorded as resting on the fork element; they are advanced at once (`step`) *)
      let news := map (fun i => {| h_pos := p; h_catch := s_catch r; h_inert := false; h_alts := [S i] |}) ts in
      Some {| r_inst := mk (news ++ c_heads c) (c_status c) true; r_right := starts; r_left := left0 |}
  | Ended =>
      if negb st && c_act c then
        (* immediate-finish guard: FlowStarted, the flow is not finished, this head becomes inactive *)
        Some {| r_inst := mk (c_heads c) CStarted (c_forked c); r_right := starts ++ [CNote]; r_left := left0 |}
      else
        let restart := c_act c && negb restarted0 in
        Some {| r_inst := dead_inst c (restarted0 || restart);
                r_right := starts ++ note_if (negb st) ++ [CNote];
                r_left := start_if restart (c_flow c) (c_act c) ++ left0 |}
  | Aborted =>
      let f := fail_inst c (guard_ok guard c) false restarted0 in
      Some {| r_inst := r_inst f; r_right := starts ++ r_right f; r_left := r_left f ++ left0 |}
  | Raised _ =>
      let f := fail_inst c (guard_ok guard c) true restarted0 in
      Some {| r_inst := r_inst f; r_right := starts ++ r_right f; r_left := r_left f ++ left0 |}
  end.

Definition with_heads (c : cinst) (hs : list chead) : cinst :=
  {| c_flow := c_flow c; c_heads := hs; c_status := c_status c; c_act := c_act c;
     c_restarted := c_restarted c; c_forked := c_forked c |}.

Fixpoint set_nth {A} (l : list A) (n : nat) (a : A) : list A :=
  match l, n with
  | [], _ => []
  | _ :: l', O => a :: l'
  | x :: l', S n' => x :: set_nth l' n' a
  end.

Definition apply_rout (st : cstate) (i : nat) (ro : rout) : cstate :=
  {| c_insts := set_nth (c_insts st) i (r_inst ro);
     c_queue := r_left ro ++ c_queue st ++ r_right ro;
     c_tick := S (c_tick st) |}.

Definition movable (c : cinst) (h : chead) : bool := listening c && negb (h_inert h).

(* a reaction of head j of instance i;  `keep` = which OTHER heads of the instance survive when
   this head is advanced from a MergeHeads (the merge removes the heads of the fork) *)
Definition react_head (guard : bool) (prog : program) (orc : nat -> nat -> outcome) (keep : nat -> bool)
           (rc : reaction) (st : cstate) (i j : nat) : cres :=
  match nth_error (c_insts st) i with
  | None => COk st
  | Some c =>
    match rc with
    | RIgnore => COk st
    | RKill => if listening c then COk (apply_rout st i (kill_inst c)) else COk st
    | _ =>
      match nth_error (c_heads c) j, nth_error prog (c_flow c) with
      | Some hd, Some es =>
          if movable c hd then
            let others := remove_nth (c_heads c) j in
            let others' := match nth_error es (h_pos hd) with
                           | Some (EBlock BMerge) => map snd (filter (fun kh => keep (fst kh)) (combine (seq 0 (length others)) others))
                           | _ => others
                           end in
            let alt := match rc with
                       | RAdvance => nth_error (h_alts hd) 0
                       | _ => nth_error (h_alts hd) 1           (* RFail: the catch label, if any *)
                       end in
            match alt with
            | Some q =>
                match run_head guard es (orc (c_tick st)) (with_heads c others') hd q with
                | Some ro => COk (apply_rout st i ro)
                | None => CUnsup
                end
            | None =>
                match rc with
                | RFail => COk (apply_rout st i (fail_inst c (guard_ok guard c) false (c_restarted c)))
                | _ => COk (apply_rout st i {| r_inst := with_heads c others; r_right := []; r_left := [] |})
                end
            end
          else COk st
      | _, _ => COk st
      end
    end
  end.

(* the outer loop of run_to_completion (queue empty): an actionable head wins or loses the
   conflict resolution - the loser is moved to its catch label, or its flow is aborted with the
   default restart (`_abort_flow(state, flow_state, head.matching_scores)`); a merging head merges
   (removing heads of its fork) or is itself removed by the merge of another head *)
Definition outer_head (guard : bool) (prog : program) (orc : nat -> nat -> outcome) (keep : nat -> bool)
           (cr : creaction) (st : cstate) (i j : nat) : cres :=
  match cr with
  | CWin => react_head guard prog orc keep RAdvance st i j
  | CLose =>
    match nth_error (c_insts st) i with
    | None => COk st
    | Some c =>
      match nth_error (c_heads c) j, nth_error prog (c_flow c) with
      | Some hd, Some es =>
          match nth_error es (h_pos hd) with
          | Some (EBlock BAction) =>
              match nth_error (h_alts hd) 1 with
              | Some q =>
                  match run_head guard es (orc (c_tick st)) (with_heads c (remove_nth (c_heads c) j)) hd q with
                  | Some ro => COk (apply_rout st i ro)
                  | None => CUnsup
                  end
              | None => COk (apply_rout st i (fail_inst c true false (c_restarted c)))
              end
          | _ =>   (* a merging head whose fork is merged by another head *)
              COk (apply_rout st i {| r_inst := with_heads c (remove_nth (c_heads c) j); r_right := []; r_left := [] |})
          end
      | _, _ => COk st
      end
    end
  end.

(* all (instance, head) index pairs of a state *)
Definition all_heads (st : cstate) : list (nat * nat) :=
  flat_map (fun ic => map (fun j => (fst ic, j)) (seq 0 (length (c_heads (snd ic)))))
           (combine (seq 0 (length (c_insts st))) (c_insts st)).

Fixpoint react_all (guard : bool) (prog : program) (orc : nat -> nat -> outcome) (keep : nat -> nat -> bool)
         (react : nat -> nat -> reaction) (idx : list (nat * nat)) (st : cstate) : cres :=
  match idx with
  | [] => COk st
  | (i, j) :: idx' =>
      match react_head guard prog orc (keep (c_tick st)) (react i j) st i j with
      | COk st' => react_all guard prog orc keep react idx' st'
      | other => other
      end
  end.

(* first movable head whose element satisfies `p` *)
Fixpoint find_in_heads (p : elem -> bool) (es : list elem) (c : cinst) (hs : list chead) (j : nat) : option nat :=
  match hs with
  | [] => None
  | h :: hs' =>
      if movable c h && match nth_error es (h_pos h) with Some e => p e | None => false end
      then Some j else find_in_heads p es c hs' (S j)
  end.

Fixpoint find_head (p : elem -> bool) (prog : program) (l : list cinst) (i : nat) : option (nat * nat) :=
  match l with
  | [] => None
  | c :: l' =>
      match (match nth_error prog (c_flow c) with
             | Some es => find_in_heads p es c (c_heads c) 0
             | None => None
             end) with
      | Some j => Some (i, j)
      | None => find_head p prog l' (S i)
      end
  end.

Definition is_pending (e : elem) : bool := negb (is_stop e).        (* a head just created by a fork *)
Definition is_outer (e : elem) : bool := match e with EBlock BAction | EBlock BMerge => true | _ => false end.

Record oracles := {
  o_orc : nat -> nat -> outcome;
  o_react : nat -> nat -> nat -> reaction;      (* tick, instance, head *)
  o_keep : nat -> nat -> bool;                  (* tick, head index among the others *)
  o_conflict : nat -> creaction                 (* tick *)
}.

Definition step (guard : bool) (prog : program) (o : oracles) (st : cstate) : option cres :=   (* None = quiescent *)
  match find_head is_pending prog (c_insts st) 0 with
  | Some (i, j) =>        (* `_advance_head_front(new_heads)`: forked heads are advanced at once *)
      Some (react_head guard prog (o_orc o) (o_keep o (c_tick st)) RAdvance st i j)
  | None =>
    match c_queue st with
    | [] =>
        match find_head is_outer prog (c_insts st) 0 with
        | None => None
        | Some (i, j) =>
            Some (outer_head guard prog (o_orc o) (o_keep o (c_tick st)) (o_conflict o (c_tick st)) st i j)
        end
    | CNote :: q =>
        let st1 := {| c_insts := c_insts st; c_queue := q; c_tick := S (c_tick st) |} in
        Some (react_all guard prog (o_orc o) (o_keep o) (o_react o (c_tick st)) (all_heads st) st1)
    | CStart f a :: q =>
        match nth_error prog f with
        | None => Some (COk {| c_insts := c_insts st; c_queue := q; c_tick := S (c_tick st) |})
        | Some _ =>
            let st1 := {| c_insts := c_insts st ++ [fresh f a]; c_queue := q; c_tick := S (c_tick st) |} in
            Some (react_head guard prog (o_orc o) (o_keep o (c_tick st)) RAdvance st1 (length (c_insts st)) 0)
        end
    end
  end.

(* fuel = number of processed internal events + advances of forked / actionable / merging heads *)
Fixpoint cascade (guard : bool) (prog : program) (o : oracles) (fuel : nat) (st : cstate) : cres :=
  match step guard prog o st with
  | None => COk st
  | Some r =>
      match fuel with
      | O => COut
      | S f => match r with
               | COk st' => cascade guard prog o f st'
               | other => other
               end
      end
  end.

(* ------------------------------------------------------------------------------------------ *)
(* The premise for cascades.  Per flow: static stacks `stk`, a ranking for the cascade graph
   (matches on internal events, actions, merges, forks are crossed) and weights `w` that pay for
   every event a run from a position can still cause:
       w[p] >= 1 + cost of the StartFlow the element at p sends + w[q]   for every cascade step p -> q
       w[p] >= 1 + sum over the forked heads (1 + w[behind their label])   at a ForkHead *)

Definition wat (w : list nat) (len p : nat) : nat := if Nat.ltb p len then nth p w 0 else 0.

Record fcert := { f_rank : list nat; f_stk : list (option (list label)); f_w : list nat;
                  f_clean : list bool; f_noend : list bool }.

Definition newpot (prog : program) (certs : list fcert) (g : flowid) : nat :=
  match nth_error prog g, nth_error certs g with
  | Some es, Some ct => 4 + wat (f_w ct) (length es) 1
  | _, _ => 0
  end.

Definition ev_cost (prog : program) (certs : list fcert) (e : cev) : nat :=
  match e with CNote => 1 | CStart g _ => 1 + newpot prog certs g end.

Definition ecost (prog : program) (certs : list fcert) (self : flowid) (e : elem) : nat :=
  match e with
  | EStart g _ => 1 + newpot prog certs g
  | ELabel _ true => 1 + newpot prog certs self
  | _ => 0
  end.

Definition fork_cost (es : list elem) (w : list nat) (ls : list label) : nat :=
  list_sum (map (fun l => match label_pos es l with Some i => 1 + wat w (length es) (S i) | None => 0 end) ls).

Definition check_w (prog : program) (certs : list fcert) (f : flowid) (es : list elem) (ct : fcert) : bool :=
  forallb (fun p =>
             match nth_error es p with
             | Some e =>
                 forallb (fun qs => Nat.leb (1 + ecost prog certs f e + wat (f_w ct) (length es) (fst qs))
                                            (wat (f_w ct) (length es) p))
                         (succ_cfg true es (f_stk ct) p) &&
                 match e with
                 | EFork ls => Nat.leb (1 + fork_cost es (f_w ct) ls) (wat (f_w ct) (length es) p)
                 | _ => true
                 end
             | None => true
             end) (seq 0 (length es)).

(* Side conditions for ACTIVATED flows, on the region an instance can run through before it is
   STARTED (clean[p]: p belongs to it):
   - no user-level match on an internal event (e.g. `await child`): the instance would become
     STARTED without having waited for an external event, could finish in the same cascade and be
     restarted forever;
   - no action: a not-yet-started instance that loses the action conflict is restarted at once;
   - behind a fork the end of the flow is not reachable without a match on an external event
     (noend): the immediate-finish guard would leave the other heads running. *)
Definition check_clean (es : list elem) (ct : fcert) : bool :=
  forallb (fun p =>
             (negb (nth p (f_clean ct) false) ||
              (match nth_error es p with
               | Some (EWaitInt true) => Nat.eqb p 0
               | Some (EBlock BAction) => false
               | Some (EFork _) => forallb (fun qs => Nat.ltb (fst qs) (length es) && nth (fst qs) (f_noend ct) false)
                                           (succ_cfg true es (f_stk ct) p)
               | _ => true
               end &&
               forallb (fun qs => Nat.leb (length es) (fst qs) || nth (fst qs) (f_clean ct) false)
                       (succ_cfg true es (f_stk ct) p))) &&
             (negb (nth p (f_noend ct) false) ||
              (match nth_error es p with Some EReturn => false | _ => true end &&
               forallb (fun qs => Nat.ltb (fst qs) (length es) && nth (fst qs) (f_noend ct) false)
                       (succ_cfg true es (f_stk ct) p))))
          (seq 0 (length es)).

Definition activatable (prog : program) (g : flowid) : bool :=
  existsb (fun es => existsb (fun e => match e with EStart g' true => Nat.eqb g g' | _ => false end) es) prog.

Fixpoint forallb_i {A} (f : nat -> A -> bool) (l : list A) (i : nat) : bool :=
  match l with [] => true | a :: l' => f i a && forallb_i f l' (S i) end.

Definition cascade_cert_ok (prog : program) (certs : list fcert) : bool :=
  Nat.eqb (length certs) (length prog) &&
  forallb_i (fun f es =>
               match nth_error certs f with
               | Some ct =>
                   match es with EWaitInt true :: _ => true | _ => false end &&    (* match StartFlow(flow_id = f) *)
                   match stk_at (f_stk ct) 0 with Some [] => true | _ => false end &&
                   check_cert true es (f_rank ct) (f_stk ct) &&
                   check_w prog certs f es ct &&
                   check_clean es ct &&
                   (negb (activatable prog f) || nth 1 (f_clean ct) false || Nat.leb (length es) 1)
               | None => false
               end) prog 0.

(* ---- computing the certificates (nothing below is trusted: only cascade_cert_ok is) *)
Definition with_w (ct : fcert) (w : list nat) : fcert :=
  {| f_rank := f_rank ct; f_stk := f_stk ct; f_w := w; f_clean := f_clean ct; f_noend := f_noend ct |}.

(* successor positions of every position in the cascade graph, computed once per flow *)
Definition succ_table (es : list elem) (stk : list (option (list label))) : list (list nat) :=
  map (fun p => map fst (succ_cfg true es stk p)) (seq 0 (length es)).

Definition w_cap : nat := 200 * 100.

Definition w_pass (prog : program) (certs : list fcert) (f : flowid) (es : list elem) (tbl : list (list nat)) (w0 : list nat)
  : list nat :=
  fold_left (fun w p =>
               match nth_error es p with
               | Some e =>
                   let c := 1 + ecost prog certs f e in
                   let need := fold_left (fun m q => Nat.max m (c + wat w (length es) q)) (nth p tbl []) 0 in
                   let need := match e with EFork ls => Nat.max need (1 + fork_cost es w ls) | _ => need end in
                   (* weights are unary numbers: give up (the check will reject) instead of exploding *)
                   if Nat.leb need (nth p w 0) || Nat.ltb w_cap need then w else set_nth w p need
               | None => w
               end) (rev (seq 0 (length es))) w0.

Fixpoint w_iter (fuel : nat) (prog : program) (tbls : list (list (list nat))) (certs : list fcert) : list fcert :=
  match fuel with
  | O => certs
  | S n =>
      let certs' := map (fun x => let '(f, (es, (tbl, ct))) := x in
                                  (* two sweeps inside a flow per round: backward jumps of loops *)
                                  with_w ct (w_pass prog certs f es tbl (w_pass prog certs f es tbl (f_w ct))))
                        (combine (seq 0 (length prog)) (combine prog (combine tbls certs))) in
      w_iter n prog tbls certs'
  end.

Definition count_true (l : list bool) : nat := length (filter (fun b => b) l).

Fixpoint iter_fix (fuel : nat) (f : list bool -> list bool) (a : list bool) : list bool :=
  match fuel with
  | O => a
  | S n => let a' := f a in if Nat.eqb (count_true a') (count_true a) then a' else iter_fix n f a'
  end.

(* greatest fixpoints of the clean / noend conditions: reverse Gauss-Seidel sweeps from all-true *)
Definition noend_pass (es : list elem) (tbl : list (list nat)) (ne0 : list bool) : list bool :=
  fold_left (fun ne p =>
               if nth p ne false then
                 if match nth_error es p with Some EReturn => false | _ => true end &&
                    forallb (fun q => Nat.ltb q (length es) && nth q ne false) (nth p tbl [])
                 then ne else set_nth ne p false
               else ne) (rev (seq 0 (length es))) ne0.

Definition clean_pass (es : list elem) (tbl : list (list nat)) (ne cl0 : list bool) : list bool :=
  fold_left (fun cl p =>
               if nth p cl false then
                 if match nth_error es p with
                    | Some (EWaitInt true) => Nat.eqb p 0
                    | Some (EBlock BAction) => false
                    | Some (EFork _) => forallb (fun q => Nat.ltb q (length es) && nth q ne false) (nth p tbl [])
                    | _ => true
                    end &&
                    forallb (fun q => Nat.leb (length es) q || nth q cl false) (nth p tbl [])
                 then cl else set_nth cl p false
               else cl) (rev (seq 0 (length es))) cl0.

Definition compute_certs (prog : program) (passes : nat) : list fcert :=
  let base := map (fun es => let stk := compute_stk es in
                             let tbl := succ_table es stk in
                             let ne := iter_fix (S (length es)) (noend_pass es tbl) (repeat true (length es)) in
                             let cl := iter_fix (S (length es)) (clean_pass es tbl ne) (repeat true (length es)) in
                             (tbl, {| f_rank := compute_rank true es stk; f_stk := stk; f_w := repeat 0 (length es);
                                      f_clean := cl; f_noend := ne |})) prog in
  w_iter passes prog (map fst base) (map snd base).

Definition cascade_guardedb (prog : program) : bool :=
  cascade_cert_ok prog (compute_certs prog (S (length prog))).

(* ---- the potential of a state and the bound *)
Definition hpot (w : list nat) (len : nat) (h : chead) : nat :=
  if h_inert h then 0 else 1 + list_max (map (wat w len) (h_alts h)).

Definition ipot (prog : program) (certs : list fcert) (c : cinst) : nat :=
  if listening c then
    2 + (if started c then 0 else 1) +
    match nth_error prog (c_flow c), nth_error certs (c_flow c) with
    | Some es, Some ct =>
        list_sum (map (hpot (f_w ct) (length es)) (c_heads c)) +
        (if c_act c && negb (c_restarted c) && started c && existsb (fun h => negb (h_inert h)) (c_heads c)
         then 1 + newpot prog certs (c_flow c) else 0)
    | _, _ => 0
    end
  else 0.

Definition phi (prog : program) (certs : list fcert) (st : cstate) : nat :=
  list_sum (map (ipot prog certs) (c_insts st)) + list_sum (map (ev_cost prog certs) (c_queue st)).

(* a bound that depends only on the program (through its certificate) and on the number of live
   heads, live instances and queued events *)
Definition flow_cost (prog : program) (certs : list fcert) (f : flowid) : nat :=
  match nth_error prog f, nth_error certs f with
  | Some es, Some ct => list_max (f_w ct) + newpot prog certs f + 5
  | _, _ => 3
  end.
Definition max_flow_cost (prog : program) (certs : list fcert) : nat :=
  list_max (map (flow_cost prog certs) (seq 0 (length prog))) + 3.

Definition rtc_bound (prog : program) (certs : list fcert) (live_heads live queued : nat) : nat :=
  (live_heads + live + queued) * max_flow_cost prog certs.

(* ---- examples *)
Definition all_true : nat -> nat -> outcome := fun _ _ => OTrue.
Definition eager : oracles :=
  {| o_orc := all_true; o_react := fun _ _ _ => RAdvance; o_keep := fun _ _ => false; o_conflict := fun _ => CWin |}.

Definition mk_head (p : nat) : chead := {| h_pos := p; h_catch := []; h_inert := false; h_alts := [S p] |}.
Definition mk_inst (f : flowid) (hs : list chead) (s : cstatus) (a : bool) : cinst :=
  {| c_flow := f; c_heads := hs; c_status := s; c_act := a; c_restarted := false; c_forked := false |}.

(* main: activate a; match X()      a: abort *)
Definition f4_prog : program :=
  [ [EWaitInt true; EStep; EStart 1 true; EWaitInt false; EBlock BMatch];
    [EWaitInt true; EAbort] ].
Definition f4_state : cstate :=
  {| c_insts := [ mk_inst 0 [mk_head 0] CStarting false ]; c_queue := [CNote]; c_tick := 0 |}.

Example f4_guarded : cascade_guardedb f4_prog = true.
Proof. vm_compute. reflexivity. Qed.

Example f4_repaired_terminates :
  match cascade true f4_prog eager 20 f4_state with COk st => c_queue st = [] | _ => False end.
Proof. vm_compute. reflexivity. Qed.

Example f4_unchanged_busy : cascade false f4_prog eager 2000 f4_state = COut.
Proof. vm_compute. reflexivity. Qed.

(* main: activate a; match X()      a: send Out(); abort
   the failing advance of `a` is its SECOND one (after the action), its status is STARTING;
   an activated flow with an action before its first match is outside the certificate class
   (side condition 2), the model still shows the repaired / unrepaired behaviour *)
Definition f5_prog : program :=
  [ [EWaitInt true; EStep; EStart 1 true; EWaitInt false; EBlock BMatch];
    [EWaitInt true; EBlock BAction; EAbort] ].
Definition f5_state : cstate :=
  {| c_insts := [ mk_inst 0 [mk_head 3] CStarting false ]; c_queue := [CStart 1 true]; c_tick := 0 |}.

Example f5_repaired_terminates :
  match cascade true f5_prog eager 20 f5_state with
  | COk st => c_queue st = [] /\ length (c_insts st) = 2
  | _ => False
  end.
Proof. vm_compute. split; reflexivity. Qed.

Example f5_unguarded_busy : cascade false f5_prog eager 2000 f5_state = COut.
Proof. vm_compute. reflexivity. Qed.

(* an or-group: main: match A() or B(); step     (fork, two heads, merge) *)
Definition f6_prog : program :=
  [ [EWaitInt true; ECatch (Some 0); EFork [1; 2]; ELabel 1 false; EBlock BMatch; EJump 3 false;
     ELabel 2 false; EBlock BMatch; EJump 3 false; ELabel 0 false; EWaitHeads; EBlock BMerge; ECatch None; EAbort;
     ELabel 3 false; EBlock BMerge; ECatch None; EStep] ].
Example f6_guarded : cascade_guardedb f6_prog = true.
Proof. vm_compute. reflexivity. Qed.
Example f6_forks :
  match cascade true f6_prog eager 20 {| c_insts := []; c_queue := [CStart 0 false]; c_tick := 0 |} with
  | COk st => map (fun c => (map h_pos (c_heads c), c_status c)) (c_insts st) = [([7; 4], CStarted)]
  | _ => False
  end.
Proof. vm_compute. reflexivity. Qed.

(* The implicit loop:  main: activate a; match X()     a: await b     b: $x = 1
   `a` becomes STARTED on its match for FlowFinished(b) - an event produced inside the same
   cascade - finishes, is restarted, ... : busy forever also under the repaired guard.  The
   certificate rejects it (side condition: no user-level match on an internal event before the
   first external match of an activated flow).  The same holds for the explicit loop
   `while True: await b`: a loop whose only waits are satisfied inside the same processing step is
   a loop without waiting statement. *)
Definition f7_prog : program :=
  [ [EWaitInt true; EStart 1 true; EWaitInt false; EBlock BMatch];
    [EWaitInt true; EStep; EStart 2 false; EWaitInt false; EStep; EWaitInt true];
    [EWaitInt true; EStep] ].
Definition f7_explicit : program :=
  [ [EWaitInt true; EStart 1 false; EWaitInt false; EBlock BMatch];
    [EWaitInt true; ELabel 0 false; EStep; EStart 2 false; EWaitInt false; EStep; EWaitInt true; EJump 0 false];
    [EWaitInt true; EStep] ].
Definition f7_state : cstate :=
  {| c_insts := []; c_queue := [CStart 0 false]; c_tick := 0 |}.

Example f7_rejected : cascade_guardedb f7_prog = false /\ cascade_guardedb f7_explicit = false.
Proof. vm_compute. split; reflexivity. Qed.

Example f7_busy :
  cascade true f7_prog eager 3000 f7_state = COut /\ cascade true f7_explicit eager 3000 f7_state = COut.
Proof. vm_compute. split; reflexivity. Qed.

(* with a child that waits for an external event both are accepted and quiescent at once *)
Definition f7_waiting : program :=
  [ [EWaitInt true; EStart 1 false; EWaitInt false; EBlock BMatch];
    [EWaitInt true; ELabel 0 false; EStep; EStart 2 false; EWaitInt false; EStep; EWaitInt true; EJump 0 false];
    [EWaitInt true; EBlock BMatch] ].
Example f7_waiting_ok :
  match cascade true f7_waiting eager 40 f7_state with COk st => c_queue st = [] | _ => False end.
Proof. vm_compute. reflexivity. Qed.
