(* C17 - executable instance for the correspondence: one case = (helper, input(s), the answer of
   the real Python function); check_case says whether the model gives the same answer.
   Also: the model's literals agree with the ones read from the source (Gen/C17Consts.v). *)
From Coq Require Import NArith List Bool String Ascii.
From NG Require Import Gen.C17Consts Svc.TextPost.
Import ListNotations.
Open Scope N_scope.

(* answers of the implementation, canonicalised by the harness *)
Inductive answer :=
| AText (t : text)                 (* a str *)
| ANone                            (* Python None *)
| ATexts (l : list text)           (* a list of str *)
| ATriple (a b c : text)
| ARaise (e : exn)                 (* the exception class, mapped to the small enum *)
| ANonStr                          (* an object that is not a str *)
| AOutcome (o : next_step_outcome).

Fixpoint teqs (a b : list text) : bool :=
  match a, b with
  | [], [] => true
  | x :: a', y :: b' => teq x y && teqs a' b'
  | _, _ => false
  end.

Definition exn_eqb (a b : exn) : bool :=
  match a, b with
  | IndexError, IndexError | TypeError, TypeError | AttributeError, AttributeError
  | ValueError, ValueError | AssertionError, AssertionError | ParseError, ParseError
  | EvalError, EvalError | LlmResponseError, LlmResponseError => true
  | _, _ => false
  end.

Definition ans_text (r : res text) (a : answer) : bool :=
  match r, a with
  | Ok t, AText t' => teq t t'
  | Err e, ARaise e' => exn_eqb e e'
  | _, _ => false
  end.

Definition ans_opt_text (r : res (option text)) (a : answer) : bool :=
  match r, a with
  | Ok (Some t), AText t' => teq t t'
  | Ok None, ANone => true
  | Err e, ARaise e' => exn_eqb e e'
  | _, _ => false
  end.

Definition ans_opt_texts (r : res (option (list text))) (a : answer) : bool :=
  match r, a with
  | Ok (Some l), ATexts l' => teqs l l'
  | Ok None, ANone => true
  | Err e, ARaise e' => exn_eqb e e'
  | _, _ => false
  end.

Definition ans_triple (r : res (text * text * text)) (a : answer) : bool :=
  match r, a with
  | Ok (x, y, z), ATriple x' y' z' => teq x x' && teq y y' && teq z z'
  | Err e, ARaise e' => exn_eqb e e'
  | _, _ => false
  end.

Inductive helper :=
| HFirstLine | HTopK | HStripQuotes | HMultiline | HClean | HVerbose
| HUserIntent | HNextStep | HBotMessage | HGeneral | HSingleCall
| HIndent            (* textwrap.indent(s, "  ") through wrap_flow with id "f" *)
| HSplit1 | HValueText (* the text handed to literal_eval by the v2 generate_value; 2nd input = last prompt line *)
| HCtxUtter (v : ctxval)   (* generate_bot_message for the bot intent `$name`, name holding v *)
| HShrink (blank_rejected : bool) (accepted_lengths : list nat).
   (* oracle: a candidate is accepted iff its number of lines is listed (and, when the source
      validates the wrapped flow, its body is not blank) *)

Definition outcome_eqb (a b : next_step_outcome) : bool :=
  match a, b with
  | GeneralResponse, GeneralResponse => true
  | StartFlow l, StartFlow l' => teqs l l'
  | _, _ => false
  end.

Definition value_text (last_prompt_line result : text) : res text :=
  let! v0 := idx (split_nl (strip result)) 0 in
  let v1 := rstrip_semi v0 in
  Ok (strip (if truthy last_prompt_line then replace last_prompt_line [] v1 else v1)).

Definition check_case (c : helper * text * text * answer) : bool :=
  let '(h, s, s2, a) := c in
  match h with
  | HFirstLine => ans_opt_text (get_first_nonempty_line s) a
  | HTopK => ans_opt_texts (get_top_k_nonempty_lines s 2) a
  | HStripQuotes => ans_text (strip_quotes s) a
  | HMultiline => ans_text (get_multiline_response s) a
  | HClean => ans_text (clean_utterance_content s) a
  | HVerbose => ans_text (verbose_v1_parser s) a
  | HUserIntent => ans_text (user_intent_post s) a
  | HNextStep => ans_text (next_step_post s) a
  | HBotMessage => ans_text (bot_message_post s) a
  | HGeneral => ans_text (general_post s) a
  | HSingleCall => ans_triple (single_call_post s) a
  | HIndent => ans_text (Ok (wrap_flow (s2t "f") s)) a
  | HSplit1 => match a with ATexts l => teqs (split1_space s) l | _ => false end
  | HValueText => ans_text (value_text s2 s) a
  | HCtxUtter v =>
      match ctx_utterance clean_guarded v, a with
      | Ok (inl t), AText t' => teq t t'
      | Ok (inr _), ANonStr => true
      | Err e, ARaise e' => exn_eqb e e'
      | _, _ => false
      end
  | HShrink br lens =>
      let acc := fun ls : list text =>
        (negb br || negb (blank (join_nl ls))) && existsb (Nat.eqb (List.length ls)) lens in
      let lines := cap_lines c_max_multi_step_lines (split_nl s) in
      match shrink_fuel acc (List.length lines) lines, a with
      | Some o, AOutcome o' => outcome_eqb o o'
      | _, _ => false
      end
  end.

(* _is_supported_value on one generated value: the model (with the key check as in the source)
   against the real function *)
Definition check_value_case (c : pyv * bool) : bool :=
  Bool.eqb (supported_value value_keys_checked (fst c)) (snd c).

(* (T) the literals of the model are the ones in the source *)
Definition consts_agree : bool :=
  teq (s2t c_user_prefix) P_USER && Nat.eqb c_user_prefix_len 5 &&
  teq (s2t c_bot_prefix) P_BOT && Nat.eqb c_bot_prefix_len 4 &&
  teq (s2t c_quote) [QUOTE] && teq (s2t c_nl_user) NL_USER &&
  teq (s2t c_fallback_intent) FALLBACK_INTENT && teq (s2t c_fallback_bot_intent) FALLBACK_BOT_INTENT &&
  teq (s2t c_fallback_message) FALLBACK_MESSAGE &&
  teq (s2t c_internal_error_message) INTERNAL_ERROR_MESSAGE &&
  teq (s2t c_internal_error_intent) INTERNAL_ERROR_INTENT &&
  strip_quotes_guarded && render_only_predefined &&
  match value_evaluators with [e] => String.eqb e "literal_eval" | _ => false end.

Example ex_check : check_case (HNextStep, s2t "bot express greeting, then", [], AText (s2t "express greeting")) = true.
Proof. vm_compute. reflexivity. Qed.
