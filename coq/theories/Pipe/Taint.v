(* C17 - taint discipline of the bot-message step of one Colang 1.0 turn.

   Every text is tagged with its provenance.  [Render] (Jinja, generation.py _render_string /
   taskmanager._render_string) and [LitEval] (ast.literal_eval) are the only evaluators of the
   modelled turn; [Lookup] is the context-variable dereference `bot $name`.  The trace records the
   text each evaluator interprets AS A PROGRAM (template / expression); texts that are merely
   substituted as DATA into a template are not interpreted.

   What is modelled: generate_bot_message (three sources of the utterance), the prompts of the
   three LLM calls (templates come from the configuration), the single-call and general modes.
   Tie: (T) `render_only_predefined` in Gen/C17Consts.v - the only _render_string call of
   generate_bot_message sits in the predefined-message branch; (X) the end-to-end marker oracle. *)
From Coq Require Import NArith List Bool.
From NG Require Import Svc.TextPost.
Import ListNotations.

Inductive tag := Config | Caller | FromLLM.
Record tv := mk { txt : text; tg : tag }.

Inductive evaluator := Render | LitEval | Lookup.
Definition trace := list (evaluator * tv).

Section Turn.
  Variable llm : nat -> text.                       (* arbitrary completion at call k *)
  Variable render : text -> (text -> text) -> text. (* Jinja: template, data environment *)
  Variable prompt_template : nat -> text.           (* from the configuration *)
  Variable predefined : text -> option text.        (* config.bot_messages *)
  Variable ctx : text -> option text.               (* context variables (caller / actions) *)
  Variable data_env : list tv -> text -> text.      (* environment built from history etc. *)

  (* one LLM call: the template is configuration, everything else is data *)
  Definition call (k : nat) (history : list tv) : tv * trace :=
    let tpl := mk (prompt_template k) Config in
    let _prompt := render (txt tpl) (data_env history) in
    (mk (llm k) FromLLM, [(Render, tpl)]).

  (* generate_bot_message for a bot intent of any provenance *)
  Definition bot_message (k : nat) (history : list tv) (bot_intent : tv) : res (tv * trace) :=
    let! src := bot_message_source (fun t => match predefined t with Some _ => true | None => false end)
                                   (fun v => match ctx v with Some _ => true | None => false end)
                                   (txt bot_intent) in
    match src with
    | Predefined =>
        match predefined (txt bot_intent) with
        | Some m => let tpl := mk m Config in
                    Ok (mk (render m (data_env history)) Config, [(Render, tpl)])
        | None => Err ValueError
        end
    | FromContext v =>
        match ctx v with
        | Some val => Ok (mk val Caller, [(Lookup, mk v (tg bot_intent))])
        | None => Err ValueError
        end
    | FromLLMCall =>
        let '(out, tr) := call k history in
        let! m := bot_message_post (txt out) in
        Ok (mk m FromLLM, tr)
    end.

  (* the three-step turn after the user intent: next step from the LLM, then the message *)
  Definition turn_dialog (history : list tv) : res (tv * trace) :=
    let '(o1, t1) := call 0 history in
    let! ui := user_intent_post (txt o1) in
    let '(o2, t2) := call 1 (mk ui FromLLM :: history) in
    let! bi := next_step_post (txt o2) in
    let! mt := bot_message 2 (mk bi FromLLM :: mk ui FromLLM :: history) (mk bi FromLLM) in
    Ok (fst mt, t1 ++ t2 ++ snd mt).

  Definition turn_general (history : list tv) : res (tv * trace) :=
    let '(o, t) := call 0 history in
    let! m := general_post (txt o) in
    Ok (mk m FromLLM, t).

  Definition turn_single_call (history : list tv) : res (tv * trace) :=
    let '(o, t) := call 0 history in
    let! r := single_call_post (txt o) in
    Ok (mk (snd r) FromLLM, t).
End Turn.

Definition programs_clean (tr : trace) : Prop :=
  forall e t, In (e, t) tr -> (e = Render \/ e = LitEval) -> tg t = Config.

(* ---------------------------------------------------------------- multi-turn: the history in later prompts

   A prompt is `render(template, env)`: the template is configuration, the history (user messages,
   LLM-produced intents and messages of EARLIER turns) is data of the environment.  [passes] is the
   number of rendering passes of taskmanager._render_string (read from the source by the
   translator).  A second pass would interpret the OUTPUT of the first one - which contains the
   history - as a program: its provenance is the join of the provenances of everything inserted. *)
Definition is_config (t : tag) : bool := match t with Config => true | _ => false end.
Definition joined_tag (h : list tv) : tag :=
  if forallb (fun t => is_config (tg t)) h then Config else FromLLM.

Section Conversation.
  Variable llm : nat -> text.
  Variable render : text -> (text -> text) -> text.
  Variable prompt_template : nat -> text.
  Variable data_env : list tv -> text -> text.
  Variable passes : nat.

  Definition call_p (k : nat) (history : list tv) : tv * trace :=
    let tpl := mk (prompt_template k) Config in
    let p1 := render (txt tpl) (data_env history) in
    let again := match passes with
                 | S (S _) => [(Render, mk p1 (joined_tag history))]
                 | _ => []
                 end in
    (mk (llm k) FromLLM, (Render, tpl) :: again).

  (* general mode, any number of turns: each turn appends the user message (Caller) and the
     LLM-produced reply (FromLLM) to the history that the next prompt renders.
     [k0] = index of the first LLM call, [users] = the user messages still to come *)
  Fixpoint conversation (k0 : nat) (history : list tv) (users : list text) : res (list tv * trace) :=
    match users with
    | [] => Ok (history, [])
    | u :: rest =>
        let h1 := mk u Caller :: history in
        let '(o, t) := call_p k0 h1 in
        let! m := general_post (txt o) in
        let! r := conversation (S k0) (mk m FromLLM :: h1) rest in
        Ok (fst r, t ++ snd r)
    end.
End Conversation.
