"""Translator for C03 (T-tie): the failure-containment code read from the CURRENT source with
Python's `ast` and emitted as coq/theories/Gen/C03Consts.v.  Fail-closed: unknown shape => error.

  * actions/action_dispatcher.py::execute_action - the generic `except Exception` handler must not
    re-raise and the function must fall through to `return None, "failed"`;
  * colang/v1_0/runtime/runtime.py - `_internal_error_action_result` (event list incl.
    `hide_prev_turn`), the `status == "failed"` test and the fixed message of `_process_start_action`;
  * colang/v1_0/runtime/flows.py - `_is_match` refuses InternalSystemActionFinished whose status is
    not "success"; compute_next_steps applies `hide_prev_turn`; whether compute_context (what
    `_process_start_action` compares action results against) applies it too;
  * colang/v2_x/runtime/runtime.py - `status == "failed"` => ActionResult whose return value is None;
  * colang/v2_x/runtime/statemachine.py - whether an exception raised while creating the event of an
    actionable element is contained to the owning flow;
  * colang/v2_x/library/guardrails.co - whether `run output rails` resets
    `$output_rails_in_progress` when the `output rails` flow fails.
"""
from __future__ import annotations

import ast
import os
import re

from translator.consts import HEADER, REPO, TranslatorError, _cls, _func, _parse, coq_bool, coq_str


def _contains_raise(nodes):
    for n in nodes:
        for c in ast.walk(n):
            if isinstance(c, ast.Raise):
                return True
    return False


def dispatcher_consts():
    tree = _parse("nemoguardrails/actions/action_dispatcher.py")
    fn = _func(_cls(tree, "ActionDispatcher"), "execute_action")
    tries = [n for n in ast.walk(fn) if isinstance(n, ast.Try) and any(
        isinstance(h.type, ast.Name) and h.type.id == "Exception" for h in n.handlers)]
    # the outermost try around the call of the action
    outer = None
    for t in tries:
        if any(isinstance(h.type, ast.Name) and h.type.id == "LLMCallException" for h in t.handlers):
            outer = t
    if outer is None:
        raise TranslatorError("execute_action: try with handlers (LLMCallException, Exception) not found")
    names = [h.type.id if isinstance(h.type, ast.Name) else None for h in outer.handlers]
    if names != ["LLMCallException", "Exception"]:
        raise TranslatorError(f"execute_action: unexpected handlers {names}")
    llm_h, gen_h = outer.handlers
    forwards_llm = _contains_raise(llm_h.body)
    reraises = _contains_raise(gen_h.body)
    returns_in_handler = any(isinstance(c, ast.Return) for n in gen_h.body for c in ast.walk(n))
    if returns_in_handler:
        raise TranslatorError("execute_action: generic handler returns a value itself (shape not modelled)")
    if outer.finalbody or outer.orelse:
        raise TranslatorError("execute_action: try has else/finally (shape not modelled)")
    last = fn.body[-1]
    if not (isinstance(last, ast.Return) and isinstance(last.value, ast.Tuple) and len(last.value.elts) == 2):
        raise TranslatorError("execute_action does not end with `return <value>, <status>`")
    v, st = last.value.elts
    if not (isinstance(v, ast.Constant) and isinstance(st, ast.Constant) and isinstance(st.value, str)):
        raise TranslatorError("execute_action: fall-through return is not literal")
    if v.value is not None:
        raise TranslatorError(f"execute_action: fall-through value is {v.value!r}, not None")
    return {"reraises": reraises, "forwards_llm": forwards_llm, "status": st.value,
            "lazy": _handler_is_lazy(gen_h)}


LOG_METHODS = {"debug", "info", "warning", "error", "exception", "critical"}


def _handler_is_lazy(handler) -> bool:
    """The generic handler must not EVALUATE the exception object (or the action parameters): an
    exception whose __str__/__repr__ raises, formatted eagerly (f-string, %, str(), .format), would
    escape the dispatcher.  Allowed uses of `e` / `filtered_params` / `params`:
      * a positional argument of log.<method>(<constant format string>, ...)  (formatted lazily and
        inside logging's own error handling), or the sole argument of log.exception(e);
      * `params.items()` as the iterable of the comprehension that builds `filtered_params`.
    Anything else => not lazy."""
    exc_name = handler.name
    watched = {exc_name, "filtered_params", "params"}
    parents = {}
    for stmt in handler.body:
        for n in ast.walk(stmt):
            for c in ast.iter_child_nodes(n):
                parents[c] = n
    for stmt in handler.body:
        for n in ast.walk(stmt):
            if not (isinstance(n, ast.Name) and n.id in watched and isinstance(n.ctx, ast.Load)):
                continue
            par = parents.get(n)
            # log.method("constant", ..., n, ...) / log.exception(n)
            if isinstance(par, ast.Call) and isinstance(par.func, ast.Attribute) and isinstance(par.func.value, ast.Name) \
                    and par.func.value.id == "log" and par.func.attr in LOG_METHODS and n in par.args and not par.keywords:
                first = par.args[0]
                if first is n and par.func.attr == "exception" and len(par.args) == 1:
                    continue
                if first is not n and isinstance(first, ast.Constant) and isinstance(first.value, str):
                    continue
                return False
            # params.items() as a comprehension iterable
            if n.id == "params" and isinstance(par, ast.Attribute) and par.attr == "items":
                call = parents.get(par)
                comp = parents.get(call)
                if isinstance(call, ast.Call) and isinstance(comp, ast.comprehension) and comp.iter is call:
                    continue
            return False
    # no eager formatting construct at all in the handler
    for stmt in handler.body:
        for n in ast.walk(stmt):
            if isinstance(n, ast.JoinedStr):
                return False
    return True


def _event_list(fn):
    """events=[{...}, ...] of `return ActionResult(events=[...])`; the message parameter is `$message`."""
    for n in ast.walk(fn):
        if isinstance(n, ast.Call) and isinstance(n.func, ast.Name) and n.func.id == "ActionResult":
            kw = {k.arg: k.value for k in n.keywords}
            ev = kw.get("events")
            if not isinstance(ev, ast.List):
                raise TranslatorError("_internal_error_action_result: events is not a list literal")
            out = []
            for d in ev.elts:
                if not isinstance(d, ast.Dict):
                    raise TranslatorError("internal-error event is not a dict literal")
                item = {}
                for k, v in zip(d.keys, d.values):
                    if not (isinstance(k, ast.Constant) and isinstance(k.value, str)):
                        raise TranslatorError("internal-error event key is not a string")
                    if isinstance(v, ast.Constant) and isinstance(v.value, str):
                        item[k.value] = v.value
                    elif isinstance(v, ast.Name) and v.id == "message":
                        item[k.value] = "$message"
                    else:
                        raise TranslatorError("internal-error event value has an unexpected shape")
                if "type" not in item:
                    raise TranslatorError("internal-error event without type")
                extra = [x for k, x in item.items() if k != "type"]
                if len(extra) > 1:
                    raise TranslatorError("internal-error event with more than one payload field")
                out.append((item["type"], extra[0] if extra else ""))
            return out
    raise TranslatorError("ActionResult(events=[...]) not found in _internal_error_action_result")


def _failed_branch(fn):
    """`if status == "<s>": result = self._internal_error_action_result("<msg>")` -> (s, msg)"""
    found = []
    for n in ast.walk(fn):
        if isinstance(n, ast.If) and isinstance(n.test, ast.Compare) and isinstance(n.test.left, ast.Name) \
                and n.test.left.id == "status" and len(n.test.ops) == 1 and isinstance(n.test.ops[0], ast.Eq) \
                and isinstance(n.test.comparators[0], ast.Constant):
            for s in n.body:
                if isinstance(s, ast.Assign) and isinstance(s.value, ast.Call) and isinstance(s.value.func, ast.Attribute) \
                        and s.value.func.attr == "_internal_error_action_result" and len(s.value.args) == 1 \
                        and isinstance(s.value.args[0], ast.Constant) and isinstance(s.targets[0], ast.Name) \
                        and s.targets[0].id == "result":
                    found.append((n.test.comparators[0].value, s.value.args[0].value))
    if len(found) != 1:
        raise TranslatorError(f"expected exactly one `if status == ...: result = self._internal_error_action_result(<literal>)`, found {len(found)}")
    return found[0]


def v1_runtime_consts():
    tree = _parse("nemoguardrails/colang/v1_0/runtime/runtime.py")
    rt = _cls(tree, "RuntimeV1_0")
    events = _event_list(_func(rt, "_internal_error_action_result"))
    psa = _func(rt, "_process_start_action")
    status, msg = _failed_branch(psa)
    # the returned events are appended to the next steps: `next_steps.extend(return_events)`
    ext = any(isinstance(c, ast.Call) and isinstance(c.func, ast.Attribute) and c.func.attr == "extend"
              and isinstance(c.func.value, ast.Name) and c.func.value.id == "next_steps"
              and len(c.args) == 1 and isinstance(c.args[0], ast.Name) and c.args[0].id == "return_events"
              for c in ast.walk(psa))
    if not ext:
        raise TranslatorError("_process_start_action does not extend next_steps with return_events")
    # the ContextUpdate of an action result is suppressed when equal to compute_context(events)
    uses_cc = any(isinstance(c, ast.Call) and isinstance(c.func, ast.Name) and c.func.id == "compute_context" for c in ast.walk(psa))
    changes_guard = any(isinstance(n, ast.If) and isinstance(n.test, ast.Name) and n.test.id == "changes" for n in ast.walk(psa))
    if not uses_cc:
        raise TranslatorError("_process_start_action does not use compute_context")
    return {"events": events, "status": status, "message": msg, "changes_guard": changes_guard}


def v1_flows_consts():
    tree = _parse("nemoguardrails/colang/v1_0/runtime/flows.py")
    im = _func(tree, "_is_match")
    req = False
    for n in ast.walk(im):
        if isinstance(n, ast.If) and isinstance(n.test, ast.Compare) and len(n.test.ops) == 1 and isinstance(n.test.ops[0], ast.NotEq) \
                and isinstance(n.test.left, ast.Subscript) and isinstance(n.test.comparators[0], ast.Constant) \
                and n.test.comparators[0].value == "success" and any(isinstance(s, ast.Return) and isinstance(s.value, ast.Constant)
                                                                    and s.value.value is False for s in n.body):
            req = True
    cns = _func(tree, "compute_next_steps")
    cc = _func(tree, "compute_context")

    def mentions_hide(fn, depth=0):
        for c in ast.walk(fn):
            if isinstance(c, ast.Constant) and c.value == "hide_prev_turn":
                return True
        if depth < 2:
            for c in ast.walk(fn):
                if isinstance(c, ast.Call) and isinstance(c.func, ast.Name):
                    try:
                        callee = _func(tree, c.func.id)
                    except TranslatorError:
                        continue
                    if callee is not fn and mentions_hide(callee, depth + 1):
                        return True
        return False

    if not mentions_hide(cns):
        raise TranslatorError("compute_next_steps does not handle hide_prev_turn")
    # compute_context: the loop that folds ContextUpdate events iterates either over the raw history
    # parameter or over a call that applies hide_prev_turn
    loops = [n for n in ast.walk(cc) if isinstance(n, ast.For)]
    if len(loops) != 1:
        raise TranslatorError("compute_context: expected exactly one loop")
    it = loops[0].iter
    if isinstance(it, ast.Name) and it.id == cc.args.args[0].arg:
        honours = mentions_hide(cc)   # an inline treatment inside the loop would be found here
    elif isinstance(it, ast.Call) and isinstance(it.func, ast.Name):
        callee = _func(tree, it.func.id)
        if not mentions_hide(callee):
            raise TranslatorError("compute_context iterates over a call that does not handle hide_prev_turn")
        honours = True
    else:
        raise TranslatorError("compute_context: unexpected loop iterable")
    # the marker the truncation looks for
    marker = None
    for fn in [cns] + [f for f in ast.walk(tree) if isinstance(f, ast.FunctionDef) and f.name == "get_actual_history"]:
        for c in ast.walk(fn):
            if isinstance(c, ast.Assert) and isinstance(c.test, ast.Compare) and isinstance(c.test.comparators[0], ast.Constant):
                marker = c.test.comparators[0].value
    if marker is None:
        raise TranslatorError("hide_prev_turn truncation marker not found")
    return {"match_requires_success": req, "context_honours_hide": honours, "hide_marker": marker}


def v2_runtime_consts():
    tree = _parse("nemoguardrails/colang/v2_x/runtime/runtime.py")
    rt = _cls(tree, "RuntimeV2_x")
    psa = _func(rt, "_process_start_action")
    status, msg = _failed_branch(psa)
    # return_value = result.return_value when result is an ActionResult (default None)
    rv = any(isinstance(s, ast.Assign) and isinstance(s.targets[0], ast.Name) and s.targets[0].id == "return_value"
             and isinstance(s.value, ast.Attribute) and s.value.attr == "return_value" for s in ast.walk(psa))
    if not rv:
        raise TranslatorError("v2 _process_start_action: return_value is not taken from the ActionResult")
    ar = _parse("nemoguardrails/actions/actions.py")
    cls = _cls(ar, "ActionResult")
    default_none = any(isinstance(s, ast.AnnAssign) and isinstance(s.target, ast.Name) and s.target.id == "return_value"
                       and isinstance(s.value, ast.Constant) and s.value.value is None for s in cls.body)
    if not default_none:
        raise TranslatorError("ActionResult.return_value does not default to None")
    # the finished event built for a local action is always a success carrying the return value
    gaf = _func(rt, "_get_action_finished_event")
    kws = {}
    for c in ast.walk(gaf):
        if isinstance(c, ast.Call) and isinstance(c.func, ast.Name) and c.func.id == "new_event_dict":
            kws = {k.arg: k.value for k in c.keywords if k.arg}
    if not (isinstance(kws.get("status"), ast.Constant) and kws["status"].value == "success"):
        raise TranslatorError("v2 _get_action_finished_event: status is not the literal \"success\"")
    return {"status": status, "message": msg}


def v2_statemachine_consts():
    """Is an exception raised while creating the event of an actionable element (invalid arguments,
    e.g. an utterance of None) contained to the flow that owns the head?"""
    tree = _parse("nemoguardrails/colang/v2_x/runtime/statemachine.py")
    fn = _func(tree, "_generate_action_event_from_actionable_element")
    tries = [n for n in ast.walk(fn) if isinstance(n, ast.Try)]
    calls_gen = lambda nodes: any(isinstance(c, ast.Call) and isinstance(c.func, ast.Name) and c.func.id == "_generate_umim_event"
                                  for n in nodes for c in ast.walk(n))
    if not calls_gen([fn]):
        raise TranslatorError("_generate_action_event_from_actionable_element does not call _generate_umim_event")
    if not tries:
        return {"contained": False}
    if len(tries) != 1 or not calls_gen(tries[0].body):
        raise TranslatorError("_generate_action_event_from_actionable_element: unexpected try structure")
    hs = tries[0].handlers
    if len(hs) != 1 or not (isinstance(hs[0].type, ast.Name) and hs[0].type.id == "Exception"):
        raise TranslatorError("_generate_action_event_from_actionable_element: unexpected handlers")
    aborts = any(isinstance(c, ast.Call) and isinstance(c.func, ast.Name) and c.func.id == "_abort_flow"
                 for n in hs[0].body for c in ast.walk(n))
    if _contains_raise(hs[0].body) or not aborts:
        raise TranslatorError("_generate_action_event_from_actionable_element: handler re-raises or does not abort the flow")
    return {"contained": True}


def guardrails_consts():
    """Textual, fail-closed reading of `flow run output rails` of guardrails.co."""
    path = os.path.join(REPO, "nemoguardrails/colang/v2_x/library/guardrails.co")
    text = open(path, encoding="utf-8").read()
    m = re.search(r"^flow run output rails \$output_text\n(.*?)(?=^flow |\Z)", text, re.S | re.M)
    if not m:
        raise TranslatorError("guardrails.co: `flow run output rails $output_text` not found")
    body = [ln for ln in m.group(1).split("\n") if ln.strip() and not ln.strip().startswith("#")]
    sets_true = [ln for ln in body if re.fullmatch(r"\s*\$output_rails_in_progress = True", ln)]
    resets = [ln for ln in body if re.fullmatch(r"\s*\$output_rails_in_progress = False", ln)]
    if len(sets_true) != 1 or not resets:
        raise TranslatorError("guardrails.co: unexpected use of $output_rails_in_progress in `run output rails`")
    plain_await = any(re.fullmatch(r"\s*await output rails \$output_text", ln) for ln in body)
    when_form = any(re.fullmatch(r"\s*when output rails \$output_text", ln) for ln in body)
    if plain_await and not when_form:
        reset_on_failure = False
    elif when_form and not plain_await:
        # the else branch must reset the flag
        idx = [i for i, ln in enumerate(body) if re.fullmatch(r"\s*else", ln)]
        if len(idx) != 1:
            raise TranslatorError("guardrails.co: `when output rails` without a single else branch")
        ind = len(body[idx[0]]) - len(body[idx[0]].lstrip())
        branch = []
        for ln in body[idx[0] + 1:]:
            if len(ln) - len(ln.lstrip()) <= ind:
                break
            branch.append(ln.strip())
        reset_on_failure = "$output_rails_in_progress = False" in branch
        if not reset_on_failure:
            raise TranslatorError("guardrails.co: else branch of `when output rails` does not reset the flag")
    else:
        raise TranslatorError("guardrails.co: `run output rails` neither awaits nor `when`-guards `output rails`")
    # _bot_say consults the flag
    if not re.search(r"if not \$output_rails_in_progress\n\s*await run output rails \$text", text):
        raise TranslatorError("guardrails.co: `_bot_say` does not guard `run output rails` with the flag")
    return {"reset_on_failure": reset_on_failure}


def c03_consts():
    d = dispatcher_consts()
    r1 = v1_runtime_consts()
    f1 = v1_flows_consts()
    r2 = v2_runtime_consts()
    g = guardrails_consts()
    sm = v2_statemachine_consts()
    ev = "[" + "; ".join(f"({coq_str(t)}, {coq_str(p)})" for t, p in r1["events"]) + "]"
    lines = [
        HEADER,
        "(* --- actions/action_dispatcher.py::execute_action --- *)",
        f"Definition dispatch_reraises : bool := {coq_bool(d['reraises'])}.",
        f"Definition dispatch_forwards_llm_exception : bool := {coq_bool(d['forwards_llm'])}.",
        "(* the generic handler never evaluates the exception object or the parameters (lazy logging only) *)",
        f"Definition dispatch_handler_lazy : bool := {coq_bool(d['lazy'])}.",
        f"Definition dispatch_failed_status : string := {coq_str(d['status'])}.",
        "(* --- colang/v1_0/runtime/runtime.py --- *)",
        f"Definition v1_failed_status_test : string := {coq_str(r1['status'])}.",
        f"Definition v1_internal_error_message : string := {coq_str(r1['message'])}.",
        f"Definition v1_internal_error_events : list (string * string) := {ev}.",
        f"Definition v1_context_update_only_on_change : bool := {coq_bool(r1['changes_guard'])}.",
        "(* --- colang/v1_0/runtime/flows.py --- *)",
        f"Definition v1_match_requires_success : bool := {coq_bool(f1['match_requires_success'])}.",
        f"Definition v1_context_honours_hide : bool := {coq_bool(f1['context_honours_hide'])}.",
        f"Definition v1_hide_marker : string := {coq_str(f1['hide_marker'])}.",
        "(* --- colang/v2_x/runtime/runtime.py --- *)",
        f"Definition v2_failed_status_test : string := {coq_str(r2['status'])}.",
        "(* --- colang/v2_x/runtime/statemachine.py --- *)",
        f"Definition v2_action_event_errors_contained : bool := {coq_bool(sm['contained'])}.",
        "(* --- colang/v2_x/library/guardrails.co --- *)",
        f"Definition v2_flag_reset_on_failure : bool := {coq_bool(g['reset_on_failure'])}.",
        "",
    ]
    return "\n".join(lines)


GENERATORS = {"C03Consts": c03_consts}


# ---------------------------------------------------------------------------------------
# (T) the guards of the shipped self-check rails as expression trees (Gen/C03Guards.v); the flows
# themselves (flat elements / statement trees) are in Gen/C01Flows.v (translator/gen_c01.py)


def _v2_if_guards(rel, wanted):
    import sys

    if REPO not in sys.path:
        sys.path.insert(0, REPO)
    from nemoguardrails.colang import parse_colang_file
    from nemoguardrails.colang.v2_x.lang.colang_ast import If, When

    with open(os.path.join(REPO, rel), encoding="utf-8") as f:
        parsed = parse_colang_file(os.path.basename(rel), f.read(), version="2.x")
    flows = {fl.name: fl for fl in parsed["flows"]}
    out = []

    def visit(els):
        for e in els or []:
            if isinstance(e, If):
                out.append(e.expression)
                visit(e.then_elements)
                visit(e.else_elements)
            elif isinstance(e, When):
                for b in e.then_elements:
                    visit(b)
                visit(e.else_elements)

    for name in wanted:
        if name not in flows:
            raise TranslatorError(f"{rel}: flow `{name}` not found")
        visit(flows[name].elements)
    return out


def c03_guards():
    from translator.gen_c16 import _v1_if_guards, guard_table

    g = []
    g += _v1_if_guards("nemoguardrails/library/self_check/input_check/flows.v1.co", ["self check input"])
    g += _v1_if_guards("nemoguardrails/library/self_check/output_check/flows.v1.co", ["self check output"])
    g += _v2_if_guards("nemoguardrails/library/self_check/input_check/flows.co", ["self check input"])
    g += _v2_if_guards("nemoguardrails/library/self_check/output_check/flows.co", ["self check output"])
    lines = [
        "(* GENERATED on every run by /verif/translator/gen_c03.py from the current source tree. Do not edit. *)",
        "From Coq Require Import String List.",
        "From NG Require Import Pipe.OptGuards.",
        "Import ListNotations.",
        "Open Scope string_scope.",
        "",
        "(* the `if` guards of the shipped `self check input` / `self check output` rails, Colang 1.0 and 2.x *)",
        f"Definition c03_guard_table : list (string * gexpr) :=\n  {guard_table(g)}.",
        "",
    ]
    return "\n".join(lines)


GENERATORS["C03Guards"] = c03_guards
