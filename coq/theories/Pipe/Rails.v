(* Pipe.Rails - the rails loop shared by the Colang 1.0 and 2.x pipeline models (C01, C02).

   `run_rails` is the fold with early exit that `run input rails` / `run output rails`
   (llm_flows.co:47-66, 131-149) and a guardrails `input rails` / `output rails` flow perform:
   the rails of the configured list are called in order, each is shown the text as rewritten by
   its predecessors, the first rejection ends the loop.

   A rail is an ARBITRARY custom action: `v : nat -> rail -> text -> verdict` (call index within
   the turn, rail, text shown).  Definitions only; proofs are in Rails_proofs.v. *)
From Coq Require Import List String Bool Arith.
Import ListNotations.
Open Scope string_scope.

Definition text := string.
Definition rail := nat.

Inductive verdict := Accept | Reject | Rewrite (t : text).

Inductive side := SIn | SOut.

Inductive prov := FromLLM | Predefined.

(* kinds of LLM call sites *)
Inductive lkind := KGeneral | KPassthrough | KIntent | KNext | KBotMsg | KValue.

(* what is visible of the conversation to a later stage: UserMessage texts and
   StartUtteranceBotAction scripts of the history, in order *)
Inductive hentry := HUser (t : text) | HBot (t : text).

(* what flows into a prompt: the call site, the visible history, the current user text *)
Record prompt := mkPrompt { p_kind : lkind; p_hist : list hentry; p_user : text }.

(* trace of one turn *)
Inductive tev :=
| TRail (s : side) (r : rail) (seen : text)        (* a rail action was invoked and shown `seen` *)
| TUser (t : text)                                 (* the user message is released to the dialog (UserMessage / _user_said finished) *)
| TLLM (idx : nat) (p : prompt)                    (* an LLM call *)
| TBot (p : prov) (t : text)                       (* a bot message was produced (before output rails) *)
| TEmit (t : text)                                 (* a bot utterance was released (StartUtteranceBotAction) *)
| TExc (s : side) (r : rail).                      (* a rail exception event *)

Inductive reply :=
| RMsg (parts : list text)                         (* assistant message: the released utterances *)
| RExc (s : side) (r : rail).                      (* exception message of rail r *)

Inductive rres := Passed (t : text) | Blocked (r : rail) (t : text).

Definition apply_verdict (v : verdict) (t : text) : text :=
  match v with Rewrite t' => t' | _ => t end.

Definition is_reject (v : verdict) : bool := match v with Reject => true | _ => false end.

(* c = index of the next rail-action call of this turn *)
Fixpoint run_rails (v : nat -> rail -> text -> verdict) (s : side) (rs : list rail) (c : nat) (t : text)
  : list tev * nat * rres :=
  match rs with
  | [] => ([], c, Passed t)
  | r :: rs' =>
    match v c r t with
    | Reject => ([TRail s r t], S c, Blocked r t)
    | w => let '(tr, c', res) := run_rails v s rs' (S c) (apply_verdict w t) in
           (TRail s r t :: tr, c', res)
    end
  end.

(* ---- observation helpers used by the statements ---- *)

Definition is_rail (s : side) (e : tev) : bool :=
  match e, s with
  | TRail SIn _ _, SIn => true
  | TRail SOut _ _, SOut => true
  | _, _ => false
  end.

Definition is_any_rail (e : tev) : bool := match e with TRail _ _ _ => true | _ => false end.
Definition is_llm (e : tev) : bool := match e with TLLM _ _ => true | _ => false end.
Definition is_emit (e : tev) : bool := match e with TEmit _ => true | _ => false end.

Definition rail_calls (s : side) (tr : list tev) : list (rail * text) :=
  flat_map (fun e => match e with
                     | TRail s' r t => if is_rail s e then [(r, t)] else []
                     | _ => [] end) tr.

Definition llm_calls (tr : list tev) : list (nat * prompt) :=
  flat_map (fun e => match e with TLLM i p => [(i, p)] | _ => [] end) tr.

Definition emitted (tr : list tev) : list text :=
  flat_map (fun e => match e with TEmit t => [t] | _ => [] end) tr.

Definition n_rail_calls (tr : list tev) : nat := List.length (filter is_any_rail tr).

(* declarative reading of "called in the configured order, each shown the composition of the
   rewrites of its predecessors, stopping at the first rejection":
   `chain v c t rs calls` - calls is what the list rs produces from call index c and text t *)
Fixpoint chain (v : nat -> rail -> text -> verdict) (c : nat) (t : text) (rs : list rail)
         (calls : list (rail * text)) : Prop :=
  match calls with
  | [] => rs = []
  | (r, x) :: rest =>
    match rs with
    | [] => False
    | r0 :: rs' =>
      r = r0 /\ x = t /\
      (if is_reject (v c r t) then rest = []
       else chain v (S c) (apply_verdict (v c r t) t) rs' rest)
    end
  end.

(* the text that leaves the rails when nobody rejects *)
Fixpoint final_text (v : nat -> rail -> text -> verdict) (c : nat) (t : text) (rs : list rail) : text :=
  match rs with
  | [] => t
  | r :: rs' => final_text v (S c) (apply_verdict (v c r t) t) rs'
  end.

(* sanity *)
Example run_rails_ex1 :
  run_rails (fun c r t => if Nat.eqb r 1 then Rewrite "B" else Accept) SIn [0; 1; 2] 0 "A"
  = ([TRail SIn 0 "A"; TRail SIn 1 "A"; TRail SIn 2 "B"], 3, Passed "B").
Proof. reflexivity. Qed.

Example run_rails_ex2 :
  run_rails (fun c r t => if Nat.eqb r 1 then Reject else Rewrite "Z") SOut [0; 1; 2] 4 "A"
  = ([TRail SOut 0 "A"; TRail SOut 1 "Z"], 6, Blocked 1 "Z").
Proof. reflexivity. Qed.
