(* C11 - theorems about _clean_up_state with the constants of the CURRENT source
   (cfg_now / cleanup_now are defined in V2/CleanupRun.v so that the model runs even if a proof breaks). *)
From Coq Require Import ZArith List String Bool Lia.
From NG Require Import Gen.C11Consts V2.Cleanup V2.Cleanup_proofs V2.CleanupRun.
Import ListNotations.
Open Scope string_scope.
Open Scope Z_scope.

Lemma only_done_now now s s' :
  NoDup (map fst (flows s)) -> cleanup_now now s = Some s' ->
  (forall u i, slook (flows s) u = Some i -> slook (flows s') u = None ->
     (i_status i = "FINISHED" \/ i_status i = "STOPPED") /\ i_activated i = 0 /\
     cleanup_age_s * 1000000 < now - i_updated i) /\
  (forall a x, slook (actions s) a = Some x -> slook (actions s') a = None ->
     forall u i, In (u, i) (flows s') -> ~ In a (i_actions i)).
Proof.
  intros Hd Hr. destruct (cleanup_only_done cfg_now now s s' Hd Hr) as [H1 H2]. split; [|exact H2].
  intros u i Hi Hn. exact (removable_meaning _ _ _ now i (H1 u i Hi Hn)).
Qed.

Lemma candidates_now now s s' (ix : index) :
  NoDup (map fst (flows s)) -> cleanup_now now s = Some s' ->
  (forall name es e, slook ix name = Some es -> In e es ->
     exists i, slook (flows s) (fst e) = Some i /\ is_done cfg_now i = false /\ slook (i_heads i) (snd e) <> None) ->
  forall name,
    Forall2 (fun a b => exists fu hu i i', a = Some (fu, hu, i) /\ b = Some (fu, hu, i') /\
                                           frame_rel (fun x => slook (flows s') x = None) i i')
            (candidates ix s name) (candidates ix s' name).
Proof. intros Hd Hr. exact (cleanup_candidates cfg_now now s s' Hd Hr ix eq_refl). Qed.

(* the hypotheses are inhabited: the example of Cleanup.v under the constants of the source *)
Example cleanup_now_example :
  exists s', cleanup_now 10000000 ex_state = Some s' /\ slook (flows s') "a1" = None /\
             slook (flows s') "b1" <> None /\ slook (actions s') "act2" = None.
Proof. eexists. split; [vm_compute; reflexivity|]. repeat split; vm_compute; congruence. Qed.
