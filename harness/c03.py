"""C03 - Failing actions are contained and rails fail closed.

Model: coq/theories/Pipe/Faults.v (dispatcher catch-all, v1 internal-error result +
hide_prev_turn with the two context views, v2 None return value + $output_rails_in_progress);
theorems: Props/C03.v.  Ties: (T) Gen/C03Consts.v regenerated from action_dispatcher.py, the two
runtime.py, flows.py, guardrails.co; (X) fault injection on the real LLMRails (scripted actions
raise at their n-th call of a turn), v1 and v2, singles and pairs over call sites x turns,
combined with rejecting verdicts; whole conversations compared with the model inside Coq.
Search: the property text re-stated per turn (memoryless expectation: every turn behaves as on a
fresh conversation; a raising/rejecting rail never lets the LLM text through).
"""
from __future__ import annotations

import itertools
import json
import os
import random

from harness import common as C
from harness import opt_driver as D

PID = "C03"
GEN = ["C03Consts", "C01Flows", "C03Guards"]   # C01Flows: translator/gen_c01.py (shipped self-check flows)
INTERNAL_ERROR = "I'm sorry, an internal error has occurred."

PREAMBLE = """From Coq Require Import String List Bool.
From NG Require Import Pipe.Faults Pipe.FaultsRun.
Import ListNotations.
Open Scope string_scope.
"""

LONG_TEXT = ("a fairly long text, " * 25).strip()
# edge texts (falsy, keyword-like, long, equal to the refusal); "" is not used as the v1 LLM output
# (generation.py replaces an empty completion by a fallback sentence: LLM post-processing, C17)
EDGE_USER = ["", " ", "0", "None", "False", LONG_TEXT, D.REFUSAL]
EDGE_GEN = {"v1": ["0", "None", "False", LONG_TEXT, D.REFUSAL], "v2": ["", " ", "0", "None", "False", LONG_TEXT, D.REFUSAL]}

V1_FAULT_SITES = [("in_rail_0", 0), ("in_rail_1", 0), ("dialog_action", 0), ("ret_rail_0", 0), ("ret_rail_0", 1),
                  ("out_rail_0", 0), ("out_rail_1", 0)]
V2_FAULT_SITES = [("in_rail_0", 0), ("in_rail_1", 0), ("ret_action", 0), ("gen_action", 0), ("out_rail_0", 0), ("out_rail_1", 0)]
RAIL_SITES = ["in_rail_0", "in_rail_1", "out_rail_0", "out_rail_1"]


def verdict_patterns(turns):
    pats = [{}]
    for t in range(turns):
        for s in RAIL_SITES:
            pats.append({f"{t}:{s}": "R"})
    for t1, t2 in itertools.combinations(range(turns), 2):
        for s in ("in_rail_0", "out_rail_0"):
            for s2 in ("in_rail_0", "out_rail_0"):
                pats.append({f"{t1}:{s}": "R", f"{t2}:{s2}": "R"})
    return pats


def gen_cases(rng, tier, version):
    turns = 3
    sites = V1_FAULT_SITES if version == "v1" else V2_FAULT_SITES
    faults = [(t, s, o) for t in range(turns) for (s, o) in sites]
    pats = verdict_patterns(turns)
    cases = [{"version": version, "turns": turns, "faults": [], "verdicts": p} for p in pats]
    singles = [[f] for f in faults]
    pairs = [list(p) for p in itertools.combinations(faults, 2)]
    single_pats = pats if tier == "thorough" else pats[:1 + turns * len(RAIL_SITES)]   # quick: at most one rejection
    for fs in singles:
        for p in single_pats:
            cases.append({"version": version, "turns": turns, "faults": [list(f) for f in fs], "verdicts": p})
    for fs in pairs:
        cases.append({"version": version, "turns": turns, "faults": [list(f) for f in fs], "verdicts": {}})
    extra = []
    for fs in pairs:
        for p in pats[1:]:
            extra.append({"version": version, "turns": turns, "faults": [list(f) for f in fs], "verdicts": p})
    rng.shuffle(extra)
    cases += extra[: (150 if tier == "quick" else 3000)]
    if tier == "thorough":
        f4 = [(t, s, o) for t in range(4) for (s, o) in sites]
        tr = [list(x) for x in itertools.combinations(f4, 3)]
        rng.shuffle(tr)
        for fs in tr[:600]:
            cases.append({"version": version, "turns": 4, "faults": [list(f) for f in fs],
                          "verdicts": rng.choice(verdict_patterns(4))})
    # fault (or rejection) in turn k, rejecting verdict in turn k+1 - on the messages API (above) and, for
    # Colang 1.0, once more with the explicit `state` object carrying the events
    if version == "v1":
        for f in faults:
            t = f[0]
            if t + 1 < turns:
                for s in ("in_rail_0", "out_rail_1"):
                    cases.append({"version": version, "turns": turns, "faults": [list(f)], "verdicts": {f"{t + 1}:{s}": "R"}, "api": "state"})
        for p in pats[1:1 + turns * len(RAIL_SITES)]:
            cases.append({"version": version, "turns": turns, "faults": [], "verdicts": p, "api": "state"})
    # hostile exception objects at every single fault site: __str__ raises / __repr__ raises /
    # unprintable non-string args.  The containment must not depend on being able to print them.
    for f in faults:
        for kind in ("XS", "XR", "XA"):
            cases.append({"version": version, "turns": turns, "faults": [list(f) + [kind]], "verdicts": {}})
    # the exception CLASS of a fault is drawn from a family of ordinary Exception subclasses (timeouts,
    # OS / connection errors, Key/Value/TypeError, a custom class): every site sees a timeout and one more
    fam = sorted(D.EXC_FAMILY)
    for i, f in enumerate(faults):
        for kind in {"XT" if i % 2 == 0 else "XAT", fam[i % len(fam)]}:
            cases.append({"version": version, "turns": turns, "faults": [list(f) + [kind]], "verdicts": {}})
    # edge texts: every single fault and every one-rejection pattern once more with falsy / colliding
    # texts (user text == generated text included), cycling through the edge lists
    eu, eg = EDGE_USER, EDGE_GEN[version]
    i = 0
    edge_cases = []
    for fs in [[]] + singles:
        for p in (pats[:1 + turns * len(RAIL_SITES)] if tier == "thorough" else [pats[0], pats[1 + (i % (turns * len(RAIL_SITES)))]]):
            users, gens = [], []
            for t in range(turns):
                u = eu[(i + t) % len(eu)]
                g = eg[(i + 2 * t) % len(eg)] if (i + t) % 3 else (u if (version == "v2" or u.strip() != "") else eg[0])
                users.append(u)
                gens.append(g)
            i += 1
            edge_cases.append({"version": version, "turns": turns, "faults": [list(f) for f in fs], "verdicts": p,
                               "texts": {"user": users, "gen": gens}})
    cases += edge_cases
    if os.environ.get("VERIF_SMALL"):
        rng.shuffle(cases)
        cases = cases[:160]
    return cases


# ---------------------------------------------------------------------------------------
# Coq printing


def q(s):
    return C.coq_string(s)


def coq_site(name):
    return {"in_rail_0": "(SIn 0)", "in_rail_1": "(SIn 1)", "out_rail_0": "(SOut 0)", "out_rail_1": "(SOut 1)",
            "dialog_action": "SDialog", "gen_action": "SDialog", "ret_rail_0": "SRet", "ret_action": "SRet"}[name]


def coq_case(case, obs):
    ents = []
    for k, v in case.get("verdicts", {}).items():
        t, s = k.split(":")
        # a verdict holds for every occurrence of the site in that turn
        for occ in (0, 1):
            if [int(t), s, occ] not in [f[:3] for f in case["faults"]]:
                ents.append(f"({int(t)}, {coq_site(s)}, {occ}, OReject)")
    for f in case["faults"]:
        t, s, o = f[:3]          # every exception object is `ORaise` in the model (see Faults.v, escapes_now)
        ents.append(f"({t}, {coq_site(s)}, {o}, ORaise)")
    # faults first: `find` returns the first match
    ents = [e for e in ents if "ORaise" in e] + [e for e in ents if "OReject" in e]
    exp = []
    for o in obs:
        res = "ERaises" if o["exc"] else f"(EReply {q(o['reply'])})"
        calls = C.coq_list([f"({coq_site(n)}, {C.coq_option(q(t) if t is not None else None)})" for n, t in o["calls"]])
        exp.append(f"(mkEO {res} {calls} {o['llm']})")
    v = "V1" if case["version"] == "v1" else "V2"
    tx = case.get("texts") or {}
    users = C.coq_list([q(x) for x in tx.get("user", [])])
    gens = C.coq_list([q(x) for x in tx.get("gen", [])])
    return f"(mkCC {v} (mkV 2 2 true) {case['turns']} {C.coq_list(ents)} {users} {gens} {C.coq_list(exp)})"


# ---------------------------------------------------------------------------------------
# direct oracle: the property text, turn by turn, memoryless


def decide(case, t, site, occ):
    return D._decide(case, t, site, occ)


def expected_turn(case, t):
    """What a FRESH conversation would do in turn t with this turn's verdicts and faults:
    (list of called sites, reply class, a rail raised?, a rail rejected or raised?)"""
    v1 = case["version"] == "v1"
    calls = []
    ret_occ = [0]
    rail_raised = False

    def ret():
        name = "ret_rail_0" if v1 else "ret_action"
        calls.append(name)
        d = decide(case, t, name, ret_occ[0])
        ret_occ[0] += 1
        return d

    def refuse_v1():
        return "internal" if ret() == "X" else "refusal"

    def out_rails_v2(text_is_refusal):
        for k in range(2):
            calls.append(f"out_rail_{k}")
            d = decide(case, t, f"out_rail_{k}", 0)
            if d in ("R", "X"):
                return "refusal", d == "X"
        return ("refusal" if text_is_refusal else "llm"), False

    for k in range(2):
        calls.append(f"in_rail_{k}")
        d = decide(case, t, f"in_rail_{k}", 0)
        if d == "X":
            if v1:
                return calls, "internal", True, True
            r, rr = out_rails_v2(True)
            return calls, "refusal", True, True
        if d == "R":
            if v1:
                return calls, refuse_v1(), False, True
            r, rr = out_rails_v2(True)
            return calls, "refusal", rr, True
    if v1:
        calls.append("dialog_action")
        if decide(case, t, "dialog_action", 0) == "X":
            return calls, "internal", False, False
        if ret() == "X":
            return calls, "internal", False, False
        for k in range(2):
            calls.append(f"out_rail_{k}")
            d = decide(case, t, f"out_rail_{k}", 0)
            if d == "X":
                return calls, "internal", True, True
            if d == "R":
                return calls, refuse_v1(), False, True
        return calls, "llm", False, False
    ret()
    calls.append("gen_action")
    if decide(case, t, "gen_action", 0) == "X":
        # the property: generate returns normally with a refusal or the internal-error message,
        # never the unchecked text; the output rails may or may not be consulted
        return calls, "dialog-failed", False, False
    r, rr = out_rails_v2(False)
    return calls, r, rr, r == "refusal"


def reply_classes(case, o, t):
    """All classes the reply text belongs to (texts may coincide, e.g. generated text == refusal)."""
    r = o["reply"]
    out = set()
    if r == D.REFUSAL:
        out.add("refusal")
    if r == INTERNAL_ERROR:
        out.add("internal")
    if r == D.case_gen_text(case, t):
        out.add("llm")
    return out


def reply_class(case, o, t):
    cs = reply_classes(case, o, t)
    for c in ("refusal", "internal", "llm"):
        if c in cs:
            return c
    return "other:" + repr(o["reply"])[:60]


def oracle(case, obs):
    bad = []
    version = case["version"]
    for o in obs:
        t = o["turn"]
        if o["exc"]:
            bad.append((f"generate-raises:{version}:{o['exc']}", f"turn {t}: generate raised {o['exc']}: {o.get('exc_msg')}"))
            break
        want_calls, want_cls, rail_raised, rail_blocked = expected_turn(case, t)
        got_calls = [c[0] for c in o["calls"]]
        classes = reply_classes(case, o, t)
        cls = reply_class(case, o, t)
        llm_only = classes == {"llm"}      # the generated text and nothing that is also a refusal / error message
        earlier_fault = any(f[0] < t for f in case["faults"]) or any(int(k.split(":")[0]) < t for k in case.get("verdicts", {}))
        # fail closed
        called_rails = [c for c in got_calls if c.startswith(("in_rail", "out_rail"))]
        bad_verdict = [c for c in called_rails if decide(case, t, c, 0) in ("R", "X")]
        # (the refusal text itself being re-checked by v2 output rails does not count)
        if llm_only and bad_verdict:
            sig = (f"{version}-hidden-turn-stale-context:verdict-ignored" if version == "v1"
                   else f"{version}-rail-verdict-ignored")
            bad.append((sig, f"turn {t}: rail action(s) {bad_verdict} rejected or raised but the reply is the LLM text"))
            continue
        if version == "v2" and "llm" in classes and want_cls == "llm" and "gen_action" in got_calls and \
                not any(c.startswith("out_rail") for c in got_calls):
            bad.append(("v2-output-rails-disabled-after-blocked-bot-message",
                        f"turn {t}: the LLM text was returned without calling any output rail (calls {got_calls})"))
            continue
        if version == "v2" and o["reply"] == "" and got_calls == [] and want_calls:
            bad.append(("v2-dialog-action-failure-kills-conversation",
                        f"turn {t}: empty reply and no rail was called (a dialog action raised in an earlier turn)"))
            continue
        if want_cls == "dialog-failed":
            # a failing dialog action guards no text: generate must return normally without the LLM text
            # (a refusal, the internal-error message, or no utterance at all); the output rails may be consulted
            rest = got_calls[len(want_calls):]
            if (classes & {"refusal", "internal"} or o["reply"] == "") and got_calls[:len(want_calls)] == want_calls \
                    and rest == [f"out_rail_{k}" for k in range(len(rest))]:
                continue
            bad.append((f"turn-differs-from-fresh-conversation:{version}",
                        f"turn {t} (dialog action raised): calls {got_calls} reply {o['reply']!r}"))
            continue
        ok_cls = want_cls in classes
        if not ok_cls or got_calls != want_calls:
            if version == "v1" and "refusal" in classes and want_cls == "llm" and earlier_fault:
                sig = "v1-hidden-turn-stale-context:spurious-refusal"
            elif version == "v2" and want_cls != "llm" and "refusal" in classes and got_calls != want_calls and \
                    not any(c.startswith("out_rail") for c in got_calls) and any(c.startswith("out_rail") for c in want_calls):
                sig = "v2-output-rails-disabled-after-blocked-bot-message"
            else:
                sig = f"turn-differs-from-fresh-conversation:{version}"
            bad.append((sig, f"turn {t}: calls {got_calls} reply class {cls}; a fresh conversation would call {want_calls} and answer {want_cls}"))
    return bad


# ---------------------------------------------------------------------------------------


def load_corpus():
    d = os.path.join(C.VERIF, "corpus", PID)
    out = []
    if os.path.isdir(d):
        for fn in sorted(os.listdir(d)):
            if fn.endswith(".json"):
                out.append(json.load(open(os.path.join(d, fn))))
    return out


def nontrivial(case, obs):
    """a fault actually fired (the site was reached) and at least one later turn was observed"""
    fired = False
    for f in case["faults"]:
        t, s, o = f[:3]
        if t < len(obs):
            n = sum(1 for c in obs[t]["calls"] if c[0] == s)
            if n > o:
                fired = True
                if t < len(obs) - 1:
                    return True
    return False


def run(tier, seed, replay=None):
    import time
    out = C.Outcome(PID, tier, seed)
    rng = random.Random(seed * 1000003 + 3)
    tm = {}
    t0 = time.time()
    try:
        b = C.build_and_audit(PID, GEN)
    except Exception as ex:   # e.g. coqdep on a file another run removed: keep going, the oracle still runs
        import traceback
        b = {"ok": False, "broken": ["build:exception"], "log": traceback.format_exc(), "obligations": 0, "files": [], "axioms": []}
    tm["build_and_audit_s"] = round(time.time() - t0, 1)
    C.proof_coverage(out, b, "make theories/Props/C03.vo && coqc Props/C03.v (Print Assumptions)")
    for br in b["broken"]:
        out.add_broken(br, b["log"])
    with C.BuildLock():
        okm, logm = C.coq_make(["theories/Pipe/FaultsRun.vo"])
    if not okm:
        out.add_broken("coq:theories/Pipe/FaultsRun.v", logm)

    cases = []
    corpus_n = 0
    for d in load_corpus():
        if d.get("kind") == "conv":
            cases.append(d["case"])
            corpus_n += 1
    if replay:
        d = json.load(open(replay))
        r = d.get("replay", d)
        if r.get("kind") == "conv":
            cases.append(r["case"])
    else:
        cases += gen_cases(rng, tier, "v1") + gen_cases(rng, tier, "v2")

    t0 = time.time()
    v1 = [c for c in cases if c["version"] == "v1"]
    v2 = [c for c in cases if c["version"] == "v2"]
    obs1, e1 = D.run_shards(PID + "_v1", "c03v1", v1, nproc=max(1, C.NPROC // 2), timeout=1500) if v1 else ([], [])
    obs2, e2 = D.run_shards(PID + "_v2", "c03v2", v2, nproc=max(1, C.NPROC // 2), timeout=1500) if v2 else ([], [])
    tm["impl_s"] = round(time.time() - t0, 1)
    for e in e1 + e2:
        out.add_broken("correspondence:C03(driver)", e)

    terms, kept = [], []
    seen = set()
    n_nontrivial = 0
    dist = {"v1": 0, "v2": 0, "single_fault": 0, "pair": 0, "triple": 0, "no_fault": 0, "with_rejects": 0,
            "faults_fired": 0, "reply_classes": {}}
    for case, obs in list(zip(v1, obs1)) + list(zip(v2, obs2)):
        if obs is None:
            continue
        if isinstance(obs, dict) and "driver_error" in obs:
            out.add_broken("correspondence:C03(driver)", json.dumps({"case": case, "error": obs["driver_error"], "tb": obs.get("tb")}))
            continue
        dist[case["version"]] += 1
        dist[{0: "no_fault", 1: "single_fault", 2: "pair"}.get(len(case["faults"]), "triple")] += 1
        if case.get("verdicts"):
            dist["with_rejects"] += 1
        if case.get("texts"):
            dist["edge_texts"] = dist.get("edge_texts", 0) + 1
        if case.get("api") == "state":
            dist["state_api"] = dist.get("state_api", 0) + 1
        if any(len(f) > 3 and f[3] in ("XS", "XR", "XA") for f in case["faults"]):
            dist["hostile_exceptions"] = dist.get("hostile_exceptions", 0) + 1
        for f in case["faults"]:
            if len(f) > 3 and f[3] in D.EXC_FAMILY:
                dist.setdefault("exception_classes", {})[f[3]] = dist.get("exception_classes", {}).get(f[3], 0) + 1
        for o in obs:
            k = reply_class(case, o, o["turn"]) if not o["exc"] else "raises"
            k = k if not k.startswith("other") else "other"
            dist["reply_classes"][k] = dist["reply_classes"].get(k, 0) + 1
        for sig, msg in oracle(case, obs):
            out.findings.append(C.Finding(sig, msg, {"kind": "conv", "case": case,
                                                    "observed": [{k: v for k, v in o.items() if k != "exc_msg"} for o in obs]}))
        t = coq_case(case, obs)
        h = C.canon_hash(t)
        if h not in seen:
            seen.add(h)
            if nontrivial(case, obs):
                n_nontrivial += 1
                dist["faults_fired"] += 1
        terms.append(t)
        kept.append((case, obs))

    t0 = time.time()
    if okm and terms:
        bools, err = C.run_cases(PID + "_conv", PREAMBLE, terms, "check_conv", shard=120, timeout=1500)
        if err:
            out.add_broken("correspondence:C03(coqc)", err)
        else:
            bad = [kc for ok, kc in zip(bools, kept) if not ok]
            if bad:
                case, obs = min(bad, key=lambda kc: (len(kc[0]["faults"]) + len(kc[0].get("verdicts", {})), len(json.dumps(kc[1]))))
                model = C.eval_term(PID + "_conv", PREAMBLE, f"model_conv {coq_case(case, obs)}")
                out.add_broken("correspondence:C03",
                               f"{len(bad)} disagreements; smallest: case={json.dumps(case)} observed="
                               f"{json.dumps([[o['reply'], o['exc'], o['calls'], o['llm']] for o in obs])} model={model[-2500:]}")
    tm["model_s"] = round(time.time() - t0, 1)

    out.coverage.update({
        "timings": tm,
        "evaluations": len(terms),
        "distinct_nontrivial": n_nontrivial,
        "rule": "one evaluation = one conversation (3 turns; 4 in thorough) on a fresh LLMRails with a fault set and a verdict pattern; "
                "non-trivial = at least one injected fault was actually reached (the scripted action raised) and a later turn was observed; "
                "distinct by hash of the Coq case term (script + observation)",
        "samples": [{"case": c, "observed": [[o["reply"], o["calls"]] for o in ob]} for c, ob in kept[:3]],
        "input_distribution": {**dist, "corpus_cases": corpus_n,
                               "sites_v1": [f"{s}#{o}" for s, o in V1_FAULT_SITES], "sites_v2": [f"{s}#{o}" for s, o in V2_FAULT_SITES]},
        "traces_validated_against_impl": len(terms),
        "oracle_violations": len(out.findings),
    })
    out.assumptions += [
        "custom actions are arbitrary (script: turn x site x occurrence -> accept/reject/raise); LLM provider failures excluded (LLMCallException is forwarded by design)",
        "rails have the self-check shape (`$allowed = execute/await ...; if not $allowed: bot refuse to respond; stop/abort`); "
        "v1: llm_flows.co pipeline with 2 input rails, a dialog flow executing a custom action, 1 retrieval rail, 2 output rails; "
        "v2: guardrails library with `input rails`/`output rails` flows awaiting the scripted actions, a retrieval and a generation action in the main flow",
        "the persistent v1 state is the event history; the model keeps the events the gates read (user utterance markers, ContextUpdates of "
        "$allowed/$skip_output_rails, hide_prev_turn) and both context views (flows: truncated history; actions: compute_context)",
        "the v2 interpreter is modelled only through $output_rails_in_progress and a `state lost` flag (after an utterance of None)",
        "everything inside library actions is out of scope",
    ]
    if tier == "thorough" and b["ok"]:
        ok, log = C.coqchk(PID, b["files"])
        out.coverage["coqchk"] = "ok" if ok else "FAILED"
        if not ok:
            out.add_broken("coqchk", log)
    return C.finish(out)
