(* C20 - executable instance of Svc/Path.v and Svc/Threads.v used by the correspondence check:
   alphabet N (Unicode code points), messages N (codes assigned by the harness), the constants
   of Gen/C20Consts.v, and concrete oracles:
     load_ok_c  - RailsConfig.from_path raises ValueError iff the path contains '!'
     llm_c      - a polynomial hash of (paths of the instance, messages); raises when the hash
                  is divisible by 13, otherwise answers with the message code 2000000 + hash
   (harness/c20.py patches the same two functions into the real server).
   Nothing here is used by the theorems, which hold for arbitrary oracles. *)
From Coq Require Import List NArith Bool Arith.
From NG Require Import Gen.C20Consts Svc.Path Svc.Threads.
Import ListNotations.
Open Scope N_scope.

Definition sepN : N := 47.
Definition dotN : N := 46.
Definition bslashN : N := 92.
Notation nstr := (list N).

Definition joinN := Path.join N N.eq_dec sepN.
Definition normpathN := Path.normpath N N.eq_dec sepN dotN.
Definition abspathN := Path.abspath N N.eq_dec sepN dotN.
Definition commonprefixN := Path.commonprefix N N.eq_dec.
Definition reject_now := Path.re_search N N.eq_dec reject_pattern.
Definition get_rails_path_now :=
  Path.get_rails_path N N.eq_dec sepN dotN reject_pattern prefix_check_present.

Fixpoint nstr_eqb (a b : nstr) : bool :=
  match a, b with
  | [], [] => true
  | x :: a', y :: b' => N.eqb x y && nstr_eqb a' b'
  | _, _ => false
  end.

Fixpoint list_eqb {X} (e : X -> X -> bool) (a b : list X) : bool :=
  match a, b with
  | [], [] => true
  | x :: a', y :: b' => e x y && list_eqb e a' b'
  | _, _ => false
  end.

Definition opt_eqb {X} (e : X -> X -> bool) (a b : option X) : bool :=
  match a, b with
  | None, None => true
  | Some x, Some y => e x y
  | _, _ => false
  end.

(* ------------------------------------------------------------------ (a) os.path functions *)

Inductive path_case :=
| CJoin (a b expected : nstr)
| CNorm (p expected : nstr)
| CAbs (cwd p expected : nstr)
| CCommon (m : list nstr) (expected : nstr)
| CSearch (s : nstr) (expected : bool).      (* re.search(<source pattern>, s) is not None *)

Definition check_path (c : path_case) : bool :=
  match c with
  | CJoin a b e => nstr_eqb (joinN a b) e
  | CNorm p e => nstr_eqb (normpathN p) e
  | CAbs cwd p e => nstr_eqb (abspathN cwd p) e
  | CCommon m e => nstr_eqb (commonprefixN m) e
  | CSearch s e => Bool.eqb (reject_now s) e
  end.

(* ------------------------------------------------------------------ oracles *)

Definition modP : N := 1000003.
Definition h_path (p : nstr) : N := fold_left (fun acc c => (acc * 31 + c) mod modP) p 7.
Definition h_inst (i : list nstr) : N := fold_left (fun acc p => (acc * 131 + h_path p) mod modP) i 1.
Definition h_msgs (i : list nstr) (ms : list N) : N :=
  fold_left (fun acc m => (acc * 17 + m + 1) mod modP) ms (h_inst i).
Definition llm_c (i : list nstr) (ms : list N) : option N :=
  let h := h_msgs i ms in if (h mod 13) =? 0 then None else Some (2000000 + h).
Definition load_ok_c (p : nstr) : bool := negb (existsb (N.eqb 33) p).

(* ------------------------------------------------------------------ (b) _get_rails *)

Definition get_rails_now (base : nstr) (single : option nstr) :=
  Threads.get_rails N N.eq_dec sepN dotN cache_key_joiner reject_pattern prefix_check_present
                    base single load_ok_c.

(* (cwd, app.rails_config_path, single-config id, config_ids,
    expected loader trace, expected instance (None = ValueError)) *)
Definition rails_case := (nstr * nstr * option nstr * list nstr * list nstr * option (list nstr))%type.

Definition check_rails (c : rails_case) : bool :=
  let '(cwd, root, single, ids, e_trace, e_inst) := c in
  let base := abspathN cwd root in
  let '(_, tr, r) := get_rails_now base single [] ids in
  list_eqb nstr_eqb tr e_trace && opt_eqb (list_eqb nstr_eqb) r e_inst.

(* ------------------------------------------------------------------ (c) request sequences *)

Definition field_max_nat : option nat :=
  match field_max_len with Some m => Some (N.to_nat m) | None => None end.

Definition chat_now (base : nstr) (single default : option nstr) :=
  Threads.chat N N.eq_dec sepN dotN cache_key_joiner N reject_pattern prefix_check_present
               thread_prefix (N.to_nat min_thread_id_len) base single default load_ok_c llm_c.

Definition http_chat_now (base : nstr) (single default : option nstr) :=
  Threads.http_chat N N.eq_dec sepN dotN cache_key_joiner N reject_pattern prefix_check_present
               thread_prefix (N.to_nat min_thread_id_len) (N.to_nat field_min_len) field_max_nat
               base single default load_ok_c llm_c.

Definition reply_eqb (a b : reply N N) : bool :=
  match a, b with
  | RNoConfig, RNoConfig => true
  | RCouldNotLoad x, RCouldNotLoad y => list_eqb nstr_eqb x y
  | RMinLen, RMinLen => true
  | RInternal, RInternal => true
  | RBot x, RBot y => N.eqb x y
  | R422, R422 => true
  | _, _ => false
  end.

(* the instance is observable on the implementation only when generate_async was called *)
Definition outcome_eqb (m e : outcome N N) : bool :=
  list_eqb nstr_eqb (o_loads N N m) (o_loads N N e)
  && opt_eqb (list_eqb N.eqb) (o_used N N m) (o_used N N e)
  && reply_eqb (o_reply N N m) (o_reply N N e)
  && match o_used N N e with
     | Some _ => opt_eqb (list_eqb nstr_eqb) (o_inst N N m) (o_inst N N e)
     | None => true
     end.

(* a step: direct call of chat_completion with an already constructed body (true) or an HTTP
   request through the RequestBody validation (false); the request; the observed outcome *)
Definition step := (bool * http_request N N * outcome N N)%type.

Definition to_request (h : http_request N N) : request N N :=
  {| r_ids := match h_config_ids N N h with Some l => l | None => [] end;
     r_thread := h_thread N N h; r_context := h_context N N h; r_messages := h_messages N N h |}.

Fixpoint run_steps (base : nstr) (single default : option nstr) (st : state N N) (steps : list step)
  : state N N * bool :=
  match steps with
  | [] => (st, true)
  | (direct, h, e) :: rest =>
      let '(st1, o) := if direct then chat_now base single default st (to_request h)
                       else http_chat_now base single default st h in
      let '(st2, ok) := run_steps base single default st1 rest in
      (st2, outcome_eqb o e && ok)
  end.

Definition store_eqb (a b : list (nstr * list N)) : bool :=
  list_eqb (fun x y => nstr_eqb (fst x) (fst y) && list_eqb N.eqb (snd x) (snd y)) a b.

(* (cwd, root, single, default, initial datastore, steps, expected final datastore) *)
Definition seq_case :=
  (nstr * nstr * option nstr * option nstr * list (nstr * list N) * list step * list (nstr * list N))%type.

Definition check_seq (c : seq_case) : bool :=
  let '(cwd, root, single, default, store0, steps, e_store) := c in
  let base := abspathN cwd root in
  let '(st, ok) := run_steps base single default {| s_cache := []; s_store := store0 |} steps in
  ok && store_eqb (s_store N N st) e_store.

(* which step disagrees (for the replay file) *)
Fixpoint run_outcomes (base : nstr) (single default : option nstr) (st : state N N) (steps : list step)
  : list (outcome N N) * state N N :=
  match steps with
  | [] => ([], st)
  | (direct, h, _) :: rest =>
      let '(st1, o) := if direct then chat_now base single default st (to_request h)
                       else http_chat_now base single default st h in
      let '(os, st2) := run_outcomes base single default st1 rest in
      (o :: os, st2)
  end.

Definition model_seq (c : seq_case) :=
  let '(cwd, root, single, default, store0, steps, _) := c in
  run_outcomes (abspathN cwd root) single default {| s_cache := []; s_store := store0 |} steps.

(* typed constructors for the case files written by the harness *)
Definition mk_req (cid : option nstr) (cids : option (list nstr)) (tid : option nstr)
           (ctx : option N) (msgs : list N) : http_request N N :=
  {| h_config_id := cid; h_config_ids := cids; h_thread := tid; h_context := ctx; h_messages := msgs |}.
Definition mk_out (loads : list nstr) (inst : option (list nstr)) (used : option (list N))
           (r : reply N N) : outcome N N :=
  {| o_loads := loads; o_inst := inst; o_used := used; o_reply := r |}.
Definition mk_step (direct : bool) (h : http_request N N) (o : outcome N N) : step := (direct, h, o).
Definition mk_seq (cwd root : nstr) (single default : option nstr) (store0 : list (nstr * list N))
           (steps : list step) (e_store : list (nstr * list N)) : seq_case :=
  (cwd, root, single, default, store0, steps, e_store).
Definition mk_rails (cwd root : nstr) (single : option nstr) (ids : list nstr)
           (e_trace : list nstr) (e_inst : option (list nstr)) : rails_case :=
  (cwd, root, single, ids, e_trace, e_inst).
Definition kv (k : nstr) (v : list N) : nstr * list N := (k, v).
Definition r_noconfig : reply N N := RNoConfig.
Definition r_cnl (ids : list nstr) : reply N N := RCouldNotLoad ids.
Definition r_minlen : reply N N := RMinLen.
Definition r_internal : reply N N := RInternal.
Definition r_bot (m : N) : reply N N := RBot m.
Definition r_422 : reply N N := R422.

(* sanity *)
Example normpath_ex :
  normpathN [47; 47; 97; 47; 47; 98; 47; 46; 46; 47; 99; 47; 46] = [47; 47; 97; 47; 99].
Proof. reflexivity. Qed.

Example sibling_passes_prefix_check :
  (* base "/r/c", full "/r/c-evil": the commonprefix test alone accepts the sibling *)
  commonprefixN [[47; 114; 47; 99; 45; 101; 118; 105; 108]; [47; 114; 47; 99]] = [47; 114; 47; 99].
Proof. reflexivity. Qed.
