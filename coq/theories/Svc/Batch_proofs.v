(* C19 - safety of the batching transition system (Svc/Batch.v): an inductive invariant of
   `step`, for every schedule, every max_batch_size >= 1, every cache mode, every key generator
   injective on the texts in play and every (consistent) initial store. *)
From Coq Require Import List Bool Arith Lia.
From NG Require Import Svc.EmbCache Svc.EmbCache_proofs Svc.Batch.
Import ListNotations.

(* ---- lists and dicts ------------------------------------------------------------------ *)
Lemma length_upd : forall A (l : list A) i x, length (upd l i x) = length l.
Proof. induction l as [|a l IH]; intros [|i] x; simpl; auto. Qed.

Lemma nth_error_upd : forall A (l : list A) i x j,
  nth_error (upd l i x) j =
  if j =? i then match nth_error l j with Some _ => Some x | None => None end else nth_error l j.
Proof.
  induction l as [|a l IH]; intros i x j.
  - destruct i; destruct j; simpl; try reflexivity; destruct (_ =? _); reflexivity.
  - destruct i; destruct j; simpl; try reflexivity. apply IH.
Qed.

Lemma nth_error_upd_same : forall A (l : list A) i x y,
  nth_error l i = Some y -> nth_error (upd l i x) i = Some x.
Proof. intros. rewrite nth_error_upd, Nat.eqb_refl, H. reflexivity. Qed.

Lemma nth_error_upd_other : forall A (l : list A) i x j,
  j <> i -> nth_error (upd l i x) j = nth_error l j.
Proof. intros. rewrite nth_error_upd. destruct (j =? i) eqn:E; [apply Nat.eqb_eq in E; contradiction|reflexivity]. Qed.

Lemma nth_error_upd_inv : forall A (l : list A) i x j y,
  nth_error (upd l i x) j = Some y -> (j = i /\ y = x) \/ (j <> i /\ nth_error l j = Some y).
Proof.
  intros A l i x j y H. rewrite nth_error_upd in H. destruct (j =? i) eqn:E.
  - apply Nat.eqb_eq in E. left. destruct (nth_error l j); inversion H; auto.
  - apply Nat.eqb_neq in E. right. auto.
Qed.

Lemma nth_error_app_inv : forall A (l : list A) x j y,
  nth_error (l ++ [x]) j = Some y -> nth_error l j = Some y \/ (j = length l /\ y = x).
Proof.
  intros A l x j y H. destruct (Nat.lt_ge_cases j (length l)) as [Hl|Hl].
  - rewrite nth_error_app1 in H by assumption. auto.
  - rewrite nth_error_app2 in H by assumption.
    destruct (j - length l) as [|d] eqn:E; simpl in H.
    + inversion H. right. split; [lia|reflexivity].
    + destruct d; discriminate H.
Qed.

Lemma nth_error_app_keep : forall A (l : list A) x j y,
  nth_error l j = Some y -> nth_error (l ++ [x]) j = Some y.
Proof.
  intros. rewrite nth_error_app1; [assumption|]. apply nth_error_Some. congruence.
Qed.

Lemma memb_In : forall k l, memb k l = true <-> In k l.
Proof.
  intros k l. unfold memb. rewrite existsb_exists. split.
  - intros [x [Hin E]]. apply Nat.eqb_eq in E. subst. assumption.
  - intros H. exists k. split; [assumption|apply Nat.eqb_refl].
Qed.

Lemma dict_get_In : forall V (d : dict V) k v, dict_get d k = Some v -> In (k, v) d.
Proof.
  induction d as [|[k' v'] d IH]; intros k v H; simpl in *; [discriminate|].
  destruct (k =? k') eqn:E.
  - apply Nat.eqb_eq in E. inversion H. subst. left. reflexivity.
  - right. apply IH. assumption.
Qed.

Lemma dict_get_notin : forall V (d : dict V) k, ~ In k (map fst d) -> dict_get d k = None.
Proof.
  induction d as [|[k' v'] d IH]; intros k H; simpl in *; [reflexivity|].
  destruct (k =? k') eqn:E.
  - apply Nat.eqb_eq in E. exfalso. apply H. left. auto.
  - apply IH. intro. apply H. right. assumption.
Qed.

Lemma dict_get_set : forall V (d : dict V) k v k',
  dict_get (dict_set d k v) k' = if k' =? k then Some v else dict_get d k'.
Proof.
  induction d as [|[k0 v0] d IH]; intros k v k'; simpl.
  - destruct (k' =? k); reflexivity.
  - destruct (k =? k0) eqn:E; simpl.
    + apply Nat.eqb_eq in E. subst k0. destruct (k' =? k); reflexivity.
    + rewrite IH. destruct (k' =? k0) eqn:E0; [|reflexivity].
      apply Nat.eqb_eq in E0. subst k0. destruct (k' =? k) eqn:E1; [|reflexivity].
      apply Nat.eqb_eq in E1. subst k. rewrite Nat.eqb_refl in E. discriminate E.
Qed.

Lemma dict_get_del_other : forall V (d : dict V) k k', k' <> k ->
  dict_get (dict_del d k) k' = dict_get d k'.
Proof.
  induction d as [|[k0 v0] d IH]; intros k k' Hne; simpl; [reflexivity|].
  destruct (k =? k0) eqn:E; simpl.
  - apply Nat.eqb_eq in E. subst k0.
    destruct (k' =? k) eqn:E1; [apply Nat.eqb_eq in E1; contradiction|reflexivity].
  - destruct (k' =? k0); [reflexivity|apply IH; assumption].
Qed.

Lemma dict_set_fresh : forall V (d : dict V) k v, ~ In k (map fst d) -> dict_set d k v = d ++ [(k, v)].
Proof.
  induction d as [|[k0 v0] d IH]; intros k v H; simpl in *; [reflexivity|].
  destruct (k =? k0) eqn:E.
  - apply Nat.eqb_eq in E. exfalso. apply H. left. auto.
  - f_equal. apply IH. intro. apply H. right. assumption.
Qed.

Section Safety.
  Variables text key vec : Type.
  Variable text_eq_dec : forall a b : text, {a = b} + {a <> b}.
  Variable key_eq_dec : forall a b : key, {a = b} + {a <> b}.
  Variable kg : text -> key.
  Variable emb : text -> vec.
  Variable max_batch_size : nat.
  Variable cmode : cache_mode.
  Variable P : text -> Prop.                     (* the texts in play *)
  Hypothesis Hmax : 1 <= max_batch_size.
  Hypothesis Hinj : inj_on kg P.

  Notation state := (state text key vec).
  Notation rpc := (rpc vec).
  Notation bpc := (bpc text vec).
  Notation step := (step text_eq_dec key_eq_dec kg emb max_batch_size cmode).
  Notation consistent := (consistent key_eq_dec kg emb P).
  Notation begin_ok := (begin_ok text_eq_dec emb P).

  Definition presubmit (b : bpc) : Prop :=
    match b with BInit | BHold _ _ => True | _ => False end.

  Definition locals_ok (batch : list text) (c : tdict text vec) (u : list text) : Prop :=
    match cmode with
    | CacheOff => u = batch
    | _ => begin_ok batch c u
    end.

  Definition pc_ok (t : text) (p : rpc) : Prop :=
    match p with
    | RDone r => r = Some (emb t)
    | RError | RSpin => False
    | _ => True
    end.

  Record Inv (s : state) : Prop := mkInv {
    iv_qlt : forall id t, In (id, t) (req_queue s) -> id < req_idx s;
    iv_qnd : NoDup (map fst (req_queue s));
    iv_fin_q : cur_finished s = None -> req_queue s = [];
    iv_sub : cur_finished s <> None -> submitted s = false;
    iv_full : forall k, cur_finished s = Some k -> cur_full s = Some k;
    iv_pre : forall k b, nth_error (batches s) k = Some b -> presubmit b -> cur_finished s = Some k;
    iv_cur : forall k, cur_finished s = Some k -> exists b, nth_error (batches s) k = Some b /\ presubmit b;
    iv_done : forall e, In e (finished_set s) -> nth_error (batches s) e = Some BDone;
    iv_model : forall k ev items c u, nth_error (batches s) k = Some (BModel ev items c u) ->
               ev = Some k /\ NoDup (map fst items) /\ locals_ok (map snd items) c u /\
               forall id t, In (id, t) items ->
                 id < req_idx s /\ exists i, nth_error (reqs s) i = Some (t, RWaitFin id k);
    iv_qown : forall id t, In (id, t) (req_queue s) ->
              exists i k, cur_finished s = Some k /\ nth_error (reqs s) i = Some (t, RWaitFin id k);
    iv_wait : forall i t rid k, nth_error (reqs s) i = Some (t, RWaitFin rid k) ->
              rid < req_idx s /\
              ((In (rid, t) (req_queue s) /\ cur_finished s = Some k) \/
               (exists ev items c u, nth_error (batches s) k = Some (BModel ev items c u) /\ In (rid, t) items) \/
               (In k (finished_set s) /\ dict_get (req_results s) rid = Some (Some (emb t))));
    iv_uniq : forall i j t t' rid k k', nth_error (reqs s) i = Some (t, RWaitFin rid k) ->
              nth_error (reqs s) j = Some (t', RWaitFin rid k') -> i = j;
    iv_ok : forall i t p, nth_error (reqs s) i = Some (t, p) -> pc_ok t p /\ P t;
    iv_bok : forall k, nth_error (batches s) k <> Some BError;
    iv_store : consistent (cstore s);
    iv_blocked : forall i t, nth_error (reqs s) i = Some (t, RWaitSub false) -> cur_finished s <> None
  }.

  (* ---- the initial state --------------------------------------------------------------- *)
  Lemma nth_error_init : forall (texts : list text) i t (p : rpc),
    nth_error (map (fun t => (t, RInit)) texts) i = Some (t, p) -> p = RInit /\ nth_error texts i = Some t.
  Proof.
    intros texts i t p H. rewrite nth_error_map in H. destruct (nth_error texts i); inversion H; auto.
  Qed.

  Lemma Inv_init : forall texts st, Forall P texts -> consistent st -> Inv (init texts st).
  Proof.
    intros texts st HP Hc. constructor; simpl; try (intros; contradiction); try (intros; discriminate);
      try (intros; congruence).
    - constructor.
    - intros k b H. destruct k; discriminate H.
    - intros k ev items c u H. destruct k; discriminate H.
    - intros i t rid k H. apply nth_error_init in H. destruct H. discriminate.
    - intros i j t t' rid k k' H. apply nth_error_init in H. destruct H. discriminate.
    - intros i t p H. apply nth_error_init in H. destruct H as [-> H]. split; [exact I|].
      rewrite Forall_forall in HP. apply HP. eapply nth_error_In. eassumption.
    - intros k H. destruct k; discriminate H.
    - assumption.
    - intros i t H. apply nth_error_init in H. destruct H. discriminate.
  Qed.

  (* ---- replacing a request's pc by one that is not a wait-for-finished ------------------ *)
  Definition not_waitfin (p : rpc) : Prop := match p with RWaitFin _ _ => False | _ => True end.

  Lemma Inv_set_req : forall s i t p p',
    Inv s -> nth_error (reqs s) i = Some (t, p) -> not_waitfin p -> not_waitfin p' ->
    pc_ok t p' -> (p' = RWaitSub false -> cur_finished s <> None) ->
    Inv (set_req s i (t, p')).
  Proof.
    intros s i t p p' HI Hi Hp Hp' Hok Hbl. destruct HI. unfold set_req.
    assert (Hkeep : forall j t0 rid k, nth_error (reqs s) j = Some (t0, RWaitFin rid k) ->
                    nth_error (upd (reqs s) i (t, p')) j = Some (t0, RWaitFin rid k)).
    { intros j t0 rid k Hj. rewrite nth_error_upd_other; [assumption|].
      intro. subst j. rewrite Hi in Hj. inversion Hj. subst. exact Hp. }
    assert (Hback : forall j t0 rid k, nth_error (upd (reqs s) i (t, p')) j = Some (t0, RWaitFin rid k) ->
                    nth_error (reqs s) j = Some (t0, RWaitFin rid k)).
    { intros j t0 rid k Hj. apply nth_error_upd_inv in Hj. destruct Hj as [[_ E]|[_ Hj]]; [|assumption].
      inversion E. subst. destruct Hp'. }
    constructor; simpl; auto.
    - intros k ev items c u Hk. destruct (iv_model0 k ev items c u Hk) as [A [B [Cc D]]].
      split; [exact A|]. split; [exact B|]. split; [exact Cc|].
      intros id t0 Hin. destruct (D id t0 Hin) as [Hlt [i0 Hi0]]. split; [exact Hlt|].
      exists i0. apply Hkeep. exact Hi0.
    - intros id t0 Hin. destruct (iv_qown0 id t0 Hin) as [i0 [k [Hc Hi0]]]. exists i0, k. split; auto.
    - intros j t0 rid k Hj. apply iv_wait0 with (i := j). apply Hback. assumption.
    - intros j j' t0 t' rid k k' Hj Hj'. eapply iv_uniq0; apply Hback; eassumption.
    - intros j t0 p0 Hj. apply nth_error_upd_inv in Hj. destruct Hj as [[_ E]|[_ Hj]].
      + inversion E. subst. split; [assumption|]. eapply iv_ok0. eassumption.
      + eapply iv_ok0. eassumption.
    - intros j t0 Hj. apply nth_error_upd_inv in Hj. destruct Hj as [[_ E]|[_ Hj]].
      + inversion E. subst. apply Hbl. reflexivity.
      + eapply iv_blocked0. eassumption.
  Qed.

  Lemma NoDup_snoc : forall (l : list nat) x, NoDup l -> ~ In x l -> NoDup (l ++ [x]).
  Proof.
    induction l as [|a l IH]; intros x Hnd Hn; simpl.
    - constructor; [intros []|constructor].
    - inversion Hnd; subst. constructor.
      + intro Hin. apply in_app_or in Hin. destruct Hin as [Hin|[E|[]]]; [contradiction|].
        subst. apply Hn. left. reflexivity.
      + apply IH; [assumption|]. intro. apply Hn. right. assumption.
  Qed.

  (* ---- a request is put on the queue --------------------------------------------------- *)
  Lemma Inv_enq_state : forall s i t p fs bs' fin,
    Inv s -> nth_error (reqs s) i = Some (t, p) -> not_waitfin p ->
    ((cur_finished s = Some fin /\ bs' = batches s) \/
     (cur_finished s = None /\ fin = length (batches s) /\ bs' = batches s ++ [BInit])) ->
    Inv (mkState (req_queue s ++ [(req_idx s, t)]) (req_results s) (S (req_idx s)) (Some fin) (Some fin)
                 false (finished_set s) fs (upd (reqs s) i (t, RWaitFin (req_idx s) fin)) bs' (cstore s)).
  Proof.
    intros s i t p fs bs' fin HI Hi Hp Hbs. pose proof HI as HI'. destruct HI.
    assert (B1 : forall k b, nth_error bs' k = Some b ->
                 nth_error (batches s) k = Some b \/ (cur_finished s = None /\ k = fin /\ b = BInit)).
    { intros k b Hk. destruct Hbs as [[_ ->]|[Hc [-> ->]]]; [auto|].
      apply nth_error_app_inv in Hk. destruct Hk as [Hk|[-> ->]]; auto. }
    assert (B2 : forall k b, nth_error (batches s) k = Some b -> nth_error bs' k = Some b).
    { intros k b Hk. destruct Hbs as [[_ ->]|[Hc [-> ->]]]; [auto|]. apply nth_error_app_keep. assumption. }
    assert (B3 : exists b, nth_error bs' fin = Some b /\ presubmit b).
    { destruct Hbs as [[Hc ->]|[Hc [-> ->]]]; [apply iv_cur0; assumption|].
      exists BInit. split; [|exact I]. rewrite nth_error_app2 by lia. rewrite Nat.sub_diag. reflexivity. }
    assert (B4 : forall k, cur_finished s = Some k -> k = fin).
    { intros k Hk. destruct Hbs as [[Hc _]|[Hc _]]; congruence. }
    assert (Hkeep : forall j t0 rid k, nth_error (reqs s) j = Some (t0, RWaitFin rid k) ->
                    nth_error (upd (reqs s) i (t, RWaitFin (req_idx s) fin)) j = Some (t0, RWaitFin rid k)).
    { intros j t0 rid k Hj. rewrite nth_error_upd_other; [assumption|].
      intro. subst j. rewrite Hi in Hj. inversion Hj. subst. exact Hp. }
    constructor; simpl.
    - intros id t0 Hin. apply in_app_or in Hin. destruct Hin as [Hin|[E|[]]].
      + apply iv_qlt0 in Hin. lia.
      + inversion E. lia.
    - rewrite map_app. simpl. apply NoDup_snoc; [assumption|].
      intro Hin. apply in_map_iff in Hin. destruct Hin as [[id t0] [E Hin]]. simpl in E. subst id.
      apply iv_qlt0 in Hin. lia.
    - discriminate.
    - reflexivity.
    - intros k E. exact E.
    - intros k b Hk Hb. apply B1 in Hk. destruct Hk as [Hk|[_ [-> _]]]; [|reflexivity].
      f_equal. symmetry. apply B4. eapply iv_pre0; eassumption.
    - intros k E. inversion E. subst k. exact B3.
    - intros e He. apply B2. apply iv_done0. assumption.
    - intros k ev items c u Hk. apply B1 in Hk. destruct Hk as [Hk|[_ [_ E]]]; [|discriminate E].
      destruct (iv_model0 k ev items c u Hk) as [A [B [Cc D]]].
      split; [exact A|]. split; [exact B|]. split; [exact Cc|].
      intros id t0 Hin. destruct (D id t0 Hin) as [Hlt [i0 Hi0]]. split; [lia|].
      exists i0. apply Hkeep. exact Hi0.
    - intros id t0 Hin. apply in_app_or in Hin. destruct Hin as [Hin|[E|[]]].
      + destruct (iv_qown0 id t0 Hin) as [i0 [k [Hc Hi0]]]. exists i0, fin. split; [reflexivity|].
        apply Hkeep. rewrite <- (B4 k Hc). exact Hi0.
      + inversion E. subst. exists i, fin. split; [reflexivity|]. eapply nth_error_upd_same. eassumption.
    - intros j t0 rid k Hj. apply nth_error_upd_inv in Hj. destruct Hj as [[_ E]|[_ Hj]].
      + inversion E. subst. split; [lia|]. left. split; [|reflexivity]. apply in_or_app. right. left. reflexivity.
      + destruct (iv_wait0 j t0 rid k Hj) as [Hlt [[Hin Hc]|[[ev [items [c [u [Hb Hin]]]]]|[Hf Hr]]]].
        * split; [lia|]. left. split; [apply in_or_app; left; assumption|]. f_equal. symmetry. apply B4. assumption.
        * split; [lia|]. right. left. exists ev, items, c, u. split; [apply B2; assumption|assumption].
        * split; [lia|]. right. right. split; assumption.
    - intros j j' t0 t' rid k k' Hj Hj'.
      apply nth_error_upd_inv in Hj. apply nth_error_upd_inv in Hj'.
      destruct Hj as [[-> E]|[Hn Hj]]; destruct Hj' as [[-> E']|[Hn' Hj']]; try reflexivity.
      + inversion E. subst. apply iv_wait0 in Hj'. lia.
      + inversion E'. subst. apply iv_wait0 in Hj. lia.
      + eapply iv_uniq0; eassumption.
    - intros j t0 p0 Hj. apply nth_error_upd_inv in Hj. destruct Hj as [[_ E]|[_ Hj]].
      + inversion E. subst. split; [exact I|]. eapply iv_ok0. eassumption.
      + eapply iv_ok0. eassumption.
    - intros k Hk. apply B1 in Hk. destruct Hk as [Hk|[_ [_ E]]]; [|discriminate E].
      eapply iv_bok0. eassumption.
    - assumption.
    - intros j t0 Hj. discriminate.
  Qed.

  Lemma cur_not_finished : forall s k, Inv s -> cur_finished s = Some k -> memb k (finished_set s) = false.
  Proof.
    intros s k HI Hc. destruct (memb k (finished_set s)) eqn:E; [|reflexivity].
    apply memb_In in E. apply (iv_done _ HI) in E.
    destruct (iv_cur _ HI k Hc) as [b [Hb Hp]]. rewrite E in Hb. inversion Hb. subst b. destruct Hp.
  Qed.

  Lemma fresh_not_finished : forall s, Inv s -> memb (length (batches s)) (finished_set s) = false.
  Proof.
    intros s HI. destruct (memb (length (batches s)) (finished_set s)) eqn:E; [|reflexivity].
    apply memb_In in E. apply (iv_done _ HI) in E.
    assert (length (batches s) < length (batches s)); [|lia]. apply nth_error_Some. congruence.
  Qed.

  Lemma Inv_req_enter : forall s i t p,
    Inv s -> nth_error (reqs s) i = Some (t, p) -> not_waitfin p ->
    Inv (req_enter max_batch_size s i t).
  Proof.
    intros s i t p HI Hi Hp. unfold req_enter.
    destruct (max_batch_size <=? length (req_queue s)) eqn:Efull.
    - apply Nat.leb_le in Efull.
      assert (Hne : cur_finished s <> None).
      { intro Hc. apply (iv_fin_q _ HI) in Hc. rewrite Hc in Efull. simpl in Efull. lia. }
      rewrite (iv_sub _ HI Hne).
      apply Inv_set_req with (p := p); try assumption; try exact I. intros _. exact Hne.
    - assert (Hfresh : ~ In (req_idx s) (map fst (req_queue s))).
      { intro Hin. apply in_map_iff in Hin. destruct Hin as [[id t0] [E Hin]]. simpl in E. subst id.
        apply (iv_qlt _ HI) in Hin. lia. }
      rewrite (dict_set_fresh _ _ _ _ Hfresh).
      destruct (cur_finished s) as [k|] eqn:Ecf.
      + rewrite (iv_full _ HI k Ecf).
        assert (Hs : submitted s = false) by (apply (iv_sub _ HI); congruence).
        rewrite (cur_not_finished s k HI Ecf).
        destruct (max_batch_size <=? length (req_queue s ++ [(req_idx s, t)]));
          unfold set_req; simpl; rewrite Hs;
          apply Inv_enq_state with (p := p); auto.
      + rewrite (fresh_not_finished s HI).
        destruct (max_batch_size <=? length (req_queue s ++ [(req_idx s, t)]));
          unfold set_req; simpl;
          apply Inv_enq_state with (p := p); auto.
  Qed.

  (* ---- a request takes its result ------------------------------------------------------ *)
  Lemma Inv_fetch : forall s i t rid k,
    Inv s -> nth_error (reqs s) i = Some (t, RWaitFin rid k) -> In k (finished_set s) ->
    Inv (fetch s i t rid).
  Proof.
    intros s i t rid k HI Hi Hk. pose proof HI as HI'. destruct HI.
    pose proof (iv_done0 k Hk) as Hdone.
    assert (Hres : dict_get (req_results s) rid = Some (Some (emb t))).
    { destruct (iv_wait0 i t rid k Hi) as [_ [[_ Hc]|[[ev [items [c [u [Hb _]]]]]|[_ Hr]]]].
      - apply (cur_not_finished s k HI') in Hc. apply memb_In in Hk. congruence.
      - congruence.
      - exact Hr. }
    unfold fetch. rewrite Hres.
    assert (Hback : forall j t0 rid0 k0, nth_error (upd (reqs s) i (t, RDone (Some (emb t)))) j = Some (t0, RWaitFin rid0 k0) ->
                    j <> i /\ nth_error (reqs s) j = Some (t0, RWaitFin rid0 k0)).
    { intros j t0 rid0 k0 Hj. apply nth_error_upd_inv in Hj. destruct Hj as [[_ E]|Hj]; [discriminate E|exact Hj]. }
    constructor; simpl; auto.
    - intros k0 ev items c u Hk0. destruct (iv_model0 k0 ev items c u Hk0) as [A [B [Cc D]]].
      split; [exact A|]. split; [exact B|]. split; [exact Cc|].
      intros id t0 Hin. destruct (D id t0 Hin) as [Hlt [i0 Hi0]]. split; [exact Hlt|].
      exists i0. rewrite nth_error_upd_other; [exact Hi0|].
      intro. subst i0. rewrite Hi in Hi0. inversion Hi0. subst. congruence.
    - intros id t0 Hin. destruct (iv_qown0 id t0 Hin) as [i0 [k0 [Hc Hi0]]]. exists i0, k0. split; [exact Hc|].
      rewrite nth_error_upd_other; [exact Hi0|].
      intro. subst i0. rewrite Hi in Hi0. inversion Hi0. subst.
      apply (cur_not_finished s k0 HI') in Hc. apply memb_In in Hk. congruence.
    - intros j t0 rid0 k0 Hj. apply Hback in Hj. destruct Hj as [Hne Hj].
      destruct (iv_wait0 j t0 rid0 k0 Hj) as [Hlt [Ha|[Hb|[Hf Hr]]]]; split; auto.
      right. right. split; [exact Hf|]. rewrite dict_get_del_other; [exact Hr|].
      intro. subst rid0. apply Hne. eapply iv_uniq0; eassumption.
    - intros j j' t0 t' rid0 k0 k' Hj Hj'. apply Hback in Hj. apply Hback in Hj'.
      destruct Hj, Hj'. eapply iv_uniq0; eassumption.
    - intros j t0 p0 Hj. apply nth_error_upd_inv in Hj. destruct Hj as [[_ E]|[_ Hj]].
      + inversion E. subst. split; [reflexivity|]. eapply iv_ok0. eassumption.
      + eapply iv_ok0. eassumption.
    - intros j t0 Hj. apply nth_error_upd_inv in Hj. destruct Hj as [[_ E]|[_ Hj]]; [discriminate E|].
      eapply iv_blocked0. eassumption.
  Qed.

  (* ---- a batch task that has not submitted yet moves on (first step, timer) -------------- *)
  Lemma Inv_set_batch_pre : forall s k b b',
    Inv s -> nth_error (batches s) k = Some b -> presubmit b -> presubmit b' ->
    Inv (set_batch s k b').
  Proof.
    intros s k b b' HI Hk Hb Hb'. destruct HI. unfold set_batch.
    assert (Hother : forall k0 b0, nth_error (batches s) k0 = Some b0 -> ~ presubmit b0 ->
                     nth_error (upd (batches s) k b') k0 = Some b0).
    { intros k0 b0 Hk0 Hn. rewrite nth_error_upd_other; [exact Hk0|]. intro. subst k0.
      rewrite Hk in Hk0. inversion Hk0. subst. contradiction. }
    constructor; simpl; try assumption.
    - intros k0 b0 Hk0 Hp. apply nth_error_upd_inv in Hk0. destruct Hk0 as [[-> _]|[_ Hk0]].
      + eapply iv_pre0; eassumption.
      + eapply iv_pre0; eassumption.
    - intros k0 Hc. destruct (iv_cur0 k0 Hc) as [b0 [Hb0 Hp0]].
      destruct (Nat.eq_dec k0 k) as [->|Hne].
      + exists b'. split; [|exact Hb']. eapply nth_error_upd_same. eassumption.
      + exists b0. split; [|exact Hp0]. rewrite nth_error_upd_other; assumption.
    - intros e He. apply Hother; [apply iv_done0; assumption|]. intros [].
    - intros k0 ev items c u Hk0. apply nth_error_upd_inv in Hk0. destruct Hk0 as [[_ E]|[_ Hk0]].
      + subst b'. destruct Hb'.
      + eapply iv_model0. eassumption.
    - intros j t0 rid k0 Hj.
      destruct (iv_wait0 j t0 rid k0 Hj) as [Hlt [Ha|[[ev [items [c [u [Hbm Hin]]]]]|Hc]]]; split; auto.
      right. left. exists ev, items, c, u. split; [|exact Hin]. apply Hother; [exact Hbm|]. intros [].
    - intros k0 Hk0. apply nth_error_upd_inv in Hk0. destruct Hk0 as [[_ E]|[_ Hk0]].
      + subst b'. destruct Hb'.
      + eapply iv_bok0. eassumption.
  Qed.

  (* ---- _current_batch_submitted.set() ---------------------------------------------------- *)
  Lemma nth_error_wake_fin : forall (rs : list (text * rpc)) j t rid k,
    nth_error (map wake rs) j = Some (t, RWaitFin rid k) <-> nth_error rs j = Some (t, RWaitFin rid k).
  Proof.
    intros rs j t rid k. rewrite nth_error_map. destruct (nth_error rs j) as [[t0 p0]|]; simpl; [|tauto].
    destruct p0; simpl; split; intro H; inversion H; reflexivity.
  Qed.

  Lemma nth_error_wake_inv : forall (rs : list (text * rpc)) j t p,
    nth_error (map wake rs) j = Some (t, p) ->
    exists p0, nth_error rs j = Some (t, p0) /\ (p = p0 \/ (exists b, p0 = RWaitSub b) /\ p = RWaitSub true).
  Proof.
    intros rs j t p H. rewrite nth_error_map in H. destruct (nth_error rs j) as [[t0 p0]|]; simpl in H; [|discriminate].
    destruct p0; simpl in H; inversion H; subst; eexists; split; try reflexivity; auto.
    right. split; [eexists; reflexivity|reflexivity].
  Qed.

  (* ---- the cache wrapper around the model call ------------------------------------------- *)
  Lemma begin_call_ok : forall s batch, consistent (cstore s) ->
    locals_ok batch (fst (begin_call text_eq_dec key_eq_dec kg cmode s batch))
                    (snd (begin_call text_eq_dec key_eq_dec kg cmode s batch)).
  Proof.
    intros s batch Hc. unfold locals_ok, begin_call, call_store. destruct cmode; simpl.
    - reflexivity.
    - apply wrap_begin_ok. apply consistent_nil.
    - apply wrap_begin_ok. exact Hc.
  Qed.

  Lemma end_call_ok : forall s batch c u, consistent (cstore s) -> Forall P batch -> locals_ok batch c u ->
    fst (end_call text_eq_dec key_eq_dec kg cmode s batch c u (map emb u)) = map (fun t => Some (emb t)) batch /\
    consistent (snd (end_call text_eq_dec key_eq_dec kg cmode s batch c u (map emb u))).
  Proof.
    intros s batch c u Hc HP Hl. unfold locals_ok in Hl. unfold end_call. destruct cmode; simpl.
    - subst u. split; [apply map_map|exact Hc].
    - split; [|exact Hc].
      apply (wrap_end_ok text key vec text_eq_dec key_eq_dec kg emb P Hinj [] batch c u HP Hl). apply consistent_nil.
    - apply (wrap_end_ok text key vec text_eq_dec key_eq_dec kg emb P Hinj (cstore s) batch c u HP Hl Hc).
  Qed.

  (* ---- _run_batch takes the queue (state just before the model is awaited) --------------- *)
  Lemma Inv_collect_model : forall s k f fired c u,
    Inv s -> nth_error (batches s) k = Some (BHold f fired) ->
    begin_call text_eq_dec key_eq_dec kg cmode s (map snd (req_queue s)) = (c, u) ->
    Inv (set_batch (mkState [] (req_results s) (req_idx s) None (cur_full s) true (finished_set s)
                            (full_set s) (map wake (reqs s)) (batches s) (cstore s))
                   k (BModel (cur_finished s) (req_queue s) c u)).
  Proof.
    intros s k f fired c u HI Hk Hbc. pose proof HI as HI'. destruct HI.
    assert (Hc : cur_finished s = Some k) by (eapply iv_pre0; [eassumption|exact I]).
    assert (Hother : forall k0 b0, nth_error (batches s) k0 = Some b0 -> ~ presubmit b0 ->
                     nth_error (upd (batches s) k (BModel (cur_finished s) (req_queue s) c u)) k0 = Some b0).
    { intros k0 b0 Hk0 Hn. rewrite nth_error_upd_other; [exact Hk0|]. intro. subst k0.
      rewrite Hk in Hk0. inversion Hk0. subst. apply Hn. exact I. }
    unfold set_batch. constructor; simpl; try (intros; contradiction); try (intros; congruence).
    - constructor.
    - intros k0 b0 Hk0 Hp. apply nth_error_upd_inv in Hk0. destruct Hk0 as [[_ E]|[Hne Hk0]].
      + subst b0. destruct Hp.
      + exfalso. apply Hne. pose proof (iv_pre0 k0 b0 Hk0 Hp). congruence.
    - intros e He. apply Hother; [apply iv_done0; assumption|]. intros [].
    - intros k0 ev items c0 u0 Hk0. apply nth_error_upd_inv in Hk0. destruct Hk0 as [[-> E]|[Hne Hk0]].
      + inversion E. subst. split; [exact Hc|]. split; [exact iv_qnd0|]. split.
        * pose proof (begin_call_ok s (map snd (req_queue s)) iv_store0) as Hb. rewrite Hbc in Hb. exact Hb.
        * intros id t0 Hin. split; [eapply iv_qlt0; eassumption|].
          destruct (iv_qown0 id t0 Hin) as [i0 [k0 [Hc0 Hi0]]]. exists i0. apply (proj2 (nth_error_wake_fin _ _ _ _ _)).
          replace k with k0 by congruence. exact Hi0.
      + destruct (iv_model0 k0 ev items c0 u0 Hk0) as [A [B [Cc D]]].
        split; [exact A|]. split; [exact B|]. split; [exact Cc|].
        intros id t0 Hin. destruct (D id t0 Hin) as [Hlt [i0 Hi0]]. split; [exact Hlt|].
        exists i0. apply (proj2 (nth_error_wake_fin _ _ _ _ _)). exact Hi0.
    - intros j t0 rid k0 Hj. apply (proj1 (nth_error_wake_fin _ _ _ _ _)) in Hj.
      destruct (iv_wait0 j t0 rid k0 Hj) as [Hlt [[Hin Hc0]|[[ev [items [c0 [u0 [Hbm Hin]]]]]|Hcc]]]; split; auto.
      + right. left. exists (cur_finished s), (req_queue s), c, u. split; [|exact Hin].
        replace k0 with k by congruence. eapply nth_error_upd_same. eassumption.
      + right. left. exists ev, items, c0, u0. split; [|exact Hin]. apply Hother; [exact Hbm|]. intros [].
    - intros j j' t0 t' rid k0 k' Hj Hj'. apply (proj1 (nth_error_wake_fin _ _ _ _ _)) in Hj. apply (proj1 (nth_error_wake_fin _ _ _ _ _)) in Hj'.
      eapply iv_uniq0; eassumption.
    - intros j t0 p0 Hj. apply nth_error_wake_inv in Hj. destruct Hj as [p1 [Hj [->|[[b ->] ->]]]].
      + eapply iv_ok0. eassumption.
      + split; [exact I|]. eapply iv_ok0. eassumption.
    - intros k0 Hk0. apply nth_error_upd_inv in Hk0. destruct Hk0 as [[_ E]|[_ Hk0]]; [discriminate E|].
      eapply iv_bok0. eassumption.
    - assumption.
    - intros j t0 Hj. exfalso. rewrite nth_error_map in Hj.
      destruct (nth_error (reqs s) j) as [[t1 p1]|]; simpl in Hj; [|discriminate].
      destruct p1; simpl in Hj; inversion Hj.
  Qed.

  (* ---- the results of a batch are stored and its finished event is set ------------------- *)
  Lemma assign_items : forall (items : list (nat * text)) res, NoDup (map fst items) ->
    exists res', assign (map fst items) (map (fun it => Some (emb (snd it))) items) res = Some res' /\
      (forall id t, In (id, t) items -> dict_get res' id = Some (Some (emb t))) /\
      (forall id, ~ In id (map fst items) -> dict_get res' id = dict_get res id).
  Proof.
    induction items as [|[id0 t0] items IH]; intros res Hnd; simpl.
    - exists res. split; [reflexivity|]. split; [intros ? ? []|reflexivity].
    - inversion Hnd as [|x l Hn Hnd']; subst.
      destruct (IH (dict_set res id0 (Some (emb t0))) Hnd') as [res' [Ha [Hb Hc]]].
      exists res'. split; [exact Ha|]. split.
      + intros id t [E|Hin].
        * inversion E; subst. rewrite Hc by assumption. rewrite dict_get_set, Nat.eqb_refl. reflexivity.
        * apply Hb. assumption.
      + intros id Hni. rewrite Hc by (intro; apply Hni; right; assumption). rewrite dict_get_set.
        destruct (id =? id0) eqn:E; [|reflexivity].
        apply Nat.eqb_eq in E. subst. exfalso. apply Hni. left. reflexivity.
  Qed.

  Lemma Inv_finish : forall s k ev items c u,
    Inv s -> nth_error (batches s) k = Some (BModel ev items c u) ->
    Inv (finish (with_store s (snd (end_call text_eq_dec key_eq_dec kg cmode s (map snd items) c u (map emb u))))
                k ev (map fst items)
                (fst (end_call text_eq_dec key_eq_dec kg cmode s (map snd items) c u (map emb u)))).
  Proof.
    intros s k ev items c u HI Hk. pose proof HI as HI'. destruct HI.
    destruct (iv_model0 k ev items c u Hk) as [Hev [Hnd [Hloc D]]].
    assert (HP : Forall P (map snd items)).
    { apply Forall_forall. intros t Hin. apply in_map_iff in Hin. destruct Hin as [[id t0] [E Hin]]. simpl in E. subst t0.
      destruct (D id t Hin) as [_ [i0 Hi0]]. eapply iv_ok0. eassumption. }
    destruct (end_call_ok s (map snd items) c u iv_store0 HP Hloc) as [Hembs Hst].
    rewrite Hembs. rewrite map_map.
    destruct (assign_items items (req_results s) Hnd) as [res' [Ha [Hb Hc]]].
    unfold finish, with_store. simpl. rewrite Ha. subst ev.
    assert (Hother : forall k0 b0, nth_error (batches s) k0 = Some b0 -> k0 <> k ->
                     nth_error (upd (batches s) k BDone) k0 = Some b0).
    { intros k0 b0 Hk0 Hne. rewrite nth_error_upd_other; assumption. }
    constructor; simpl; try assumption.
    - intros k0 b0 Hk0 Hp. apply nth_error_upd_inv in Hk0. destruct Hk0 as [[_ E]|[_ Hk0]].
      + subst b0. destruct Hp.
      + eapply iv_pre0; eassumption.
    - intros k0 Hc0. destruct (iv_cur0 k0 Hc0) as [b0 [Hb0 Hp0]]. exists b0. split; [|exact Hp0].
      apply Hother; [exact Hb0|]. intro. subst k0. rewrite Hk in Hb0. inversion Hb0. subst b0. destruct Hp0.
    - intros e [<-|He].
      + eapply nth_error_upd_same. eassumption.
      + apply Hother; [apply iv_done0; assumption|]. intro. subst e. apply iv_done0 in He. congruence.
    - intros k0 ev items0 c0 u0 Hk0. apply nth_error_upd_inv in Hk0. destruct Hk0 as [[_ E]|[_ Hk0]]; [discriminate E|].
      eapply iv_model0. eassumption.
    - intros j t0 rid k0 Hj.
      destruct (iv_wait0 j t0 rid k0 Hj) as [Hlt [Ha0|[[ev [items0 [c0 [u0 [Hbm Hin]]]]]|[Hf Hr]]]]; split; auto.
      + destruct (Nat.eq_dec k0 k) as [->|Hne].
        * rewrite Hk in Hbm. inversion Hbm. subst. right. right. split; [left; reflexivity|]. eapply Hb. eassumption.
        * right. left. exists ev, items0, c0, u0. split; [|exact Hin]. apply Hother; assumption.
      + right. right. split; [right; exact Hf|]. rewrite Hc; [exact Hr|].
        intro Hin. apply in_map_iff in Hin. destruct Hin as [[id t1] [E Hin]]. simpl in E. subst id.
        destruct (D rid t1 Hin) as [_ [i1 Hi1]].
        assert (j = i1) by (eapply iv_uniq0; eassumption). subst i1.
        rewrite Hj in Hi1. inversion Hi1. subst. apply iv_done0 in Hf. congruence.
    - intros k0 Hk0. apply nth_error_upd_inv in Hk0. destruct Hk0 as [[_ E]|[_ Hk0]]; [discriminate E|].
      eapply iv_bok0. eassumption.
  Qed.

  Lemma upd_upd : forall A (l : list A) i x y, upd (upd l i x) i y = upd l i y.
  Proof. induction l as [|a l IH]; intros [|i] x y; simpl; try reflexivity. f_equal. apply IH. Qed.

  Lemma finish_set_batch : forall (s : state) k b st ev ids embs,
    finish (with_store (set_batch s k b) st) k ev ids embs = finish (with_store s st) k ev ids embs.
  Proof.
    intros. unfold finish, with_store, set_batch. simpl.
    destruct (assign ids embs (req_results s)); [destruct ev|]; simpl; rewrite upd_upd; reflexivity.
  Qed.

  Lemma end_call_set_batch : forall (s : state) k b batch c u fresh,
    end_call text_eq_dec key_eq_dec kg cmode (set_batch s k b) batch c u fresh
    = end_call text_eq_dec key_eq_dec kg cmode s batch c u fresh.
  Proof. intros. unfold end_call. destruct cmode; reflexivity. Qed.

  Lemma Inv_collect : forall s k f fired,
    Inv s -> nth_error (batches s) k = Some (BHold f fired) ->
    Inv (collect text_eq_dec key_eq_dec kg cmode s k).
  Proof.
    intros s k f fired HI Hk. unfold collect.
    destruct (begin_call text_eq_dec key_eq_dec kg cmode s (map snd (req_queue s))) as [c u] eqn:Hbc.
    pose proof (Inv_collect_model s k f fired c u HI Hk Hbc) as H2.
    destruct (needs_model cmode u) eqn:En; [exact H2|].
    assert (Hu : u = []).
    { unfold needs_model in En. destruct cmode; [discriminate| |]; destruct u; congruence. }
    subst u.
    match type of H2 with Inv (set_batch ?x _ _) => set (s1 := x) in * end.
    assert (Hk2 : nth_error (batches (set_batch s1 k (BModel (cur_finished s) (req_queue s) c []))) k
                  = Some (BModel (cur_finished s) (req_queue s) c [])).
    { unfold set_batch. simpl. eapply nth_error_upd_same. eassumption. }
    pose proof (Inv_finish _ k _ _ _ _ H2 Hk2) as H3.
    rewrite end_call_set_batch in H3. rewrite finish_set_batch in H3. simpl map in H3.
    destruct (end_call text_eq_dec key_eq_dec kg cmode s1 (map snd (req_queue s)) c [] []) as [embs st].
    exact H3.
  Qed.

  (* ---- the invariant is inductive -------------------------------------------------------- *)
  Theorem Inv_step : forall l s s', Inv s -> step l s = Some s' -> Inv s'.
  Proof.
    intros l s s' HI Hs. destruct l as [i|k|k|k]; simpl in Hs.
    - destruct (nth_error (reqs s) i) as [[t p]|] eqn:Hi; [|discriminate].
      destruct p as [|w|rid k|r| |]; try discriminate.
      + inversion Hs. eapply Inv_req_enter; [exact HI|exact Hi|exact I].
      + destruct w; [|discriminate]. inversion Hs. eapply Inv_req_enter; [exact HI|exact Hi|exact I].
      + destruct (memb k (finished_set s)) eqn:E; [|discriminate]. inversion Hs.
        eapply Inv_fetch; [exact HI|exact Hi|]. apply memb_In. exact E.
    - destruct (nth_error (batches s) k) as [b|] eqn:Hk; [|discriminate].
      destruct b as [|f fired|ev items c u| |]; try discriminate.
      + inversion Hs.
        assert (Hc : cur_finished s = Some k) by (eapply (iv_pre _ HI); [exact Hk|exact I]).
        rewrite (iv_full _ HI k Hc). eapply Inv_set_batch_pre; [exact HI|exact Hk|exact I|exact I].
      + destruct (fired || memb f (full_set s)); [|discriminate]. inversion Hs.
        eapply Inv_collect; eassumption.
    - destruct (nth_error (batches s) k) as [b|] eqn:Hk; [|discriminate].
      destruct b as [|f fired|ev items c u| |]; try discriminate.
      destruct fired; [discriminate|]. inversion Hs.
      eapply Inv_set_batch_pre; [exact HI|exact Hk|exact I|exact I].
    - destruct (nth_error (batches s) k) as [b|] eqn:Hk; [|discriminate].
      destruct b as [|f fired|ev items c u| |]; try discriminate.
      pose proof (Inv_finish s k ev items c u HI Hk) as H.
      destruct (end_call text_eq_dec key_eq_dec kg cmode s (map snd items) c u (map emb u)) as [embs st].
      inversion Hs. exact H.
  Qed.

  Theorem Inv_exec : forall sched s s',
    Inv s -> exec text_eq_dec key_eq_dec kg emb max_batch_size cmode sched s = Some s' -> Inv s'.
  Proof.
    induction sched as [|l sched IH]; intros s s' HI He; simpl in He.
    - inversion He. subst. exact HI.
    - destruct (step l s) as [s1|] eqn:Hs; [|discriminate]. eapply IH; [|exact He]. eapply Inv_step; eassumption.
  Qed.

  (* ---- every task keeps its argument ------------------------------------------------------ *)
  Lemma map_fst_upd : forall (rs : list (text * rpc)) i t p p',
    nth_error rs i = Some (t, p) -> map fst (upd rs i (t, p')) = map fst rs.
  Proof.
    induction rs as [|[t0 p0] rs IH]; intros [|i] t p p' H; simpl in *; try discriminate.
    - inversion H. reflexivity.
    - f_equal. eapply IH. eassumption.
  Qed.

  Lemma map_fst_wake : forall (rs : list (text * rpc)), map fst (map wake rs) = map fst rs.
  Proof.
    induction rs as [|[t0 p0] rs IH]; simpl; [reflexivity|]. rewrite IH. destruct p0; reflexivity.
  Qed.

  Lemma finish_reqs : forall (s : state) k ev ids embs, reqs (finish s k ev ids embs) = reqs s.
  Proof. intros. unfold finish. destruct (assign ids embs (req_results s)); [destruct ev|]; reflexivity. Qed.

  Lemma step_texts : forall l s s', step l s = Some s' -> map fst (reqs s') = map fst (reqs s).
  Proof.
    intros l s s' Hs. destruct l as [i|k|k|k]; simpl in Hs.
    - destruct (nth_error (reqs s) i) as [[t p]|] eqn:Hi; [|discriminate].
      assert (He : map fst (reqs (req_enter max_batch_size s i t)) = map fst (reqs s)).
      { unfold req_enter, fetch, set_req.
        repeat match goal with
               | |- context [if ?b then _ else _] => destruct b
               | |- context [match ?x with _ => _ end] => destruct x
               end; simpl; eapply map_fst_upd; eassumption. }
      destruct p as [|w|rid k|r| |]; try discriminate.
      + inversion Hs. subst. exact He.
      + destruct w; [|discriminate]. inversion Hs. subst. exact He.
      + destruct (memb k (finished_set s)); [|discriminate]. inversion Hs. unfold fetch, set_req.
        destruct (dict_get (req_results s) rid); simpl; eapply map_fst_upd; eassumption.
    - destruct (nth_error (batches s) k) as [b|]; [|discriminate].
      destruct b as [|f fired|ev items c u| |]; try discriminate.
      + inversion Hs. reflexivity.
      + destruct (fired || memb f (full_set s)); [|discriminate]. inversion Hs. unfold collect.
        destruct (begin_call text_eq_dec key_eq_dec kg cmode s (map snd (req_queue s))) as [c u].
        destruct (needs_model cmode u).
        * simpl. apply map_fst_wake.
        * destruct (end_call _ _ _ _ _ _ _ _ _) as [embs st]. rewrite finish_reqs. simpl. apply map_fst_wake.
    - destruct (nth_error (batches s) k) as [b|]; [|discriminate].
      destruct b as [|f fired|ev items c u| |]; try discriminate.
      destruct fired; [discriminate|]. inversion Hs. reflexivity.
    - destruct (nth_error (batches s) k) as [b|]; [|discriminate].
      destruct b as [|f fired|ev items c u| |]; try discriminate.
      destruct (end_call _ _ _ _ _ _ _ _ _) as [embs st]. inversion Hs. rewrite finish_reqs. reflexivity.
  Qed.

  Lemma exec_texts : forall sched s s',
    exec text_eq_dec key_eq_dec kg emb max_batch_size cmode sched s = Some s' -> map fst (reqs s') = map fst (reqs s).
  Proof.
    induction sched as [|l sched IH]; intros s s' He; simpl in He.
    - inversion He. reflexivity.
    - destruct (step l s) as [s1|] eqn:Hs; [|discriminate].
      rewrite (IH _ _ He). eapply step_texts. eassumption.
  Qed.

  Definition no_error (s : state) : Prop :=
    (forall i t, nth_error (reqs s) i <> Some (t, RError) /\ nth_error (reqs s) i <> Some (t, RSpin)) /\
    (forall k, nth_error (batches s) k <> Some BError).

  Lemma Inv_no_error : forall s, Inv s -> no_error s.
  Proof.
    intros s HI. split.
    - intros i t. split; intro H; apply (iv_ok _ HI) in H; destruct H as [[] _].
    - apply (iv_bok _ HI).
  Qed.

  Lemma init_texts : forall (texts : list text) (st : store key vec), map fst (reqs (init texts st)) = texts.
  Proof. intros. simpl. rewrite map_map. simpl. apply map_id. Qed.

  (* C19_batch_safety *)
  Theorem batch_safety : forall texts st sched s,
    Forall P texts -> consistent st ->
    exec text_eq_dec key_eq_dec kg emb max_batch_size cmode sched (init texts st) = Some s ->
    (forall i t r, nth_error (reqs s) i = Some (t, RDone r) -> nth_error texts i = Some t /\ r = Some (emb t)) /\
    no_error s.
  Proof.
    intros texts st sched s HP Hc He.
    assert (HI : Inv s) by (eapply Inv_exec; [apply Inv_init; eassumption|exact He]).
    split; [|apply Inv_no_error; exact HI].
    intros i t r Hi. split.
    - rewrite <- (init_texts texts st). rewrite <- (exec_texts _ _ _ He).
      rewrite nth_error_map. rewrite Hi. reflexivity.
    - apply (iv_ok _ HI) in Hi. destruct Hi as [Hok _]. exact Hok.
  Qed.

End Safety.

(* without a cache nothing is assumed about any key generator *)
Theorem batch_safety_nocache : forall (text vec : Type) (text_eq_dec : forall a b : text, {a = b} + {a <> b})
    (emb : text -> vec) (max_batch_size : nat), 1 <= max_batch_size ->
  forall texts sched s,
    exec text_eq_dec text_eq_dec (fun t => t) emb max_batch_size CacheOff sched (init texts []) = Some s ->
    (forall i t r, nth_error (reqs s) i = Some (t, RDone r) -> nth_error texts i = Some t /\ r = Some (emb t)) /\
    no_error text text vec s.
Proof.
  intros text vec ted emb maxb Hmax texts sched s He.
  apply (batch_safety text text vec ted ted (fun t => t) emb maxb CacheOff (fun _ => True) Hmax) with (st := []) (sched := sched).
  - intros a b _ _ E. exact E.
  - apply Forall_forall. intros; exact I.
  - apply consistent_nil.
  - exact He.
Qed.
