"""C16 - Generation options run exactly the selected rail categories (Colang 1.0).

Model: coq/theories/Pipe/Options.v (options.py parsing, generate_async bot-message injection,
llm_flows.co guards as processing-log producing machine), Pipe/GenLog.v (compute_generation_log);
theorems: Props/C16.v.  Ties: (T) Gen/C16Consts.v regenerated from processing_log.py/options.py;
(X) end-to-end LLMRails.generate(options=...) with scripted rails and LLM, compared inside Coq
(reply, rail calls, LLM tasks, the whole timing-free processing log, log.activated_rails), plus a
pure differential of compute_generation_log on generated processing logs.
Search: the property text re-stated in Python on the observed replies/logs (direct oracle).
"""
from __future__ import annotations

import itertools
import json
import os
import random

from harness import common as C
from harness import opt_driver as D

PID = "C16"
GEN = ["C16Consts", "C01Flows", "C16Flows"]   # C01Flows: translator/gen_c01.py (compiled llm_flows.co)
CATS = ["input", "dialog", "retrieval", "output"]

PREAMBLE = """From Coq Require Import String List Bool.
From NG Require Import Pipe.GenLog Pipe.Options Pipe.OptionsRun.
Import ListNotations.
Open Scope string_scope.
"""

USER_TEXTS = ["USER-TEXT-0", "hello there, what can you do?", "x"]
BOT_TEXTS = ["BOT-TEXT-0", "Some bot output; with punctuation!"]
# edge texts: falsy / keyword-like / long / colliding with the refusal; used for user AND bot texts
LONG_TEXT = ("a fairly long text, " * 25).strip()
EDGE_TEXTS = ["", " ", "0", "None", "False", LONG_TEXT, D.REFUSAL]


# ---------------------------------------------------------------------------------------
# cases


def subsets():
    out = []
    for r in range(5):
        for s in itertools.combinations(CATS, r):
            out.append(list(s))
    return out


def mk_case(n_in, n_out, n_ret, dmode, spec, iv, ov, user, bot, with_options=True, role="assistant"):
    """spec: None (no `rails` key) | ["input", ...] | {"input": bool, ...}"""
    return {"n_in": n_in, "n_out": n_out, "n_ret": n_ret, "dmode": dmode, "opts": spec,
            "iv": list(iv), "ov": list(ov), "user": user, "bot": bot, "with_options": with_options, "role": role}


def effective(case):
    """The four booleans the options denote (independent re-statement of options.py)."""
    if not case["with_options"] or case["opts"] is None:
        return {c: True for c in CATS}
    if isinstance(case["opts"], list):
        return {c: (c in case["opts"]) for c in CATS}
    return {c: case["opts"].get(c, True) for c in CATS}


def in_table(case):
    e = effective(case)
    if not case["with_options"]:
        return case["bot"] is None
    if e["dialog"]:
        return case["bot"] is None
    if e["output"]:
        return case["bot"] is not None
    return True


EVENT_CAP = 100


def under_event_cap(n_in, n_out, n_ret, dmode):
    """The v1 runtime raises Exception("Too many events.") when one generate_events call produces more
    than 100 new events (runtime.py).  Measured on this snapshot: a passed rail costs 10-11 events, a
    retrieval rail 3 per run, the dialog flows ~36 (general mode ~27), a refusal ~9 more; worst cases:
    (2,2,2,flows) 93, (3,3,2,general) 100, (3,2,2,flows) and (3,3,0,flows) exceed the cap.  The cap is
    outside C16's statement; the workload stays below it with a margin and reports it as an observation."""
    if dmode == "general":
        return n_in + n_out <= 5
    return n_in + n_out <= 4


def gen_cases(rng, tier):
    cases = []
    subs = subsets()
    # family A: exhaustive verdict vectors for 2+2 rails, all 16 subsets, bot supplied or not
    vv = list(itertools.product("ARW", repeat=2))
    for s in subs:
        for iv in vv:
            for ov in vv:
                for bot in (None, BOT_TEXTS[0]):
                    cases.append(mk_case(2, 2, 1, "flows", s, iv, ov, USER_TEXTS[0], bot))
    # family B: shapes
    shapes = list(itertools.product(range(3), range(3), range(3), ("general", "flows", "flows_predef")))
    fam_b = []
    for (ni, no, nr, dm) in shapes:
        for s in subs:
            for bot in (None, rng.choice(BOT_TEXTS)):
                for _ in range(2):
                    iv = [rng.choice("AARW") for _ in range(ni)]
                    ov = [rng.choice("AARW") for _ in range(no)]
                    fam_b.append(mk_case(ni, no, nr, dm, s, iv, ov, rng.choice(USER_TEXTS), bot))
    if tier == "quick":
        rng.shuffle(fam_b)
        fam_b = fam_b[:1000]
    cases += fam_b
    # family C: dict form, absent `rails` key, no options at all
    n_c = 300 if tier == "quick" else 2000
    for _ in range(n_c):
        ni, no, nr = rng.randrange(3), rng.randrange(3), rng.randrange(3)
        dm = rng.choice(("general", "flows", "flows_predef"))
        form = rng.randrange(4)
        if form == 0:
            spec, wo = None, True
        elif form == 1:
            spec, wo = None, False
        else:
            ks = rng.sample(CATS, rng.randint(0, 4))
            spec, wo = {k: rng.choice([True, False]) for k in ks}, True
        iv = [rng.choice("AARW") for _ in range(ni)]
        ov = [rng.choice("AARW") for _ in range(no)]
        bot = rng.choice([None, None, BOT_TEXTS[0]])
        cases.append(mk_case(ni, no, nr, dm, spec, iv, ov, rng.choice(USER_TEXTS), bot, wo))
    # family D: edge texts (empty, blank, "0", "None", "False", long, equal to the refusal, user text ==
    # bot text) for the user text and for the supplied bot message, over all 16 subsets.  A supplied
    # message that is the empty string IS supplied: the table row applies to it like to any other text.
    pairs = [(USER_TEXTS[0], USER_TEXTS[0])]
    for e in EDGE_TEXTS:
        pairs += [(e, e), (e, BOT_TEXTS[0]), (USER_TEXTS[0], e)]
    vecs = [("AA", "AA"), ("WA", "AW"), ("AR", "AA"), ("AA", "RA"), ("EA", "AE"), ("AE", "EA")]
    i = 0
    for s in subs:
        for (u, b) in pairs:
            iv, ov = vecs[i % len(vecs)]
            i += 1
            bot = None if "dialog" in s else b
            cases.append(mk_case(2, 2, 1, "flows", s, iv, ov, u, bot))
    for (u, b) in pairs:
        for s in (["output"], ["input", "output"], ["input"]):
            cases.append(mk_case(1, 1, 0, "general", s, "A", "A", u, None if s == ["input"] else b))
            cases.append(mk_case(1, 1, 0, "general", s, "E", "E", u, None if s == ["input"] else b))
    # the documentation writes the supplied message with role "bot"; this snapshot only recognises
    # "assistant" (observed and reported, not judged)
    for s in (["input", "output"], ["output"]):
        cases.append(mk_case(1, 1, 0, "flows", s, ["A"], ["A"], USER_TEXTS[0], BOT_TEXTS[0], role="bot"))
    if os.environ.get("VERIF_SMALL"):
        rng.shuffle(cases)
        cases = cases[:700]
    if tier == "thorough":
        # three rails in a category, kept below the v1 runtime's cap of 100 new events per generate call
        # (see under_event_cap): 3 rails on one side only in flows mode, 3+2 in general mode
        vv3 = list(itertools.product("ARW", repeat=3))
        for s in subs:
            for v3 in vv3:
                for bot in (None, BOT_TEXTS[1]):
                    v1 = [rng.choice("ARW")]
                    v2 = [rng.choice("ARW") for _ in range(2)]
                    cases.append(mk_case(3, 1, 2, "flows", s, v3, v1, USER_TEXTS[1], bot))
                    cases.append(mk_case(1, 3, 2, "flows", s, v1, v3, USER_TEXTS[1], bot))
                    if rng.random() < 0.5:
                        cases.append(mk_case(3, 2, 1, "general", s, v3, v2, USER_TEXTS[1], bot))
                    else:
                        cases.append(mk_case(2, 3, 1, "general", s, v2, v3, USER_TEXTS[1], bot))
    assert all(under_event_cap(c["n_in"], c["n_out"], c["n_ret"], c["dmode"]) for c in cases)
    return cases


def gen_convs(rng, tier):
    """Conversations on ONE instance through the message-history API.  Consecutive turns carry
    DIFFERENT options (and different supplied bot messages) or the SAME options (events-cache hit:
    context variables of the previous turn are carried over), refusing turns come first in a third
    of them.  Every turn is a row of the table, so the oracle and the (memoryless) model apply per turn."""
    def tmpl(kind, t):
        u, b = f"USER-TEXT-t{t}", f"BOT-TEXT-t{t}"
        return {
            "all": dict(opts=None, bot=None, with_options=True),
            "plain": dict(opts=None, bot=None, with_options=False),
            "log_only": dict(opts={}, bot=None, with_options=True),
            "in": dict(opts=["input"], bot=None, with_options=True),
            "io": dict(opts=["input", "output"], bot=b, with_options=True),
            "o": dict(opts=["output"], bot=b, with_options=True),
            "iro": dict(opts=["input", "retrieval", "output"], bot=b, with_options=True),
            "do": dict(opts=["dialog", "output"], bot=None, with_options=True),
            "id": dict(opts={"output": False, "retrieval": False}, bot=None, with_options=True),
        }[kind] | {"user": u, "role": "assistant"}

    kinds = ["all", "plain", "log_only", "in", "io", "o", "iro", "do", "id"]
    verdicts = [("A", "A", "A"), ("R", "A", "A"), ("A", "R", "A")]     # (first turn in/out rail, ...) see below
    convs = []
    shapes = [(1, 1, 1, "flows"), (1, 1, 0, "general")] + ([(2, 2, 1, "flows_predef")] if tier == "thorough" else [])
    for (ni, no, nr, dm) in shapes:
        for k1 in kinds:
            for k2 in kinds:
                for vi, first in enumerate(("accept", "in_rejects", "out_rejects")):
                    k3 = rng.choice(kinds)
                    turns = []
                    for t, k in enumerate((k1, k2, k3) if tier == "thorough" else (k1, k2)):
                        tr = tmpl(k, t)
                        iv, ov = ["A"] * ni, ["A"] * no
                        if t == 0 and first == "in_rejects" and ni:
                            iv[-1] = "R"
                        if t == 0 and first == "out_rejects" and no:
                            ov[0] = "R"
                        if t >= 1 and rng.random() < 0.3:
                            (iv if rng.random() < 0.5 or not no else ov)[0] = rng.choice("RW")
                        tr["iv"], tr["ov"] = iv, ov
                        turns.append(tr)
                    convs.append({"n_in": ni, "n_out": no, "n_ret": nr, "dmode": dm, "turns": turns})
                    # the same conversation carried by an explicit state object (options always given)
                    if vi != 0 and "plain" not in (k1, k2) and (tier == "thorough" or "plain" != k3 and (len(convs) + vi) % 2 == 0):
                        convs.append({"n_in": ni, "n_out": no, "n_ret": nr, "dmode": dm, "turns": turns, "mode": "state"})
    if os.environ.get("VERIF_SMALL"):
        rng.shuffle(convs)
        convs = convs[:120]
    return convs


# ---------------------------------------------------------------------------------------
# Coq printing


def q(s):
    return C.coq_string(s)


def coq_cfg(case):
    def rails(p, a, n):
        return C.coq_list([f"mkRail {q(p + str(k))} {q(a + str(k))}" for k in range(n)])
    dm = {"general": "General", "flows": "(Flows false)", "flows_predef": "(Flows true)"}[case["dmode"]]
    return (f"(mkCfg {rails('in', 'in_rail_', case['n_in'])} {rails('out', 'out_rail_', case['n_out'])} "
            f"{rails('ret', 'ret_rail_', case['n_ret'])} {dm} \"greet\" \"express greeting\")")


def coq_spec(case):
    if not case["with_options"]:
        return "None"
    s = case["opts"]
    if s is None:
        return "(Some RAbsent)"
    if isinstance(s, list):
        return "(Some (RList " + C.coq_list([q(x) for x in s]) + "))"
    return "(Some (RDict " + C.coq_list([f"({q(k)}, {C.coq_bool(v)})" for k, v in s.items()]) + "))"


def coq_verdicts(vs, kind):
    out = []
    for k, v in enumerate(vs):
        out.append({"A": "Accept", "R": "Reject", "E": '(Rewrite "")'}.get(v) or f"(Rewrite {q(D.rewrite_text(kind, k))})")
    return C.coq_list(out)


def coq_plog(pl):
    out = []
    for e in pl:
        if e[0] == "S":
            items = C.coq_list([("SAct " if k == "A" else "SIntent ") + q(n) for k, n in e[2]])
            out.append(f"PStep {q(e[1])} {items}")
        elif e[0] == "E":
            out.append(f"PEvent {q(e[1])} {q(e[2])}")
        elif e[0] == "L":
            out.append(f"PLlm {q(e[1])}")
        else:
            raise ValueError(f"unknown processing-log entry {e}")
    return C.coq_list(out)


def coq_rails(rs):
    out = []
    for ty, name, stop, dec, acts in rs:
        a = C.coq_list([f"mkX {q(n)} {C.coq_list([q(t) for t in ts])}" for n, ts in acts])
        out.append(f"mkR {q(ty)} {q(name)} {C.coq_list([q(d) for d in dec])} {a} {C.coq_bool(stop)}")
    return C.coq_list(out)


def coq_calls(calls):
    out = []
    for name, text in calls:
        pre, k = name.rsplit("_", 1)
        cat = {"in_rail": "CIn", "out_rail": "COut", "ret_rail": "CRet"}[pre]
        t = "" if cat == "CRet" else text
        if t is None:
            raise ValueError("rail saw None")
        out.append(f"mkCall {cat} {int(k)} {q(name)} {q(t)}")
    return C.coq_list(out)


def undef_observation(obs):
    """BotMessage(text=None): generate raises TypeError in the final join, or a rail/LLM stringifies None."""
    if obs.get("exc") == "TypeError":
        return True
    return obs.get("reply") in ("None", None) and obs.get("exc") is None and any(c[1] is None for c in obs["calls"])


def coq_case(case, obs):
    if obs.get("exc") or any(c[1] is None and c[0].startswith(("in_", "out_")) for c in obs["calls"]):
        exp = "ExpUndef"
    else:
        rails = "None" if obs["rails"] is None else f"(Some {coq_rails(obs['rails'])})"
        exp = (f"(ExpFull {q(obs['reply'])} {coq_calls(obs['calls'])} {C.coq_list([q(t or '') for t in obs['llm']])} "
               f"{coq_plog(obs['plog'])} {rails})")
    bot = "None" if case["bot"] is None else f"(Some {q(case['bot'])})"
    return (f"(mkCase {coq_cfg(case)} {coq_spec(case)} {coq_verdicts(case['iv'], 'IN')} {coq_verdicts(case['ov'], 'OUT')} "
            f"{q(case['user'])} {bot} {exp})")


# ---------------------------------------------------------------------------------------
# direct oracle on the implementation: the property text


def spec_rails(vs, kind, text):
    """(final text | None if blocked, index of the blocking rail | None, number of rails called)"""
    for k, v in enumerate(vs):
        if v == "R":
            return None, k, k + 1
        if v == "W":
            text = D.rewrite_text(kind, k)
        if v == "E":
            text = ""
    return text, None, len(vs)


def oracle(case, obs):
    """Returns a list of (signature, message) for violations of the property text."""
    bad = []
    e = effective(case)
    if obs.get("exc"):
        return [("generate-raises:" + obs["exc"], f"generate raised {obs['exc']}: {obs.get('exc_msg')}")]
    calls = obs["calls"]
    cat_of = {"in_rail": "input", "out_rail": "output", "ret_rail": "retrieval"}
    called_cats = {cat_of[c[0].rsplit("_", 1)[0]] for c in calls}
    for c in ("input", "output", "retrieval"):
        if not e[c] and c in called_cats:
            bad.append((f"disabled-category-called:{c}", f"`{c}` rails disabled by the options but {c} rail actions were called"))
    if not e["dialog"] and obs["llm"]:
        bad.append(("llm-call-with-dialog-disabled", f"dialog rails disabled but LLM calls were made: {obs['llm']}"))
    in_calls = [c for c in calls if c[0].startswith("in_")]
    out_calls = [c for c in calls if c[0].startswith("out_")]
    reply = obs["reply"]
    exp_in_text, in_block, n_in_called = (case["user"], None, 0)
    if e["input"]:
        exp_in_text, in_block, n_in_called = spec_rails(case["iv"][:case["n_in"]], "IN", case["user"])
        if [c[0] for c in in_calls] != [f"in_rail_{k}" for k in range(n_in_called)]:
            bad.append(("input-rails-not-run-as-selected", f"input rails enabled; expected {n_in_called} calls in order, got {in_calls}"))
    out_block = None
    n_out_called = len(out_calls)
    if not e["dialog"] and not e["output"]:
        # input-only row (also with retrieval listed): reply is the user text / rewritten / refusal
        want = D.REFUSAL if in_block is not None else exp_in_text
        if reply != want:
            bad.append(("input-only-reply", f"only input checking selected: reply {reply!r}, documented {want!r}"))
        if obs["llm"]:
            bad.append(("input-only-llm-call", "input-only checking made an LLM call"))
    elif not e["dialog"] and e["output"] and case["bot"] is not None:
        if in_block is not None:
            want = D.REFUSAL
            n_out = 0
        else:
            t, out_block, n_out = spec_rails(case["ov"][:case["n_out"]], "OUT", case["bot"])
            want = D.REFUSAL if out_block is not None else t
        if reply != want:
            bad.append(("output-check-reply", f"checking a supplied bot message: reply {reply!r}, documented {want!r}"))
        if [c[0] for c in out_calls] != [f"out_rail_{k}" for k in range(n_out)]:
            bad.append(("output-rails-not-run-as-selected", f"expected {n_out} output rail calls in order, got {out_calls}"))
        if out_calls and out_calls[0][1] != case["bot"]:
            bad.append(("output-rails-saw-other-text", f"first output rail saw {out_calls[0][1]!r}, supplied {case['bot']!r}"))
        if obs["llm"]:
            bad.append(("output-check-llm-call", "checking a supplied bot message made an LLM call"))
    else:
        # generation rows (dialog rails selected): the generated message is checked by the output rails iff
        # `output` is selected (a predefined message is not generated and is not re-checked)
        for k, c in enumerate(out_calls):
            if case["ov"][k] == "R":
                out_block = k
        if (in_block is not None or out_block is not None) and reply != D.REFUSAL:
            bad.append(("blocked-but-not-refused", f"a rail rejected but the reply is {reply!r}"))
        if e["dialog"] and in_block is None:
            if case["dmode"] == "flows_predef":
                want, n_out = D.PREDEF_TEXT, 0
            elif e["output"]:
                t, blk, n_out = spec_rails(case["ov"][:case["n_out"]], "OUT", D.LLM_TEXT)
                want = D.REFUSAL if blk is not None else t
            else:
                want, n_out = D.LLM_TEXT, 0
            if [c[0] for c in out_calls] != [f"out_rail_{k}" for k in range(n_out)]:
                bad.append(("output-rails-not-run-as-selected",
                            f"generated message: expected {n_out} output rail calls in order, got {out_calls}"))
            elif reply != want:
                bad.append(("generation-reply", f"generated message: reply {reply!r}, expected {want!r}"))
    # the log
    if obs["rails"] is not None:
        rails = obs["rails"]
        ran_in = [r for r in rails if r[0] == "input"]
        ran_out = [r for r in rails if r[0] == "output"]
        if [r[1] for r in ran_in] != [f"in{k}" for k in range(len(in_calls))] or \
                [r[1] for r in ran_out] != [f"out{k}" for k in range(n_out_called)]:
            bad.append(("log-rails-differ-from-rails-run", f"log lists {[(r[0], r[1]) for r in rails]}, calls were {calls}"))
        order = [r[0] for r in rails if r[0] in ("input", "output")]
        if order != sorted(order, key=lambda t: 0 if t == "input" else 1):
            bad.append(("log-rails-out-of-order", f"{[(r[0], r[1]) for r in rails]}"))
        stops = [(r[0], r[1]) for r in rails if r[2]]
        want_stop = []
        if in_block is not None:
            want_stop = [("input", f"in{in_block}")]
        elif out_block is not None:
            want_stop = [("output", f"out{out_block}")]
        if stops != want_stop:
            bad.append(("log-stop-flag", f"stop set on {stops}, the rail that blocked: {want_stop}"))
    return bad


# ---------------------------------------------------------------------------------------
# pure differential of compute_generation_log


def gen_plog(rng, real_logs):
    """Mutations of real logs + free-form logs (ill-formed ones exercise the exception paths)."""
    flows = ["process user input", "run input rails", "run dialog rails", "process bot message", "run output rails",
             "generate bot message", "generate user intent", "generate next step", "greet", "in0", "out0", "ret0"]
    actions = ["create_event", "generate_user_intent", "generate_bot_message", "retrieve_relevant_chunks", "in_rail_0", "chk"]
    events = ["StartInputRails", "InputRailsFinished", "StartOutputRails", "OutputRailsFinished", "StartInputRail",
              "StartOutputRail", "InputRailFinished", "OutputRailFinished", "StartInternalSystemAction",
              "InternalSystemActionFinished", "UserMessage", "BotMessage", "BotIntent", "Listen", "UtteranceUserActionFinished"]

    def rand_entry():
        k = rng.random()
        if k < 0.35:
            items = []
            for _ in range(rng.randint(0, 3)):
                items.append(rng.choice([["A", rng.choice(actions)], ["I", rng.choice(["refuse to respond", "stop", "express greeting"])]]))
            return ["S", rng.choice(flows), items]
        if k < 0.9:
            t = rng.choice(events)
            if t in ("StartInputRail", "StartOutputRail", "InputRailFinished", "OutputRailFinished"):
                return ["E", t, rng.choice(["in0", "out0", "greet", "generate bot message"])]
            if t in ("StartInternalSystemAction", "InternalSystemActionFinished"):
                return ["E", t, rng.choice(actions)]
            return ["E", t, ""]
        return ["L", rng.choice(["general", "generate_user_intent", "generate_bot_message"])]

    if real_logs and rng.random() < 0.6:
        pl = [list(e) for e in rng.choice(real_logs)]
        for _ in range(rng.randint(0, 3)):
            m = rng.random()
            if m < 0.4 and pl:
                del pl[rng.randrange(len(pl))]
            elif m < 0.7:
                pl.insert(rng.randint(0, len(pl)), rand_entry())
            elif pl:
                cut = rng.randint(1, len(pl))
                pl = pl[:cut]
        return pl
    return [rand_entry() for _ in range(rng.randint(0, 14))]


# ---------------------------------------------------------------------------------------


def load_corpus():
    d = os.path.join(C.VERIF, "corpus", PID)
    out = []
    if os.path.isdir(d):
        for fn in sorted(os.listdir(d)):
            if fn.endswith(".json"):
                out.append(json.load(open(os.path.join(d, fn))))
    return out


def run(tier, seed, replay=None):
    import time
    out = C.Outcome(PID, tier, seed)
    rng = random.Random(seed * 1000003 + 16)
    tm = {}
    t0 = time.time()
    try:
        b = C.build_and_audit(PID, GEN)
    except Exception as ex:   # e.g. coqdep on a file another run removed: keep going, the oracle still runs
        import traceback
        b = {"ok": False, "broken": ["build:exception"], "log": traceback.format_exc(), "obligations": 0, "files": [], "axioms": []}
    tm["build_and_audit_s"] = round(time.time() - t0, 1)
    C.proof_coverage(out, b, "make theories/Props/C16.vo && coqc Props/C16.v (Print Assumptions)")
    for br in b["broken"]:
        out.add_broken(br, b["log"])
    with C.BuildLock():
        okm, logm = C.coq_make(["theories/Pipe/OptionsRun.vo"])
    if not okm:
        out.add_broken("coq:theories/Pipe/OptionsRun.v", logm)

    cases = []
    convs = []
    genlog_extra = []
    corpus_n = 0
    for d in load_corpus():
        if d.get("kind") == "e2e":
            cases.append(d["case"])
            corpus_n += 1
        elif d.get("kind") == "conv":
            convs.append(d["conv"])
            corpus_n += 1
        elif d.get("kind") == "genlog":
            genlog_extra.append(d["plog"])
            corpus_n += 1
    if replay:
        d = json.load(open(replay))
        r = d.get("replay", d)
        if r.get("kind") == "e2e":
            cases.append(r["case"])
        elif r.get("kind") == "conv":
            convs.append(r["conv"])
        elif r.get("kind") == "genlog":
            genlog_extra.append(r["plog"])
    else:
        cases += gen_cases(rng, tier)
        convs += gen_convs(rng, tier)
    # same configuration adjacent: a worker process reuses its LLMRails instance
    cases.sort(key=lambda c: (c["n_in"], c["n_out"], c["n_ret"], c["dmode"]))

    # ---- end to end
    t0 = time.time()
    obs_all, errs = D.run_shards(PID + "_e2e", "c16", cases, nproc=C.NPROC, timeout=1500) if cases else ([], [])
    convs.sort(key=lambda c: (c["n_in"], c["n_out"], c["n_ret"], c["dmode"]))
    conv_obs, errs2 = D.run_shards(PID + "_conv", "c16conv", convs, nproc=C.NPROC, timeout=1500) if convs else ([], [])
    for e in errs + errs2:
        out.add_broken("correspondence:C16-e2e(driver)", e)
    tm["e2e_impl_s"] = round(time.time() - t0, 1)
    # one item per generate call: (case, observation, replay payload)
    items = [(c, o, {"kind": "e2e", "case": c}) for c, o in zip(cases, obs_all)]
    n_conv_turns = 0
    for conv, ol in zip(convs, conv_obs):
        if ol is None:
            continue
        if isinstance(ol, dict) and "driver_error" in ol:
            items.append(({**conv["turns"][0], **{k: conv[k] for k in ("n_in", "n_out", "n_ret", "dmode")}}, ol,
                          {"kind": "conv", "conv": conv}))
            continue
        for t, o in enumerate(ol):
            c = {**conv["turns"][t], **{k: conv[k] for k in ("n_in", "n_out", "n_ret", "dmode")}}
            items.append((c, o, {"kind": "conv", "conv": conv, "turn": t}))
            n_conv_turns += 1
    terms, kept = [], []
    payload_of = {}
    seen = set()
    nontrivial = 0
    dist = {"in_table": 0, "out_of_table": 0, "blocked": 0, "rewritten": 0, "by_subset": {}, "forms": {"list": 0, "dict": 0, "absent": 0, "no_options": 0}}
    observations = {}
    cap_obs = {"cap": EVENT_CAP, "max_new_events": 0, "cap_reached": [],
               "note": "v1 runtime raises Exception('Too many events.') above 100 new events per generate call; measured: "
                       "(3,3,2,flows) all-accept needs > 100 (raises), (3,2,2,flows) and (3,3,0,flows) raise with a rejecting "
                       "last output rail, (3,3,2,general) reaches exactly 100; workload shapes are bounded by under_event_cap"}
    real_logs = []
    for case, obs, payload in items:
        if obs is None:
            continue
        if "driver_error" in obs:
            out.add_broken("correspondence:C16-e2e(driver)", json.dumps({"case": case, "error": obs["driver_error"], "tb": obs.get("tb")}))
            continue
        ne = obs.get("n_events")
        if ne is not None and ne > cap_obs["max_new_events"]:
            cap_obs.update({"max_new_events": ne, "shape_of_max": [case["n_in"], case["n_out"], case["n_ret"], case["dmode"]],
                            "verdicts_of_max": [case["iv"], case["ov"]]})
        if obs.get("exc") == "Exception" and "Too many events" in (obs.get("exc_msg") or ""):
            # the runtime's safety cap, not a statement of C16: observed and reported, never judged
            cap_obs["cap_reached"].append([case["n_in"], case["n_out"], case["n_ret"], case["dmode"], case["iv"], case["ov"]])
            continue
        if case.get("role", "assistant") != "assistant":
            k = "supplied bot message written with the documentation's role name `bot` (ignored by generate_async)"
            o = {"reply": obs.get("reply"), "exc": obs.get("exc"), "rails_saw_None": any(c[1] is None for c in obs["calls"])}
            observations.setdefault(k, {"count": 0, "sample": o})["count"] += 1
            continue
        tbl = in_table(case)
        dist["in_table" if tbl else "out_of_table"] += 1
        form = "no_options" if not case["with_options"] else ("absent" if case["opts"] is None else ("list" if isinstance(case["opts"], list) else "dict"))
        dist["forms"][form] += 1
        e = effective(case)
        key = ",".join(c for c in CATS if e[c]) or "none"
        dist["by_subset"][key] = dist["by_subset"].get(key, 0) + 1
        if obs.get("plog"):
            real_logs.append(obs["plog"])
        if not tbl:
            # outside the documented table: reported, not judged; the model is only compared where it
            # claims something (dialog disabled + output enabled + no bot message => undefined bot message)
            if e["dialog"]:
                k = "assistant-last transcript with dialog rails enabled"
                o = {"reply": obs.get("reply"), "exc": obs.get("exc"), "input_rails_called": any(c[0].startswith("in_") for c in obs["calls"]), "llm": obs["llm"]}
            else:
                k = "output rails enabled, dialog disabled, no bot message supplied"
                o = {"reply": obs.get("reply"), "exc": obs.get("exc"), "rails_saw_None": any(c[1] is None for c in obs["calls"])}
            observations.setdefault(k, {"count": 0, "sample": o})["count"] += 1
            if e["dialog"]:
                continue
        else:
            for sig, msg in oracle(case, obs):
                if payload["kind"] == "conv":
                    sig, msg = sig + ":in-conversation", f"turn {payload['turn']} of a conversation on one instance: " + msg
                out.findings.append(C.Finding(sig, msg, {**payload, "observed": {k: v for k, v in obs.items() if k != "plog"}}))
            if any(v == "R" for v in case["iv"] + case["ov"]):
                dist["blocked"] += 1
            if any(v in ("W", "E") for v in case["iv"] + case["ov"]):
                dist["rewritten"] += 1
            if case["user"] in EDGE_TEXTS or case["bot"] in EDGE_TEXTS or case["user"] == case["bot"]:
                dist["edge_texts"] = dist.get("edge_texts", 0) + 1
        try:
            t = coq_case(case, obs)
        except ValueError as ex:
            out.add_broken("correspondence:C16-e2e(print)", f"{ex}: {json.dumps(case)}")
            continue
        h = C.canon_hash(t)
        if h not in seen:
            seen.add(h)
            if len(obs["calls"]) >= 1 and (case["opts"] is not None or not case["with_options"]):
                nontrivial += 1
        terms.append(t)
        kept.append((case, obs))
        payload_of[id(case)] = payload

    disagree = []
    t0 = time.time()
    if okm and terms:
        bools, err = C.run_cases(PID + "_e2e", PREAMBLE, terms, "check_turn", shard=150, timeout=1500)
        if err:
            out.add_broken("correspondence:C16-e2e(coqc)", err)
        else:
            disagree = [kc for ok, kc in zip(bools, kept) if not ok]
    if disagree:
        case, obs = min(disagree, key=lambda kc: len(json.dumps(kc[0])) + len(kc[1].get("plog") or []))
        model = C.eval_term(PID + "_e2e", PREAMBLE,
                            f"let r := model_of {coq_case(case, obs)} in (answer r, calls r, llm r, ran r, blocked r)")
        out.add_broken("correspondence:C16-e2e",
                       f"{len(disagree)} disagreements; smallest: {json.dumps(payload_of.get(id(case), {}))[:1500]} case={json.dumps(case)} observed="
                       f"{json.dumps({k: v for k, v in obs.items() if k != 'plog'})} model={model[-1500:]}")
        # a disagreement is a candidate: store it for the corpus of the next runs
        out.notes.append({"disagreement_case": case})

    tm["e2e_model_s"] = round(time.time() - t0, 1)
    # ---- pure differential of compute_generation_log
    t0 = time.time()
    n_gl = 0 if replay else (2000 if tier == "quick" else 25000)
    if os.environ.get("VERIF_SMALL") and not replay:
        n_gl = 400
    plogs = list(genlog_extra) + [gen_plog(rng, real_logs[:400]) for _ in range(n_gl)]
    gl_res, gl_errs = D.run_shards(PID + "_gl", "genlog", plogs, nproc=C.NPROC, timeout=900) if plogs else ([], [])
    for e in gl_errs:
        out.add_broken("correspondence:C16-genlog(driver)", e)
    gl_terms, gl_kept = [], []
    gl_hist = {"ok": 0, "raises": 0}
    for pl, r in zip(plogs, gl_res):
        if r is None:
            continue
        if "driver_error" in r:
            out.add_broken("correspondence:C16-genlog(driver)", r["driver_error"])
            continue
        gl_hist["raises" if r["exc"] else "ok"] += 1
        exp = "None" if r["exc"] else f"(Some {coq_rails(r['rails'])})"
        gl_terms.append(f"({coq_plog(pl)}, {exp})")
        gl_kept.append((pl, r))
        h = C.canon_hash(gl_terms[-1])
        if h not in seen:
            seen.add(h)
            if len(pl) >= 4:
                nontrivial += 1
    if okm and gl_terms:
        bools, err = C.run_cases(PID + "_gl", PREAMBLE, gl_terms, "check_genlog", shard=300)
        if err:
            out.add_broken("correspondence:C16-genlog(coqc)", err)
        else:
            bad = [kc for ok, kc in zip(bools, gl_kept) if not ok]
            if bad:
                pl, r = min(bad, key=lambda kc: len(kc[0]))
                model = C.eval_term(PID + "_gl", PREAMBLE, f"gen_log {coq_plog(pl)}")
                out.add_broken("correspondence:C16-genlog",
                               f"{len(bad)} disagreements; smallest: plog={json.dumps(pl)} impl={json.dumps(r)} model={model[-1200:]}")

    tm["genlog_s"] = round(time.time() - t0, 1)
    out.coverage.update({
        "timings": tm,
        "evaluations": len(terms) + len(gl_terms),
        "distinct_nontrivial": nontrivial,
        "rule": "e2e: distinct by hash of the Coq case term (configuration, option form, verdict vectors, texts, observation); "
                "non-trivial = at least one rail action was called under an explicit `rails` option or without options; "
                "genlog: distinct processing logs with >= 4 entries",
        "samples": [{"case": c, "reply": o.get("reply"), "calls": o["calls"], "rails": o.get("rails")} for c, o in kept[:3]],
        "input_distribution": {**dist, "corpus_cases": corpus_n, "genlog": gl_hist,
                               "conversations": len(convs), "conversation_turns": n_conv_turns,
                               "shapes": "n_in,n_out,n_ret in 0..2 (3 in thorough) x {general, flows, flows_predef}"},
        "traces_validated_against_impl": len(terms),
        "correspondence_disagreements": len(disagree),
        "oracle_violations": len(out.findings),
        "out_of_table_observations": observations,
        "event_cap_observation": {**cap_obs, "cap_reached": cap_obs["cap_reached"][:5], "cap_reached_count": len(cap_obs["cap_reached"])},
    })
    out.notes.append({"out_of_table": observations})
    out.assumptions += [
        "rail actions and the LLM are arbitrary (Section variables); rails have the self-check shape "
        "($allowed = execute a(text=...); if not $allowed: bot refuse to respond; stop), a rewrite is a context update of the action",
        "the v1 interpreter's execution of llm_flows.co is modelled as the sequence of processing-log entries it produces "
        "(hand-written from the flows, validated entry by entry by the correspondence; not translated from the .co file)",
        "timing fields, token statistics, return values and action parameters of the log are out of scope",
        "inputs outside the documented table (assistant-last transcript with dialog enabled; output enabled with dialog "
        "disabled and no supplied bot message) are excluded from C16_table and reported in coverage.out_of_table_observations",
        "single generate calls (history cache emptied between cases) plus 3-turn conversations on one instance through the "
        "message-history API with per-turn options; the model of a turn is memoryless, so every turn of a conversation "
        "is compared with the same single-turn model and judged by the same table oracle",
    ]
    if tier == "thorough" and b["ok"]:
        ok, log = C.coqchk(PID, b["files"])
        out.coverage["coqchk"] = "ok" if ok else "FAILED"
        if not ok:
            out.add_broken("coqchk", log)
    return C.finish(out)
