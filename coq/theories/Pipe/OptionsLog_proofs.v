(* Pipe/OptionsLog_proofs.v - the log computed by compute_generation_log (Pipe/GenLog.v) from the
   processing log of a turn (Pipe/Options.v) lists exactly the rails that ran, in order, and sets
   `stop` on exactly the rail that blocked.  For every configuration whose user flow names do not
   collide with the system flow names, every verdict function, option value and text. *)
From Coq Require Import String List Bool Arith.
From NG Require Import Gen.C16Consts Pipe.GenLog Pipe.GenLog_proofs Pipe.Options.
Import ListNotations.
Open Scope string_scope.
Open Scope list_scope.

Arguments output_phase : simpl never.
Arguments dialog_phase : simpl never.
Arguments turn : simpl never.
Arguments refusal_seg : simpl never.
Arguments genbot_seg : simpl never.
Arguments ce : simpl never.
Arguments act_seg : simpl never.
Arguments utter : simpl never.
Arguments ret_cl : simpl never.
Arguments ret_seg : simpl never.
Arguments rail_pre : simpl never.
Arguments g_event : simpl never.
Arguments g_step : simpl never.

Definition user_flow_ok (f : string) : Prop :=
  mem f ignored_flows = false /\ mem f generation_flows = false /\ String.eqb f retype_name = false.

Definition rail_ok (r : rail) : Prop := String.eqb (r_flow r) retype_name = false.

Definition wf_cfg (c : cfg) : Prop :=
  Forall rail_ok (c_in c) /\ Forall rail_ok (c_out c) /\ user_flow_ok (c_flow c).

(* (type after the re-typing pass, name) *)
Definition tn' (r : arail) : string * string := (ar_type (retype r), ar_name r).
Definition nostop (r : arail) : Prop := ar_stop r = false.

Definition calm (rails : list arail) (a : bool) : Prop :=
  a = true -> exists h t, rails = h :: t /\ mem (ar_type h) stop_types = false.
Definition idle (rails : list arail) (a : bool) : Prop := a = false.

Lemma calm_nonempty : forall rails a, calm rails a -> a = true -> rails <> [].
Proof. intros rails a H Ha. destruct (H Ha) as (h & t & -> & _). discriminate. Qed.

Lemma idle_calm : forall rails a, idle rails a -> calm rails a.
Proof. unfold idle, calm. intros rails a -> H. discriminate. Qed.

Lemma ce_is_ce_seg : forall flow ty arg, ce flow ty arg = ce_seg flow ty arg.
Proof. reflexivity. Qed.

Lemma plain_names :
  plain_event "UtteranceUserActionFinished" /\ plain_event "StartInputRails" /\ plain_event "InputRailsFinished" /\
  plain_event "UserMessage" /\ plain_event "BotMessage" /\ plain_event "StartUtteranceBotAction" /\
  plain_event "Listen" /\ plain_event "StartOutputRails" /\ plain_event "OutputRailsFinished" /\
  plain_event "BotIntent" /\ plain_event "UserIntent".
Proof. repeat split; reflexivity. Qed.

Lemma ignored_names :
  mem "process user input" ignored_flows = true /\ mem "run input rails" ignored_flows = true /\
  mem "run dialog rails" ignored_flows = true /\ mem "process bot message" ignored_flows = true /\
  mem "run output rails" ignored_flows = true.
Proof. repeat split; reflexivity. Qed.

(* ce with an ignored flow and a plain event is a no-op *)
Lemma ce_neutral : forall flow ty arg rails a,
  mem flow ignored_flows = true -> plain_event ty -> (a = true -> rails <> []) ->
  g_run (ce flow ty arg) (mkG rails a None) = Some (mkG rails a None).
Proof.
  intros flow ty arg rails a Hig Hp Hne.
  rewrite ce_is_ce_seg, g_run_ce; [apply g_event_plain; exact Hp|exact Hig|exact Hne].
Qed.

Lemma plain_neutral : forall ty arg st, plain_event ty -> g_run [PEvent ty arg] st = Some st.
Proof. intros ty arg st Hp. cbn [g_run g_entry]. rewrite g_event_plain; [reflexivity|exact Hp]. Qed.

(* --- the tail of an action segment on the current rail --- *)
Lemma add_llm_sig : forall t r, sig (add_llm t r) = sig r.
Proof. intros t r. unfold add_llm. destruct (ar_actions r); reflexivity. Qed.

Lemma llm_tail : forall tasks r rest,
  exists r', g_run (map PLlm tasks) (mkG (r :: rest) true (Some 0)) = Some (mkG (r' :: rest) true (Some 0))
             /\ sig r' = sig r.
Proof.
  induction tasks as [|t tasks IH]; intros r rest.
  - exists r. split; reflexivity.
  - cbn [map g_run g_entry g_llm g_action g_rails g_active upd_nth].
    destruct (IH (add_llm t r) rest) as (r' & Hrun & Hs).
    exists r'. split; [exact Hrun|]. rewrite Hs. apply add_llm_sig.
Qed.

Lemma act_seg_stays : forall flow action tasks r rest,
  stays r flow -> (tasks = [] \/ mem action ignored_actions = false) ->
  exists r', g_run (act_seg flow action tasks) (mkG (r :: rest) true None) = Some (mkG (r' :: rest) true None)
             /\ sig r' = sig r.
Proof.
  intros flow action tasks r rest S Hc. unfold act_seg.
  change (([PStep flow [SAct action]; PEvent "StartInternalSystemAction" action] ++ map PLlm tasks
          ++ [PEvent "InternalSystemActionFinished" action])%list)
    with (PStep flow [SAct action] :: PEvent "StartInternalSystemAction" action :: (map PLlm tasks
          ++ [PEvent "InternalSystemActionFinished" action])%list).
  cbn [g_run g_entry].
  rewrite (g_step_stays flow [SAct action] r rest None S).
  rewrite g_event_start_action.
  destruct (mem action ignored_actions) eqn:Hig.
  - destruct Hc as [->|Hc]; [|discriminate].
    cbn [map app g_run g_entry]. rewrite g_event_action_finished, Hig.
    eexists. split; [reflexivity|]. apply add_items_sig.
  - cbn [g_active g_rails upd_nth].
    rewrite g_run_app.
    destruct (llm_tail tasks (add_action action (add_items [SAct action] r)) rest) as (r' & Hrun & Hs).
    rewrite Hrun. cbn [g_run g_entry]. rewrite g_event_action_finished, Hig. cbn [g_action g_rails g_active].
    exists r'. split; [reflexivity|].
    rewrite Hs, add_action_sig. apply add_items_sig.
Qed.

Lemma intent_stays : forall flow i r rest,
  stays r flow ->
  g_run [PStep flow [SIntent i]] (mkG (r :: rest) true None)
  = Some (mkG (add_items [SIntent i] r :: rest) true None).
Proof. intros. cbn [g_run g_entry]. rewrite g_step_stays; [reflexivity|assumption]. Qed.

(* --- one category of rails --- *)
Definition rail_type_ok (K : kind) (r : arail) : Prop := ar_type r = ktype K.

Lemma ktype_not_dialog : forall K, String.eqb (ktype K) "dialog" = false.
Proof. destruct K; reflexivity. Qed.
Lemma ktype_stop : forall K, mem (ktype K) stop_types = true.
Proof. destruct K; reflexivity. Qed.

Lemma start_rail_event : forall K f rails a,
  g_event (start_ev K) f (mkG rails a None) = Some (mkG (new_rail (ktype K) f :: rails) true None).
Proof. destruct K; reflexivity. Qed.

Lemma fin_rail_event : forall K f r rest,
  g_event (fin_ev K) f (mkG (r :: rest) true None) = Some (mkG (r :: rest) false None).
Proof. destruct K; reflexivity. Qed.

Lemma loop_flow_ignored : forall K, mem (loop_flow K) ignored_flows = true.
Proof. destruct K; reflexivity. Qed.

Lemma retype_not_gui : forall r, String.eqb (ar_name r) retype_name = false -> retype r = r.
Proof. intros r H. unfold retype. rewrite H. reflexivity. Qed.

Section Rails.
  Variables (K : kind) (vf : nat -> string -> verdict).

  (* from any state whose "active" flag implies a non-empty rail list *)
  Lemma run_rails_log : forall rs k t rails0 a0,
    (a0 = true -> rails0 <> []) ->
    Forall rail_ok rs ->
    let S := run_rails K vf k rs t in
    exists done,
      g_run (s_log S) (mkG rails0 a0 None)
      = Some (mkG (done ++ rails0)
                  (match s_res S with Blocked _ => true | Passed _ => match rs with [] => a0 | _ => false end end) None)
      /\ map tn' (rev done) = s_ran S
      /\ Forall nostop done
      /\ Forall (rail_type_ok K) done
      /\ (forall f, s_res S = Blocked f -> exists hd tl, done = hd :: tl /\ ar_name hd = f).
  Proof.
    induction rs as [|r rs IH]; intros k t rails0 a0 Hne Hok S; subst S.
    - exists []. cbn. repeat split; try constructor. intros f H. discriminate.
    - inversion Hok as [|r' rs' Hr Hrs]; subst.
      cbn [run_rails].
      (* the common prefix: open the rail, run its action *)
      assert (Hpre : exists r1, g_run (rail_pre K r) (mkG rails0 a0 None) = Some (mkG (r1 :: rails0) true None)
                                /\ sig r1 = sig (new_rail (ktype K) (r_flow r))).
      { unfold rail_pre. rewrite g_run_app.
        rewrite ce_is_ce_seg, g_run_ce; [|apply loop_flow_ignored|exact Hne].
        rewrite start_rail_event.
        apply act_seg_stays; [|left; reflexivity].
        apply stays_non_dialog. apply ktype_not_dialog. }
      destruct Hpre as (r1 & Hpre & Hs1).
      assert (Htn1 : tn' r1 = (ktype K, r_flow r)).
      { unfold tn'. rewrite retype_not_gui.
        - rewrite (sig_type _ _ Hs1), (sig_name _ _ Hs1). reflexivity.
        - rewrite (sig_name _ _ Hs1). exact Hr. }
      assert (Hst1 : nostop r1) by (unfold nostop; rewrite (sig_stop _ _ Hs1); reflexivity).
      assert (Hty1 : rail_type_ok K r1) by (unfold rail_type_ok; rewrite (sig_type _ _ Hs1); reflexivity).
      assert (Hcont : forall t',
        exists done,
          g_run (rail_pre K r ++ ce (loop_flow K) (fin_ev K) (r_flow r) ++ s_log (run_rails K vf (S k) rs t'))
                (mkG rails0 a0 None)
          = Some (mkG (done ++ rails0) (match s_res (run_rails K vf (S k) rs t') with Blocked _ => true | Passed _ => false end) None)
          /\ map tn' (rev done) = (ktype K, r_flow r) :: s_ran (run_rails K vf (S k) rs t')
          /\ Forall nostop done /\ Forall (rail_type_ok K) done
          /\ (forall f, s_res (run_rails K vf (S k) rs t') = Blocked f -> exists hd tl, done = hd :: tl /\ ar_name hd = f)).
      { intros t'.
        destruct (IH (S k) t' (r1 :: rails0) false) as (done & Hrun & Hran & Hns & Hty & Hbl);
          [discriminate|exact Hrs|].
        exists (done ++ [r1]).
        rewrite g_run_app, Hpre, g_run_app.
        rewrite ce_is_ce_seg, g_run_ce; [|apply loop_flow_ignored|discriminate].
        rewrite fin_rail_event. rewrite Hrun.
        split.
        { rewrite <- app_assoc. cbn [app].
          destruct (s_res (run_rails K vf (S k) rs t')); [destruct rs|]; reflexivity. }
        split.
        { rewrite rev_app_distr. cbn [rev app map]. rewrite Htn1, Hran. reflexivity. }
        split; [apply Forall_app; split; [exact Hns|constructor; [exact Hst1|constructor]]|].
        split; [apply Forall_app; split; [exact Hty|constructor; [exact Hty1|constructor]]|].
        intros f Hf. destruct (Hbl f Hf) as (hd & tl & -> & Hn).
        exists hd, (tl ++ [r1]). split; [reflexivity|exact Hn]. }
      destruct (vf k t) eqn:E.
      + destruct (Hcont t) as (done & H1 & H2 & H3 & H4 & H5).
        exists done. cbn [s_log s_ran s_res]. repeat split; assumption.
      + exists [r1]. cbn [s_log s_ran s_res app rev map].
        split; [exact Hpre|]. split; [rewrite Htn1; reflexivity|].
        split; [constructor; [exact Hst1|constructor]|].
        split; [constructor; [exact Hty1|constructor]|].
        intros f Hf. inversion Hf; subst. exists r1, []. split; [reflexivity|].
        rewrite (sig_name _ _ Hs1). reflexivity.
      + destruct (Hcont t0) as (done & H1 & H2 & H3 & H4 & H5).
        exists done. cbn [s_log s_ran s_res]. repeat split; assumption.
  Qed.
End Rails.

Lemma blocked_flow_ok : forall K vf rs k t f,
  Forall rail_ok rs -> s_res (run_rails K vf k rs t) = Blocked f -> String.eqb f retype_name = false.
Proof.
  induction rs as [|r rs IH]; intros k t f Hok E; cbn [run_rails] in E; [discriminate|].
  inversion Hok as [|? ? Hr Hrs]; subst.
  destruct (vf k t); cbn [s_res] in E.
  - eapply IH; eauto.
  - inversion E; subst. exact Hr.
  - eapply IH; eauto.
Qed.

(* ------------------------------------------------------------------------------------ *)
(* phases *)

Definition phase_spec (P : list arail -> bool -> Prop) (o : outcome) : Prop :=
  forall rails0 a0, P rails0 a0 -> calm rails0 a0 ->
  exists done a1,
    g_run (plog o) (mkG rails0 a0 None) = Some (mkG (done ++ rails0) a1 None) /\
    map tn' (rev done) = ran o /\
    match blocked o with
    | None => Forall nostop done /\ calm (done ++ rails0) a1
    | Some f => a1 = true /\ exists hd tl, done = hd :: tl /\ ar_name hd = f /\
                                           mem (ar_type hd) stop_types = true /\ nostop hd /\ Forall nostop tl /\
                                           String.eqb f retype_name = false
    end.

Definition prefix_spec (P Q : list arail -> bool -> Prop) (l : list pentry) (rn : list (string * string)) : Prop :=
  forall rails0 a0, P rails0 a0 -> calm rails0 a0 ->
  exists done a1,
    g_run l (mkG rails0 a0 None) = Some (mkG (done ++ rails0) a1 None) /\
    map tn' (rev done) = rn /\ Forall nostop done /\ calm (done ++ rails0) a1 /\ Q (done ++ rails0) a1.

Lemma prepend_spec : forall P Q l cs ts rn o,
  prefix_spec P Q l rn -> phase_spec Q o -> phase_spec P (prepend l cs ts rn o).
Proof.
  intros P Q l cs ts rn o Hl Ho rails0 a0 HP Hc.
  destruct (Hl rails0 a0 HP Hc) as (d1 & a1 & Hrun1 & Hrn1 & Hns1 & Hc1 & HQ).
  destruct (Ho (d1 ++ rails0) a1 HQ Hc1) as (d2 & a2 & Hrun2 & Hrn2 & Hb).
  exists (d2 ++ d1), a2. unfold prepend. cbn [plog ran blocked].
  rewrite g_run_app, Hrun1, Hrun2, <- app_assoc.
  split; [reflexivity|].
  split; [rewrite rev_app_distr, map_app, Hrn1, Hrn2; reflexivity|].
  destruct (blocked o) as [f|].
  - destruct Hb as (Ha2 & hd & tl & -> & Hn & Hm & Hs & Htl & Hg).
    split; [exact Ha2|]. exists hd, (tl ++ d1). repeat split; try assumption.
    apply Forall_app; split; assumption.
  - destruct Hb as (Hns2 & Hc2). split; [apply Forall_app; split; assumption|].
    exact Hc2.
Qed.

Section Phases.
  Variables (iv ov : nat -> string -> verdict) (lt rf pt : string) (c : cfg) (g : option ropts).
  Hypothesis WF : wf_cfg c.

  (* generate bot message, running on the current (non-dialog) rail *)
  Lemma ret_seg_stays : forall r rest,
    String.eqb (ar_type r) "dialog" = false ->
    exists r', g_run (ret_seg c g) (mkG (r :: rest) true None) = Some (mkG (r' :: rest) true None) /\ sig r' = sig r.
  Proof.
    intros r rest Hnd. unfold ret_seg. destruct (ret_active c g); [|exists r; split; reflexivity].
    generalize dependent r. induction (c_ret c) as [|x xs IH]; intros r Hnd.
    - exists r. split; reflexivity.
    - cbn [flat_map]. rewrite g_run_app.
      destruct (act_seg_stays (r_flow x) (r_action x) [] r rest) as (r1 & Hrun & Hs1);
        [apply stays_non_dialog; exact Hnd|left; reflexivity|].
      rewrite Hrun.
      destruct (IH r1) as (r2 & Hrun2 & Hs2); [rewrite (sig_type _ _ Hs1); exact Hnd|].
      exists r2. split; [exact Hrun2|]. rewrite Hs2. exact Hs1.
  Qed.

  Lemma genbot_seg_stays : forall uses r rest,
    String.eqb (ar_type r) "dialog" = false ->
    exists r', g_run (genbot_seg c g uses) (mkG (r :: rest) true None) = Some (mkG (r' :: rest) true None) /\ sig r' = sig r.
  Proof.
    intros uses r rest Hnd. unfold genbot_seg.
    destruct (act_seg_stays "generate bot message" "retrieve_relevant_chunks" [] r rest) as (r1 & H1 & S1);
      [apply stays_non_dialog; exact Hnd|left; reflexivity|].
    rewrite g_run_app, H1.
    destruct (ret_seg_stays r1 rest) as (r2 & H2 & S2); [rewrite (sig_type _ _ S1); exact Hnd|].
    rewrite g_run_app, H2.
    destruct (act_seg_stays "generate bot message" "generate_bot_message"
                            (if uses then ["generate_bot_message"] else []) r2 rest) as (r3 & H3 & S3);
      [apply stays_non_dialog; rewrite (sig_type _ _ S2), (sig_type _ _ S1); exact Hnd|right; reflexivity|].
    rewrite g_run_app, H3.
    rewrite plain_neutral; [|apply plain_names].
    exists r3. split; [reflexivity|]. rewrite S3, S2. exact S1.
  Qed.

  (* `bot refuse to respond` (+ `stop`) inside the blocking rail *)
  Lemma refusal_log : forall f r rest,
    String.eqb (ar_type r) "dialog" = false ->
    exists r', g_run (refusal_seg c g f) (mkG (r :: rest) true None) = Some (mkG (r' :: rest) true None) /\ sig r' = sig r.
  Proof.
    intros f r rest Hnd. unfold refusal_seg.
    assert (Hst : forall x, sig x = sig r -> stays x f).
    { intros x Hx. apply stays_non_dialog. rewrite (sig_type _ _ Hx). exact Hnd. }
    change ([PStep f [SIntent "refuse to respond"]; PEvent "BotIntent" ""] ++ ?X)
      with ([PStep f [SIntent "refuse to respond"]] ++ [PEvent "BotIntent" ""] ++ X).
    rewrite g_run_app, intent_stays; [|apply Hst; reflexivity].
    rewrite g_run_app, plain_neutral; [|apply plain_names].
    set (r0 := add_items [SIntent "refuse to respond"] r).
    assert (S0 : sig r0 = sig r) by apply add_items_sig.
    destruct (genbot_seg_stays false r0 rest) as (r1 & H1 & S1); [rewrite (sig_type _ _ S0); exact Hnd|].
    rewrite g_run_app, H1.
    rewrite g_run_app, ce_neutral; [|apply ignored_names|apply plain_names|discriminate].
    destruct (ret_active c g).
    - cbn [app]. rewrite plain_neutral; [|apply plain_names].
      exists r1. split; [reflexivity|]. rewrite S1. exact S0.
    - change ([PStep f [SIntent "stop"]; PEvent "BotIntent" ""] ++ [PEvent "Listen" ""])
        with ([PStep f [SIntent "stop"]] ++ [PEvent "BotIntent" ""] ++ [PEvent "Listen" ""]).
      rewrite g_run_app, intent_stays; [|apply Hst; rewrite S1; exact S0].
      rewrite g_run_app, plain_neutral; [|apply plain_names].
      rewrite plain_neutral; [|apply plain_names].
      eexists. split; [reflexivity|]. rewrite add_items_sig, S1. exact S0.
  Qed.

  Lemma utter_neutral : forall rails a, (a = true -> rails <> []) ->
    g_run utter (mkG rails a None) = Some (mkG rails a None).
  Proof.
    intros rails a Hne. unfold utter.
    rewrite g_run_app, ce_neutral; [|apply ignored_names|apply plain_names|exact Hne].
    apply plain_neutral. apply plain_names.
  Qed.

  Lemma stop_type_not_dialog : forall r K, rail_type_ok K r -> String.eqb (ar_type r) "dialog" = false.
  Proof. intros r K H. rewrite H. apply ktype_not_dialog. Qed.

  (* a category of rails followed by what the caller does on pass / the refusal on block *)
  Lemma rails_then : forall K vf rs k t pre post_pass rails0 a0,
    rs <> [] -> Forall rail_ok rs -> calm rails0 a0 ->
    g_run pre (mkG rails0 a0 None) = Some (mkG rails0 a0 None) ->
    (forall rails, g_run post_pass (mkG rails false None) = Some (mkG rails false None)) ->
    let S := run_rails K vf k rs t in
    exists done a1,
      g_run (pre ++ s_log S ++ match s_res S with Passed _ => post_pass | Blocked f => refusal_seg c g f end)
            (mkG rails0 a0 None) = Some (mkG (done ++ rails0) a1 None) /\
      map tn' (rev done) = s_ran S /\
      match s_res S with
      | Passed _ => Forall nostop done /\ a1 = false
      | Blocked f => a1 = true /\ exists hd tl, done = hd :: tl /\ ar_name hd = f /\
                                                mem (ar_type hd) stop_types = true /\ nostop hd /\ Forall nostop tl /\
                                                String.eqb f retype_name = false
      end.
  Proof.
    intros K vf rs k t pre post_pass rails0 a0 Hne Hok Hc Hpre Hpost S.
    destruct (run_rails_log K vf rs k t rails0 a0 (calm_nonempty _ _ Hc) Hok)
      as (done & Hrun & Hran & Hns & Hty & Hbl).
    fold S in Hrun, Hran, Hbl.
    rewrite g_run_app, Hpre, g_run_app, Hrun.
    destruct (s_res S) as [t'|f] eqn:E.
    - exists done, false. destruct rs; [congruence|].
      rewrite Hpost. repeat split; assumption.
    - destruct (Hbl f eq_refl) as (hd & tl & -> & Hn).
      destruct (proj1 (Forall_cons_iff _ _ _) Hns) as [Hnh Hnt].
      destruct (proj1 (Forall_cons_iff _ _ _) Hty) as [Hth Htt].
      cbn [app].
      destruct (refusal_log f hd (tl ++ rails0) (stop_type_not_dialog _ _ Hth)) as (hd' & Hr & Hs).
      rewrite Hr. exists (hd' :: tl), true.
      split; [reflexivity|].
      split.
      { rewrite <- Hran. cbn [rev]. rewrite !map_app. cbn [map]. f_equal. f_equal.
        unfold tn'. unfold retype. rewrite (sig_name _ _ Hs).
        assert (Hg : String.eqb (ar_name hd) retype_name = false).
        { rewrite Hn. eapply blocked_flow_ok; [exact Hok|exact E]. }
        rewrite Hg. rewrite (sig_type _ _ Hs). reflexivity. }
      split; [reflexivity|].
      exists hd', tl. split; [reflexivity|].
      split; [rewrite (sig_name _ _ Hs); exact Hn|].
      split; [rewrite (sig_type _ _ Hs), Hth; apply ktype_stop|].
      split; [unfold nostop; rewrite (sig_stop _ _ Hs); exact Hnh|].
      split; [exact Hnt|]. eapply blocked_flow_ok; [exact Hok|exact E].
  Qed.
End Phases.

Lemma calm_nil_idle : forall rails a, calm rails a -> a = true -> rails <> [].
Proof. exact calm_nonempty. Qed.

Lemma g_step_opens : forall flow items r rest,
  String.eqb (ar_type r) "dialog" = true -> String.eqb (ar_name r) flow = false -> mem flow ignored_flows = false ->
  g_step flow items (mkG (r :: rest) true None)
  = Some (mkG (add_items items (new_rail (rail_type_of_flow flow) flow) :: r :: rest) true None).
Proof.
  intros flow items r rest Ht Hn Hig. unfold g_step. cbn [g_active g_rails].
  rewrite Ht, Hn, Hig. reflexivity.
Qed.

Section Phases2.
  Variables (iv ov : nat -> string -> verdict) (lt rf pt : string) (c : cfg) (g : option ropts).
  Hypothesis WF : wf_cfg c.

  Lemma out_active_nonempty : out_active c g = true -> c_out c <> [].
  Proof. unfold out_active. destruct (c_out c); [discriminate|intros _; discriminate]. Qed.
  Lemma in_active_nonempty : in_active c g = true -> c_in c <> [].
  Proof. unfold in_active. destruct (c_in c); [discriminate|intros _; discriminate]. Qed.

  Lemma neutral_phase : forall P l rp,
    (forall rails a, (a = true -> rails <> []) -> g_run l (mkG rails a None) = Some (mkG rails a None)) ->
    phase_spec P (mkOut l [] [] [] None rp).
  Proof.
    intros P l rp H rails0 a0 _ Hc. exists [], a0. cbn [plog ran blocked app rev map].
    rewrite H; [|apply calm_nonempty; exact Hc]. repeat split; [constructor|exact Hc].
  Qed.

  Lemma output_phase_spec : forall b skip, phase_spec calm (output_phase ov rf c g b skip).
  Proof.
    intros b skip. unfold output_phase.
    destruct skip; [apply neutral_phase; apply utter_neutral|].
    destruct (out_active c g) eqn:Ha; [|apply neutral_phase; apply utter_neutral].
    intros rails0 a0 _ Hc.
    destruct WF as (_ & Hout & _).
    pose proof (rails_then c g KOut ov (c_out c) 0 b
                  (ce "process bot message" "StartOutputRails" "")
                  (ce "process bot message" "OutputRailsFinished" "" ++ utter)
                  rails0 a0 (out_active_nonempty Ha) Hout Hc) as H.
    cbv zeta in H.
    destruct H as (done & a1 & Hrun & Hran & Hres).
    { apply ce_neutral; [apply ignored_names|apply plain_names|apply calm_nonempty; exact Hc]. }
    { intros rails. rewrite g_run_app, ce_neutral; [|apply ignored_names|apply plain_names|discriminate].
      apply utter_neutral. discriminate. }
    destruct (s_res (run_rails KOut ov 0 (c_out c) b)) as [t|f] eqn:E; cbn [plog ran blocked].
    - exists done, a1. destruct Hres as (Hns & ->).
      split; [exact Hrun|]. split; [exact Hran|]. split; [exact Hns|]. intros Hx. discriminate.
    - exists done, a1. split; [exact Hrun|]. split; [exact Hran|]. exact Hres.
  Qed.

  Definition gui_rail (task : string) : arail :=
    mkR "dialog" "generate user intent" ["execute generate_user_intent"] [mkX "generate_user_intent" [task]] false.

  Lemma gui_seg_log : forall task rails0,
    g_run (act_seg "generate user intent" "generate_user_intent" [task]) (mkG rails0 false None)
    = Some (mkG (gui_rail task :: rails0) true None).
  Proof. reflexivity. Qed.

  Lemma genbot_seg_opens : forall uses r rest,
    String.eqb (ar_type r) "dialog" = true -> String.eqb (ar_name r) "generate bot message" = false ->
    exists r', g_run (genbot_seg c g uses) (mkG (r :: rest) true None) = Some (mkG (r' :: r :: rest) true None)
               /\ sig r' = ("generation", "generate bot message", false).
  Proof.
    intros uses r rest Ht Hn. unfold genbot_seg.
    change (act_seg "generate bot message" "retrieve_relevant_chunks" [])
      with ([PStep "generate bot message" [SAct "retrieve_relevant_chunks"]]
            ++ [PEvent "StartInternalSystemAction" "retrieve_relevant_chunks";
                PEvent "InternalSystemActionFinished" "retrieve_relevant_chunks"]).
    rewrite <- !app_assoc. rewrite g_run_app. cbn [g_run g_entry].
    rewrite g_step_opens; [|exact Ht|exact Hn|reflexivity].
    set (r0 := add_items [SAct "retrieve_relevant_chunks"] (new_rail (rail_type_of_flow "generate bot message") "generate bot message")).
    assert (S0 : sig r0 = ("generation", "generate bot message", false)) by reflexivity.
    rewrite g_run_app.
    assert (H1 : g_run [PEvent "StartInternalSystemAction" "retrieve_relevant_chunks";
                        PEvent "InternalSystemActionFinished" "retrieve_relevant_chunks"] (mkG (r0 :: r :: rest) true None)
                 = Some (mkG (add_action "retrieve_relevant_chunks" r0 :: r :: rest) true None)) by reflexivity.
    rewrite H1.
    set (r1 := add_action "retrieve_relevant_chunks" r0).
    assert (S1 : sig r1 = sig r0) by reflexivity.
    assert (Hnd : forall x, sig x = sig r0 -> String.eqb (ar_type x) "dialog" = false).
    { intros x Hx. rewrite (sig_type _ _ Hx). reflexivity. }
    destruct (ret_seg_stays c g r1 (r :: rest) (Hnd _ S1)) as (r2 & H2 & S2).
    rewrite g_run_app, H2.
    destruct (act_seg_stays "generate bot message" "generate_bot_message"
                            (if uses then ["generate_bot_message"] else []) r2 (r :: rest)) as (r3 & H3 & S3);
      [apply stays_non_dialog; apply Hnd; rewrite S2; exact S1|right; reflexivity|].
    rewrite g_run_app, H3.
    rewrite plain_neutral; [|apply plain_names].
    exists r3. split; [reflexivity|]. rewrite S3, S2, S1. exact S0.
  Qed.

  Lemma tn'_of_sig : forall r, String.eqb (ar_name r) retype_name = false -> tn' r = (ar_type r, ar_name r).
  Proof. intros r H. unfold tn'. rewrite retype_not_gui; [reflexivity|exact H]. Qed.

  Lemma dialog_phase_spec : forall t bot, phase_spec idle (dialog_phase ov lt rf pt c g t bot).
  Proof.
    intros t bot. unfold dialog_phase.
    destruct WF as (_ & _ & (Hig & Hgen & Hgui)).
    destruct (dialog_disabled g).
    - destruct (output_off g).
      + apply neutral_phase. intros rails a Hne.
        rewrite g_run_app, ce_neutral; [|apply ignored_names|apply plain_names|exact Hne].
        apply plain_neutral. apply plain_names.
      + destruct bot as [b|].
        * eapply prepend_spec; [|apply output_phase_spec].
          intros rails0 a0 Hi Hc. exists [], a0. cbn [app rev map].
          rewrite ce_neutral; [|apply ignored_names|apply plain_names|apply calm_nonempty; exact Hc].
          repeat split; [constructor|exact Hc|exact Hc].
        * apply neutral_phase. intros rails a Hne.
          apply ce_neutral; [apply ignored_names|apply plain_names|exact Hne].
    - destruct (c_dmode c) as [|predefined].
      + eapply prepend_spec; [|apply output_phase_spec].
        intros rails0 a0 Hi Hc. unfold idle in Hi. subst a0.
        exists [gui_rail "general"], true.
        rewrite g_run_app, gui_seg_log, plain_neutral; [|apply plain_names].
        split; [reflexivity|]. split; [reflexivity|].
        split; [constructor; [reflexivity|constructor]|].
        split; intros _; exists (gui_rail "general"), rails0; split; reflexivity.
      + eapply prepend_spec; [|apply output_phase_spec].
        intros rails0 a0 Hi Hc. unfold idle in Hi. subst a0.
        rewrite g_run_app, gui_seg_log.
        change ([PEvent "UserIntent" ""; PStep (c_flow c) [SIntent (c_bot_intent c)]; PEvent "BotIntent" ""])
          with ([PEvent "UserIntent" ""] ++ [PStep (c_flow c) [SIntent (c_bot_intent c)]] ++ [PEvent "BotIntent" ""]).
        rewrite <- !app_assoc.
        rewrite g_run_app, plain_neutral; [|apply plain_names].
        rewrite g_run_app. cbn [g_run g_entry].
        assert (Hne : String.eqb "generate user intent" (c_flow c) = false).
        { rewrite String.eqb_sym. exact Hgui. }
        rewrite g_step_opens; [|reflexivity|exact Hne|exact Hig].
        assert (Hty : rail_type_of_flow (c_flow c) = "dialog").
        { unfold rail_type_of_flow. rewrite Hgen. reflexivity. }
        rewrite Hty.
        set (rf1 := add_items [SIntent (c_bot_intent c)] (new_rail "dialog" (c_flow c))).
        rewrite g_run_app, plain_neutral; [|apply plain_names].
        assert (Hgb : String.eqb (c_flow c) "generate bot message" = false).
        { unfold mem in Hgen. cbn [generation_flows existsb] in Hgen.
          apply orb_false_iff in Hgen. tauto. }
        destruct (genbot_seg_opens (negb predefined) rf1 (gui_rail "generate_user_intent" :: rails0)) as (r3 & H3 & S3);
          [reflexivity|exact Hgb|].
        rewrite H3.
        assert (Ht3 : ar_type r3 = "generation") by exact (f_equal (fun x => fst (fst x)) S3).
        assert (Hn3 : ar_name r3 = "generate bot message") by exact (f_equal (fun x => snd (fst x)) S3).
        assert (Hs3 : ar_stop r3 = false) by exact (f_equal snd S3).
        exists [r3; rf1; gui_rail "generate_user_intent"], true.
        split; [reflexivity|].
        split.
        { cbn [rev app map].
          assert (E1 : tn' (gui_rail "generate_user_intent") = ("dialog", "generate user intent")) by reflexivity.
          assert (E2 : tn' rf1 = ("dialog", c_flow c)) by (rewrite tn'_of_sig; [reflexivity|exact Hgui]).
          assert (E3 : tn' r3 = ("generation", "generate bot message")).
          { rewrite tn'_of_sig; [|rewrite Hn3; reflexivity].
            rewrite Ht3, Hn3. reflexivity. }
          rewrite E1, E2, E3. reflexivity. }
        split.
        { constructor; [exact Hs3|].
          constructor; [reflexivity|]. constructor; [reflexivity|constructor]. }
        split; intros _; exists r3, (rf1 :: gui_rail "generate_user_intent" :: rails0);
          (split; [reflexivity|rewrite Ht3; reflexivity]).
  Qed.

  Lemma turn_spec : forall user bot, phase_spec idle (turn iv ov lt rf pt c g user bot).
  Proof.
    intros user bot. unfold turn.
    destruct WF as (Hin & _ & _).
    destruct (in_active c g) eqn:Ha.
    - assert (Hgen : forall rails0 a0, calm rails0 a0 -> _) by
        (intros rails0 a0 Hc;
         exact (rails_then c g KIn iv (c_in c) 0 user
                  ([PEvent "UtteranceUserActionFinished" ""] ++ ce "process user input" "StartInputRails" "")
                  (ce "process user input" "InputRailsFinished" "" ++ ce "process user input" "UserMessage" "")
                  rails0 a0 (in_active_nonempty Ha) Hin Hc)).
      cbv zeta in Hgen.
      assert (Hpre : forall rails0 a0, calm rails0 a0 ->
                g_run ([PEvent "UtteranceUserActionFinished" ""] ++ ce "process user input" "StartInputRails" "")
                      (mkG rails0 a0 None) = Some (mkG rails0 a0 None)).
      { intros rails0 a0 Hc. rewrite g_run_app, plain_neutral; [|apply plain_names].
        apply ce_neutral; [apply ignored_names|apply plain_names|apply calm_nonempty; exact Hc]. }
      assert (Hpost : forall rails, g_run (ce "process user input" "InputRailsFinished" "" ++ ce "process user input" "UserMessage" "")
                                          (mkG rails false None) = Some (mkG rails false None)).
      { intros rails. rewrite g_run_app, ce_neutral; [|apply ignored_names|apply plain_names|discriminate].
        apply ce_neutral; [apply ignored_names|apply plain_names|discriminate]. }
      destruct (s_res (run_rails KIn iv 0 (c_in c) user)) as [t|f] eqn:E.
      + eapply prepend_spec; [|apply dialog_phase_spec].
        intros rails0 a0 Hi Hc.
        destruct (Hgen rails0 a0 Hc (Hpre rails0 a0 Hc) Hpost) as (done & a1 & Hrun & Hran & Hns & ->).
        exists done, false.
        rewrite <- !app_assoc in *. split; [exact Hrun|]. split; [exact Hran|].
        split; [exact Hns|]. split; [intros Hx; discriminate|reflexivity].
      + intros rails0 a0 Hi Hc.
        destruct (Hgen rails0 a0 Hc (Hpre rails0 a0 Hc) Hpost) as (done & a1 & Hrun & Hran & Hres).
        exists done, a1. cbn [plog ran blocked].
        rewrite <- !app_assoc in *. split; [exact Hrun|]. split; [exact Hran|exact Hres].
    - eapply prepend_spec; [|apply dialog_phase_spec].
      intros rails0 a0 Hi Hc. exists [], a0.
      rewrite g_run_app, plain_neutral; [|apply plain_names].
      rewrite ce_neutral; [|apply ignored_names|apply plain_names|apply calm_nonempty; exact Hc].
      cbn [app rev map].
      repeat split; [constructor|exact Hc|exact Hi].
  Qed.
End Phases2.

(* ------------------------------------------------------------------------------------ *)
(* the computed log *)

Lemma retype_name_same : forall r, ar_name (retype r) = ar_name r.
Proof.
  intros r. unfold retype. destruct (String.eqb (ar_name r) retype_name); [|reflexivity].
  destruct (ar_actions r) as [|x [|y l]]; try reflexivity.
  destruct (xa_llm x) as [|t [|t' l']]; try reflexivity.
  destruct (String.eqb t retype_task); reflexivity.
Qed.

Lemma retype_stop_same : forall r, ar_stop (retype r) = ar_stop r.
Proof.
  intros r. unfold retype. destruct (String.eqb (ar_name r) retype_name); [|reflexivity].
  destruct (ar_actions r) as [|x [|y l]]; try reflexivity.
  destruct (xa_llm x) as [|t [|t' l']]; try reflexivity.
  destruct (String.eqb t retype_task); reflexivity.
Qed.

Lemma retype_mark_stop_type : forall r,
  mem (ar_type r) stop_types = true -> ar_type (retype (mark_stop r)) = ar_type (retype r).
Proof.
  intros r H. unfold mark_stop. rewrite H. unfold retype. cbn [ar_name ar_actions ar_type].
  destruct (String.eqb (ar_name r) retype_name); [|reflexivity].
  destruct (ar_actions r) as [|x [|y l]]; try reflexivity.
  destruct (xa_llm x) as [|t [|t' l']]; try reflexivity.
  destruct (String.eqb t retype_task); reflexivity.
Qed.

Definition tn (a : arail) : string * string := (ar_type a, ar_name a).
Definition fin1 (r : arail) : arail := unrev_rail (retype r).

Lemma tn_fin1 : forall r, tn (fin1 r) = tn' r.
Proof. intros r. unfold tn, fin1, tn'. cbn [unrev_rail ar_type ar_name]. rewrite retype_name_same. reflexivity. Qed.

Lemma stop_fin1 : forall r, ar_stop (fin1 r) = ar_stop r.
Proof. intros r. unfold fin1. cbn [unrev_rail ar_stop]. apply retype_stop_same. Qed.

Lemma turn_plog_nonempty : forall iv ov lt rf pt c g user bot,
  exists e l, plog (turn iv ov lt rf pt c g user bot) = e :: l.
Proof.
  intros. unfold turn. destruct (in_active c g).
  - destruct (s_res (run_rails KIn iv 0 (c_in c) user)); unfold prepend; cbn [plog app]; eauto.
  - unfold prepend. cbn [plog app]. eauto.
Qed.

Theorem log_of_turn : forall iv ov lt rf pt c g user bot,
  wf_cfg c ->
  let r := turn iv ov lt rf pt c g user bot in
  exists rails,
    gen_log (plog r) = Some rails /\
    map tn rails = ran r /\
    match blocked r with
    | None => Forall (fun a => ar_stop a = false) rails
    | Some f => exists pre a, rails = pre ++ [a] /\ ar_name a = f /\ ar_stop a = true /\
                              (ar_type a = "input" \/ ar_type a = "output") /\
                              Forall (fun x => ar_stop x = false) pre
    end.
Proof.
  intros iv ov lt rf pt c g user bot WF r.
  destruct (turn_spec iv ov lt rf pt c g WF user bot [] false eq_refl) as (done & a1 & Hrun & Hran & Hb).
  { intros H. discriminate. }
  fold r in Hrun, Hran, Hb.
  destruct (turn_plog_nonempty iv ov lt rf pt c g user bot) as (e & l & Hne). fold r in Hne.
  unfold gen_log. rewrite Hne, <- Hne. unfold g_init. rewrite Hrun. cbn [option_map].
  rewrite app_nil_r. unfold finalize. cbn [g_active g_rails].
  change (fun r0 : arail => unrev_rail (retype r0)) with fin1.
  destruct (blocked r) as [f|].
  - destruct Hb as (-> & hd & tl & -> & Hn & Hm & Hs & Htl & Hg).
    cbn [upd_nth map rev].
    eexists. split; [reflexivity|].
    assert (Hms : mark_stop hd = mkR (ar_type hd) (ar_name hd) (stop_decision :: ar_decisions hd) (ar_actions hd) true).
    { unfold mark_stop. rewrite Hm. reflexivity. }
    assert (Hrt : retype (mark_stop hd) = mark_stop hd).
    { apply retype_not_gui. rewrite Hms. cbn [ar_name]. rewrite Hn. exact Hg. }
    split.
    { rewrite map_app, map_rev, map_map. cbn [map].
      rewrite <- Hran. cbn [rev]. rewrite map_app, map_rev. cbn [map].
      f_equal.
      - f_equal. apply map_ext. intros x. apply tn_fin1.
      - rewrite tn_fin1. unfold tn'. rewrite Hrt, retype_not_gui; [|rewrite Hn; exact Hg].
        rewrite Hms. reflexivity. }
    assert (Hf_ty : ar_type (fin1 (mark_stop hd)) = ar_type hd) by (unfold fin1; rewrite Hrt, Hms; reflexivity).
    assert (Hf_name : ar_name (fin1 (mark_stop hd)) = ar_name hd) by (unfold fin1; rewrite Hrt, Hms; reflexivity).
    assert (Hf_stop : ar_stop (fin1 (mark_stop hd)) = true) by (unfold fin1; rewrite Hrt, Hms; reflexivity).
    exists (rev (map fin1 tl)), (fin1 (mark_stop hd)).
    split; [reflexivity|].
    split; [rewrite Hf_name; exact Hn|]. split; [exact Hf_stop|].
    split.
    { rewrite Hf_ty. unfold mem in Hm. cbn [stop_types existsb] in Hm.
      apply orb_true_iff in Hm. destruct Hm as [Hm|Hm].
      - left. apply String.eqb_eq. exact Hm.
      - apply orb_true_iff in Hm. destruct Hm as [Hm|Hm]; [|discriminate].
        right. apply String.eqb_eq. exact Hm. }
    apply Forall_rev. apply Forall_map. eapply Forall_impl; [|exact Htl].
    intros x Hx. rewrite stop_fin1. exact Hx.
  - destruct Hb as (Hns & Hc). rewrite app_nil_r in Hc.
    assert (Hsame : (if a1 then upd_nth 0 mark_stop done else done) = done).
    { destruct a1; [|reflexivity].
      destruct (Hc eq_refl) as (h & t & -> & Hm). cbn [upd_nth]. unfold mark_stop. rewrite Hm. reflexivity. }
    rewrite Hsame.
    eexists. split; [reflexivity|].
    split.
    { rewrite map_rev, map_map. rewrite <- Hran, map_rev. f_equal. apply map_ext. intros x. apply tn_fin1. }
    apply Forall_rev. apply Forall_map. eapply Forall_impl; [|exact Hns].
    intros x Hx. rewrite stop_fin1. exact Hx.
Qed.

(* non-vacuity: the hypothesis of log_of_turn holds of a configuration with rails in every
   category, and both outcomes (blocked / not blocked) occur *)
Example wf_ex_cfg : wf_cfg ex_cfg.
Proof. repeat split; repeat constructor. Qed.

Example log_of_turn_blocked_instance :
  let r := turn ex_iv ex_ov "LLM" "REFUSED" "PRE" ex_cfg None "hello" None in
  blocked r = Some "out0" /\
  option_map (map (fun a => (ar_type a, ar_name a, ar_stop a))) (gen_log (plog r))
  = Some [("input", "in0", false); ("input", "in1", false); ("dialog", "generate user intent", false);
          ("dialog", "greet", false); ("generation", "generate bot message", false); ("output", "out0", true)].
Proof. vm_compute. split; reflexivity. Qed.

Theorem log_stop_flags : forall iv ov lt rf pt c g user bot rails,
  wf_cfg c ->
  let r := turn iv ov lt rf pt c g user bot in
  gen_log (plog r) = Some rails ->
  (blocked r = None -> forall a, In a rails -> ar_stop a = false) /\
  (forall f, blocked r = Some f ->
     exists pre a, rails = pre ++ [a] /\ ar_name a = f /\ ar_stop a = true /\
                   forall x, In x pre -> ar_stop x = false).
Proof.
  intros iv ov lt rf pt c g user bot rails WF r Hlog.
  destruct (log_of_turn iv ov lt rf pt c g user bot WF) as (rails' & Hlog' & _ & Hb).
  fold r in Hlog', Hb. rewrite Hlog in Hlog'. inversion Hlog'; subst rails'.
  split.
  - intros Hn. rewrite Hn in Hb. apply Forall_forall. exact Hb.
  - intros f Hf. rewrite Hf in Hb. destruct Hb as (pre & a & -> & Hna & Hsa & _ & Hpre).
    exists pre, a. repeat split; try assumption. apply Forall_forall. exact Hpre.
Qed.
