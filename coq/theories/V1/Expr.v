(* V1.Expr - the expression fragment of Colang 1.0 (`if`, `while`, `set`, `check`).

   Model of nemoguardrails/colang/v1_0/runtime/eval.py::eval_expression for the fragment the
   C14 generator and the shipped example flows use.  eval_expression replaces `$x` by
   `var_x`, binds `var_x := context.get("x")` (a missing variable is None, NOT an error) and
   calls simpleeval.simple_eval(..., functions={"len": len}).

   Values: None, bool, int, str, list.  `eval` returns None where Python raises (TypeError,
   IndexError, NameNotDefined ...): eval_expression re-raises it as Exception and the
   exception leaves compute_next_steps.

   Faithfulness notes (simpleeval 1.0.7):
     - `and` / `or` return one of their operands (Python semantics), short-circuit.
     - bool is an int: True == 1, True + True == 2, "ab"[True] == "b".
     - ordering is defined for number/number, str/str (code points; strings are byte strings
       here, the harness only admits code points < 256) and list/list (lexicographic, first
       position where `==` fails); anything else raises TypeError.
     - a comparison chain `a < b < c` is not in the fragment (translator rejects it).
     - simpleeval's MAX_STRING_LENGTH guard (100000) is not modelled.
   The reserved context keys `event`, `config`, `last_user_message`, `last_bot_message` are
   not modelled; the translator rejects expressions that read them. *)
From Coq Require Import ZArith List String Ascii Bool.
Import ListNotations.
Open Scope Z_scope.

Inductive value :=
| VNone
| VBool (b : bool)
| VInt (z : Z)
| VStr (s : string)
| VList (l : list value).

Definition ctx := list (string * value).

Fixpoint lookup {A} (k : string) (kvs : list (string * A)) : option A :=
  match kvs with
  | [] => None
  | (k', v) :: rest => if String.eqb k k' then Some v else lookup k rest
  end.

(* Python dict `d[k] = v` / d.update({k: v}): an existing key keeps its position *)
Fixpoint assoc_set {A} (k : string) (v : A) (kvs : list (string * A)) : list (string * A) :=
  match kvs with
  | [] => [(k, v)]
  | (k', v') :: rest => if String.eqb k k' then (k, v) :: rest else (k', v') :: assoc_set k v rest
  end.

Definition assoc_update {A} (kvs upd : list (string * A)) : list (string * A) :=
  fold_left (fun acc kv => assoc_set (fst kv) (snd kv) acc) upd kvs.

(* context.get(name) *)
Definition ctx_get (c : ctx) (x : string) : value :=
  match lookup x c with Some v => v | None => VNone end.

Inductive cmpop := CEq | CNe | CLt | CLe | CGt | CGe.

Inductive expr :=
| ENone
| EBool (b : bool)
| EInt (z : Z)
| EStr (s : string)
| EVar (x : string)                 (* $x *)
| EListLit (l : list expr)          (* [a, b] : not available in simple_eval, raises *)
| ENot (e : expr)
| ENeg (e : expr)                   (* unary minus *)
| EAnd (a b : expr)
| EOr (a b : expr)
| ECmp (op : cmpop) (a b : expr)
| EIsNone (neg : bool) (a : expr)   (* a is None / a is not None *)
| EAdd (a b : expr)
| ESub (a b : expr)
| ELen (a : expr)
| EIndex (a i : expr).

(* Python truthiness *)
Definition truthy (v : value) : bool :=
  match v with
  | VNone => false
  | VBool b => b
  | VInt z => negb (z =? 0)
  | VStr s => negb (String.eqb s "")
  | VList l => match l with [] => false | _ => true end
  end.

Definition as_num (v : value) : option Z :=
  match v with
  | VBool b => Some (if b then 1 else 0)
  | VInt z => Some z
  | _ => None
  end.

(* Python == *)
Fixpoint veq (a b : value) : bool :=
  match a, b with
  | VNone, VNone => true
  | VStr s, VStr t => String.eqb s t
  | VList l, VList m =>
      (fix go (l m : list value) : bool :=
         match l, m with
         | [], [] => true
         | x :: l', y :: m' => veq x y && go l' m'
         | _, _ => false
         end) l m
  | VBool x, VBool y => Bool.eqb x y
  | VBool x, VInt y => (if x then 1 else 0) =? y
  | VInt x, VBool y => x =? (if y then 1 else 0)
  | VInt x, VInt y => x =? y
  | _, _ => false
  end.

Fixpoint str_ltb (s t : string) : bool :=
  match s, t with
  | EmptyString, EmptyString => false
  | EmptyString, String _ _ => true
  | String _ _, EmptyString => false
  | String c s', String d t' =>
      let x := N_of_ascii c in let y := N_of_ascii d in
      if N.ltb x y then true else if N.ltb y x then false else str_ltb s' t'
  end.

(* strict: a < b ; non-strict: a <= b.  None = TypeError *)
Fixpoint vlt (strict : bool) (a b : value) : option bool :=
  match a, b with
  | VStr s, VStr t => Some (if strict then str_ltb s t else negb (str_ltb t s))
  | VList l, VList m =>
      (fix go (l m : list value) : option bool :=
         match l, m with
         | [], [] => Some (negb strict)
         | [], _ :: _ => Some true
         | _ :: _, [] => Some false
         | x :: l', y :: m' => if veq x y then go l' m' else vlt strict x y
         end) l m
  | _, _ =>
      match as_num a, as_num b with
      | Some x, Some y => Some (if strict then x <? y else x <=? y)
      | _, _ => None
      end
  end.

Definition vcmp (op : cmpop) (a b : value) : option bool :=
  match op with
  | CEq => Some (veq a b)
  | CNe => Some (negb (veq a b))
  | CLt => vlt true a b
  | CLe => vlt false a b
  | CGt => vlt true b a
  | CGe => vlt false b a
  end.

Definition vadd (a b : value) : option value :=
  match a, b with
  | VStr s, VStr t => Some (VStr (s ++ t))
  | VList l, VList m => Some (VList (l ++ m))
  | _, _ => match as_num a, as_num b with
            | Some x, Some y => Some (VInt (x + y))
            | _, _ => None
            end
  end.

Definition vsub (a b : value) : option value :=
  match as_num a, as_num b with
  | Some x, Some y => Some (VInt (x - y))
  | _, _ => None
  end.

Definition vlen (a : value) : option value :=
  match a with
  | VStr s => Some (VInt (Z.of_nat (String.length s)))
  | VList l => Some (VInt (Z.of_nat (List.length l)))
  | _ => None
  end.

(* Python index normalisation: negative indexes count from the end *)
Definition norm_index (len i : Z) : option nat :=
  let j := if i <? 0 then len + i else i in
  if (j <? 0) || (len <=? j) then None else Some (Z.to_nat j).

Definition vindex (a i : value) : option value :=
  match as_num i with
  | None => None
  | Some z =>
      match a with
      | VStr s =>
          match norm_index (Z.of_nat (String.length s)) z with
          | Some n => match String.get n s with
                      | Some c => Some (VStr (String c EmptyString))
                      | None => None
                      end
          | None => None
          end
      | VList l =>
          match norm_index (Z.of_nat (List.length l)) z with
          | Some n => nth_error l n
          | None => None
          end
      | _ => None
      end
  end.

Definition obind {A B} (o : option A) (f : A -> option B) : option B :=
  match o with Some a => f a | None => None end.

Fixpoint eval (c : ctx) (e : expr) : option value :=
  match e with
  | ENone => Some VNone
  | EBool b => Some (VBool b)
  | EInt z => Some (VInt z)
  | EStr s => Some (VStr s)
  | EVar x => Some (ctx_get c x)
  | EListLit _ => None              (* simple_eval: "List is not available in this evaluator" *)
  | ENot a => obind (eval c a) (fun v => Some (VBool (negb (truthy v))))
  | ENeg a => obind (eval c a) (fun v => obind (as_num v) (fun z => Some (VInt (- z))))
  | EAnd a b => obind (eval c a) (fun v => if truthy v then eval c b else Some v)
  | EOr a b => obind (eval c a) (fun v => if truthy v then Some v else eval c b)
  | ECmp op a b => obind (eval c a) (fun x => obind (eval c b) (fun y =>
                   obind (vcmp op x y) (fun r => Some (VBool r))))
  | EIsNone neg a => obind (eval c a) (fun v =>
                     let isn := match v with VNone => true | _ => false end in
                     Some (VBool (if neg then negb isn else isn)))
  | EAdd a b => obind (eval c a) (fun x => obind (eval c b) (fun y => vadd x y))
  | ESub a b => obind (eval c a) (fun x => obind (eval c b) (fun y => vsub x y))
  | ELen a => obind (eval c a) vlen
  | EIndex a i => obind (eval c a) (fun x => obind (eval c i) (fun y => vindex x y))
  end.

(* sanity *)
Open Scope string_scope.
Example eval_ex1 : eval [("i", VInt 1)] (ECmp CLt (EAdd (EVar "i") (EInt 1)) (EInt 3)) = Some (VBool true).
Proof. reflexivity. Qed.
Example eval_ex2 : eval [] (EAdd (EVar "i") (EInt 1)) = None.        (* None + 1 : TypeError *)
Proof. reflexivity. Qed.
Example eval_ex3 : eval [] (EOr (EVar "x") (EStr "d")) = Some (VStr "d").
Proof. reflexivity. Qed.
Example eval_ex4 : eval [("s", VStr "abc")] (EIndex (EVar "s") (ENeg (EInt 1))) = Some (VStr "c").
Proof. reflexivity. Qed.
Example eval_ex5 : eval [] (ECmp CEq (EBool true) (EInt 1)) = Some (VBool true).
Proof. reflexivity. Qed.
Example eval_ex6 : eval [("a", VList [VInt 1; VInt 2]); ("b", VList [VInt 1; VInt 3])] (ECmp CLt (EVar "a") (EVar "b")) = Some (VBool true).
Proof. reflexivity. Qed.
