"""C13 - Parsing ignores meaningless layout and reports every bad file as a parsing error.

Models: coq/theories/Svc/ParseWrap.v (error-wrapping contract of the loaders + formatter),
Svc/Indent.v (lexing of layout as declared in colang.lark + Lark's Indenter), Svc/V1Lines.v
(line pre-processing of the Colang 1.0 parser); theorems: Props/C13.v.
Tie: (T) Gen/C13Consts.v regenerated from config.py / lang/utils.py / colang.lark / load.py /
parser.py / lark.indenter / v1 utils.py by translator/gen_c13.py;
(X) wrapper: exception objects of generated shapes injected through a patched
parse_colang_file into the real RailsConfig.from_path / from_content, outcome and message
compared with the model;  layout: the model's token streams vs the streams recorded around
the real PythonIndenter while the real parser runs; get_numbered_lines vs the model.
Direct oracles on the implementation (what finds the replay): layout-edit differential on
the real parse_colang_file (v1, v2; generated programs and every shipped .co file) and a
hostile corpus through the real loaders, each batch in a child process under `timeout`.

PARTIAL BY NATURE: the LALR tables, the transformer and the 1 900-line v1 parser are not
modelled; their behaviour (incl. termination) is explored by the corpus only.
"""
from __future__ import annotations

import glob
import hashlib
import json
import os
import random
import re
import shutil
import subprocess
import sys
import tempfile
import time
import traceback

from harness import common as C

PID = "C13"
GEN = ["C13Consts"]

PRE_WRAP = """From Coq Require Import ZArith List String Bool.
From NG Require Import Gen.C13Consts Svc.ParseWrap Svc.ParseWrapRun.
Import ListNotations.
Open Scope string_scope.
"""
PRE_LAYOUT = """From Coq Require Import NArith List Bool.
From NG Require Import Gen.C13Consts Svc.Indent Svc.V1Lines Svc.IndentRun.
Import ListNotations.
Open Scope N_scope.
"""

POS_KEYS = {"_source", "_source_mapping", "source_code", "line", "column", "end_line", "end_column",
            "start_pos", "end_pos", "line_number", "line_text"}


def _quiet():
    import logging
    import warnings

    warnings.simplefilter("ignore")
    logging.disable(logging.CRITICAL)


# =======================================================================================
# shipped files


def shipped_files():
    """(v1 files, v2 files) of the repository under test, classified by the repository's own heuristic."""
    _quiet()
    from nemoguardrails.colang import _is_colang_v2

    v1, v2 = [], []
    for p in sorted(glob.glob(os.path.join(C.REPO, "**", "*.co"), recursive=True)):
        if os.sep + ".git" + os.sep in p:
            continue
        try:
            c = open(p, encoding="utf-8").read()
        except Exception:
            continue
        (v2 if _is_colang_v2(c) else v1).append(os.path.relpath(p, C.REPO))
    return v1, v2


# =======================================================================================
# generators of valid programs

NAMES = ["a", "b", "greet", "ask", "user", "bot", "check", "main2", "x1", "handle"]


def gen_v2(rng):
    """A valid Colang 2.x program as a list of (level, text) lines plus an indentation unit."""
    lines = []
    unit = rng.choice([1, 2, 2, 3, 4])

    def simple(level, in_loop):
        k = rng.randrange(19)
        v = "$" + rng.choice("xyz")
        s = {
            0: 'match UtteranceUserAction.Finished(final_transcript="hi")',
            1: "send Ev%d(x=%d)" % (rng.randint(0, 3), rng.randint(0, 9)),
            2: "await %s %s" % (rng.choice(NAMES), rng.choice(NAMES)),
            3: "start %s %s as $r" % (rng.choice(NAMES), rng.choice(NAMES)),
            4: "%s = %d" % (v, rng.randint(0, 9)),
            5: "%s = %s + 2" % (v, v),
            6: 'user said "hi there"',
            7: 'bot say "hello # not a comment"',
            8: 'log "x"',
            9: "print %s" % v,
            10: "pass",
            11: "match A() or B()",
            12: "match A() and B()",
            13: "send Ev(a=1,\n%sb=[1, 2,\n%s3])" % (" " * rng.randint(0, 9), " " * rng.randint(0, 9)),
            14: "%s = {\"k\": 1,\n%s\"j\": [2]}" % (v, " " * rng.randint(0, 7)),
            15: "break" if in_loop else "return 1",
            16: "match A()\n%sand B()\n%sand C()" % (" " * rng.randint(1, 12), " " * rng.randint(1, 12)),
            17: 'user said "hi"\n%sor user said "hello"' % (" " * rng.randint(1, 12)),
            18: "await a b\n%sor (greet x1\n%sand handle a)" % (" " * rng.randint(1, 12), " " * rng.randint(0, 12)),
        }[k]
        lines.append((level, s))

    def body(level, depth, in_loop=False):
        for _ in range(rng.randint(1, 3)):
            r = rng.random()
            if depth > 0 and r < 0.35:
                kind = rng.choice(["if", "while", "when"])
                if kind == "if":
                    lines.append((level, "if $x > %d" % rng.randint(0, 3) + rng.choice(["", ":"])))
                    body(level + 1, depth - 1, in_loop)
                    if rng.random() < 0.4:
                        lines.append((level, "elif $y == 2"))
                        body(level + 1, depth - 1, in_loop)
                    if rng.random() < 0.5:
                        lines.append((level, "else"))
                        body(level + 1, depth - 1, in_loop)
                elif kind == "while":
                    lines.append((level, "while $x < 3"))
                    body(level + 1, depth - 1, True)
                else:
                    cont = "\n%sor %s" % (" " * rng.randint(1, 14), rng.choice(NAMES)) if rng.random() < 0.3 else ""
                    lines.append((level, "when %s %s%s" % (rng.choice(NAMES), rng.choice(NAMES), cont)))
                    body(level + 1, depth - 1, in_loop)
                    if rng.random() < 0.5:
                        lines.append((level, "or when %s" % rng.choice(NAMES)))
                        body(level + 1, depth - 1, in_loop)
                    if rng.random() < 0.3:
                        lines.append((level, "else"))
                        body(level + 1, depth - 1, in_loop)
            else:
                simple(level, in_loop)

    for i in range(rng.randint(1, 3)):
        name = rng.choice(NAMES) + " " + rng.choice(NAMES) + str(i)
        params = rng.choice(["", " $p", " $p $q=3", "($p, $q=1)"])
        if rng.random() < 0.2:
            lines.append((0, "@meta(x=1)"))
        lines.append((0, "flow %s%s" % (name, params)))
        if rng.random() < 0.3:
            lines.append((1, '"""doc of %s"""' % name))
        body(1, rng.choice([0, 1, 2, 3]))
        if rng.random() < 0.5:
            lines.append((0, ""))
    return unit, lines


def render(unit, lines, tail_newline=True, ch=" "):
    out = []
    for level, text in lines:
        parts = text.split("\n")
        out.append(ch * (unit * level) + parts[0] if text else "")
        out.extend(parts[1:])          # continuation lines inside brackets keep their own indentation
    return "\n".join(out) + ("\n" if tail_newline else "")


def gen_v1(rng):
    lines = []
    unit = rng.choice([2, 2, 3, 4])

    def body(level, depth):
        for _ in range(rng.randint(1, 4)):
            r = rng.random()
            if depth > 0 and r < 0.3:
                kind = rng.choice(["if", "when", "while"])
                if kind == "if":
                    lines.append((level, "if $x == %d" % rng.randint(0, 3)))
                    body(level + 1, depth - 1)
                    if rng.random() < 0.5:
                        lines.append((level, "else"))
                        body(level + 1, depth - 1)
                elif kind == "when":
                    lines.append((level, "when user %s" % rng.choice(["ask a", "express greeting", "say bye"])))
                    body(level + 1, depth - 1)
                    if rng.random() < 0.6:
                        lines.append((level, "else when user ask b"))
                        body(level + 1, depth - 1)
                else:
                    lines.append((level, "while $x < 3"))
                    body(level + 1, depth - 1)
            else:
                k = rng.randrange(18)
                ci = lambda: " " * rng.randint(0, 10)        # continuation lines: any indentation
                if k == 11:     # a condition continued over three physical lines, with its block
                    lines.append((level, "if $a == 1 and \\\n%s$b == 2 and \\\n%s$c == 3" % (ci(), ci())))
                    lines.append((level + 1, "bot inform x"))
                    if rng.random() < 0.5:
                        lines.append((level, "else"))
                        lines.append((level + 1, "bot express greeting"))
                    continue
                if k in (15, 16):     # the comment above `$var = ...` is the instruction of the generated action
                    for _c in range(rng.randint(1, 3)):
                        lines.append((level, "# %s the %s from the input." % (rng.choice(["Extract", "Guess", "Find"]),
                                                                             rng.choice(["name", "question", "city"]))))
                    lines.append((level, "$%s = ..." % rng.choice(["name", "q", "city"])))
                    continue
                if k == 17:           # a comment above an ordinary statement
                    lines.append((level, "# just a note"))
                    lines.append((level, "bot inform x"))
                    continue
                s = {
                    12: '$msg = "a" + \\\n%s"b" + \\\n%s"c"' % (ci(), ci()),
                    13: "user ask a or\n%suser ask b or\n%suser express greeting" % (ci(), ci()),
                    14: '$n = 1 + \\\n%s2' % ci(),
                    0: "user express greeting",
                    1: "bot express greeting",
                    2: 'bot "Hello # there"',
                    3: "$x = %d" % rng.randint(0, 5),
                    4: "execute some_action(a=1)",
                    5: "$r = execute other_action",
                    6: "user ask a or user ask b",
                    7: "bot inform x",
                    8: 'user "hi"',
                    9: "stop",
                    10: "do subflow_%d" % rng.randint(0, 2),
                }[k]
                lines.append((level, s))

    for i in range(rng.randint(1, 3)):
        r = rng.random()
        if r < 0.25:
            lines.append((0, "define user %s" % rng.choice(["express greeting", "ask a", "ask b"])))
            for j in range(rng.randint(1, 3)):
                lines.append((1, '"%s %d"' % (rng.choice(["hello", "hi", "what is"]), j)))
        elif r < 0.45:
            lines.append((0, "define bot %s" % rng.choice(["express greeting", "inform x"])))
            for j in range(rng.randint(1, 2)):
                lines.append((1, '"%s %d!"' % (rng.choice(["Hello", "Sure"]), j)))
        else:
            lines.append((0, rng.choice(["define flow f%d", "define subflow subflow_%d", "define flow"]) .replace("%d", str(i))))
            body(1, rng.choice([0, 1, 2]))
        if rng.random() < 0.6:
            lines.append((0, ""))
    return unit, lines


# =======================================================================================
# layout edits at text level


def v2_safe_newlines(L, text):
    """Offsets of every line break of the text that is not inside a string token: those of
    _NEWLINE tokens (also inside brackets), and those swallowed by other tokens (`and` / `or`
    continuation lines, `else <newline> if`).  Uses the real lexer WITHOUT the post-lexer."""
    from lark.lexer import LexerThread

    lexer = L._build_lexer()
    offs = []
    for t in LexerThread.from_text(lexer, text + "\n").lex(None):
        if t.type in ("STRING", "LONG_STRING") or t.start_pos is None:
            continue
        for m in re.finditer("\n", str(t)):
            o = t.start_pos + m.start()
            if o < len(text):
                offs.append(o)
    return sorted(set(offs))


def apply_inserts(text, ins):
    out, last = [], 0
    for o, s in sorted(ins):
        out.append(text[last:o])
        out.append(s)
        last = o
    out.append(text[last:])
    return "".join(out)


def v2_edit(kind, text, S, rng, k=2):
    """Returns the edited text and the list of single edits [(offset, inserted)] it is made of."""
    ins = []
    if kind == "blank":
        p = 1.0 if k == 1 else 0.4              # k = 1: a blank line at EVERY line gap
        ins = [(o + 1, rng.choice(["", "  ", "     ", " \t", "\t", "\t  "]) + "\n") for o in S if rng.random() < p]
    elif kind == "trailing_ws":
        ins = [(o, " " * rng.choice([1, 2, 5])) for o in S if rng.random() < 0.5]
        if rng.random() < 0.5 and not text.endswith("\n"):
            ins.append((len(text), "  "))
    elif kind == "trailing_tab":
        ins = [(o, rng.choice(["\t", " \t", "\t "])) for o in S if rng.random() < 0.3]
    elif kind == "comment":
        for o in S:
            ls = text.rfind("\n", 0, o) + 1
            if text[ls:o].strip() and rng.random() < 0.5:
                ins.append((o, rng.choice(["  ", " ", ""]) + "# " + rng.choice(["note", "flow a", '"q"', "(", "and", "\"\"\"", "$x = 1"])))
    elif kind == "scale":
        for o in [-1] + S:
            m = re.compile(r"[ \t]*").match(text, o + 1)
            ws = m.group(0)
            if ws:
                ins.append((m.end(), "".join(c * (k - 1) for c in ws)))
    return apply_inserts(text, ins), ins


def v1_safe_lines(lines):
    """safe[i]: line i is outside multi-line strings / triple-quoted comments (get_numbered_lines' states)."""
    safe, in_triple, in_str = [], False, False
    for l in lines:
        s = l.strip()
        safe.append(not in_triple and not in_str)
        if in_str:
            if s.endswith('"'):
                in_str = False
        elif in_triple:
            if s.endswith('"""'):
                in_triple = False
        else:
            if s.startswith('"""'):
                if s == '"""' or not s.endswith('"""'):
                    in_triple = True
            elif s.startswith('"') and not s.endswith('"'):
                in_str = True
    return safe


def v1_edit(kind, text, rng, k=2):
    lines = text.split("\n")
    safe = v1_safe_lines(lines)
    out = []
    if kind == "blank":
        for i, l in enumerate(lines):
            prev = lines[i - 1].strip() if i else ""
            cont = prev.endswith("\\") or prev.endswith(" or")
            if safe[i] and not cont and rng.random() < (1.0 if k == 1 else 0.4):
                out.append(rng.choice(["", "", "   ", "\t"]))
            out.append(l)
    elif kind in ("trailing_ws", "trailing_tab"):
        ws = " " if kind == "trailing_ws" else "\t"
        p = rng.choice([0.5, 1.0])              # every physical line, continuation lines included
        for i, l in enumerate(lines):
            out.append(l + ws * rng.choice([1, 3]) if rng.random() < p else l)
    elif kind == "scale":
        for l in lines:
            n = len(l) - len(l.lstrip(" "))
            out.append(" " * (n * k) + l[n:])
    return "\n".join(out)


# =======================================================================================
# canonical form of a parse result (modulo source positions and source_code)


def _expr_tokens(src):
    """Colang 2.x keeps the RAW source text of expressions (`expression` of assignments/conditions,
    the values of `arguments`); they are evaluated later as Python-like expressions, so a
    multi-line expression carries the layout characters and comments between its tokens.  Like `source_code` this is source text: it is compared as its
    token sequence (comments, line breaks and blanks between tokens dropped)."""
    import io
    import tokenize

    try:
        toks = []
        for t in tokenize.generate_tokens(io.StringIO("(" + src + ")").readline):
            if t.type in (tokenize.COMMENT, tokenize.NL, tokenize.NEWLINE, tokenize.INDENT, tokenize.DEDENT,
                          tokenize.ENDMARKER):
                continue
            toks.append(t.string)
        return toks[1:-1]
    except Exception:
        return src


def canon(x):
    from nemoguardrails.colang.v2_x.lang.utils import dataclass_to_dict

    x = dataclass_to_dict(x)

    def w(v):
        if isinstance(v, dict):
            out = {}
            for k, u in sorted(v.items(), key=lambda kv: str(kv[0])):
                if k in POS_KEYS:
                    continue
                if k == "expression" and isinstance(u, str):
                    out[str(k)] = _expr_tokens(u)
                elif k == "arguments" and isinstance(u, dict):
                    out[str(k)] = {str(a): (_expr_tokens(x) if isinstance(x, str) else w(x)) for a, x in u.items()}
                else:
                    out[str(k)] = w(u)
            return out
        if isinstance(v, (list, tuple)):
            return [w(u) for u in v]
        if isinstance(v, (str, int, float, bool)) or v is None:
            return v
        return repr(v)

    return w(x)


def parse_canon(content, version):
    from nemoguardrails.colang import parse_colang_file

    try:
        return ["ok", C.canon_hash(canon(parse_colang_file("f.co", content, version=version)))]
    except Exception as e:  # noqa
        return ["err", type(e).__name__, str(e)[:160]]


# =======================================================================================
# exception signatures


def exc_signature(entry, e):
    """Defect class of an exception that escaped a loader: entry point + class + raising site."""
    from nemoguardrails.colang.v2_x.runtime.errors import ColangParsingError

    if isinstance(e, ColangParsingError):
        return f"{entry}:parsing-error-does-not-name-the-file"
    frames = traceback.extract_tb(e.__traceback__)
    names = [f.name for f in frames]
    inner = frames[-1] if frames else None
    if inner is not None and inner.name == "format_colang_parsing_error_message":
        return f"{entry}:{type(e).__name__}@format_colang_parsing_error_message"
    if "_load_imported_paths" in names and isinstance(e, ValueError) and "could not be resolved" in str(e):
        return f"{entry}:ValueError@_load_imported_paths(import-unresolved)"
    site = "?"
    for f in reversed(frames):
        if f.filename.endswith(os.path.join("rails", "llm", "config.py")):
            site = f.name
            if entry == "from_content" and f.name == "from_content" and "parse_colang_file" in (f.line or ""):
                return "from_content:parser-exception-not-wrapped"
            break
    return f"{entry}:{type(e).__name__}@{site}"


# =======================================================================================
# worker side (runs in a child process under `timeout`)


class _Loader:
    def __init__(self):
        _quiet()
        from nemoguardrails import RailsConfig
        from nemoguardrails.colang.v2_x.runtime.errors import ColangParsingError

        self.RailsConfig = RailsConfig
        self.CPE = ColangParsingError
        self.dir = tempfile.mkdtemp(prefix="c13_")
        self.co = os.path.join(self.dir, "under_test.co")

    def yml(self, version):
        return 'colang_version: "2.x"\n' if version == "2.x" else "models: []\n"

    def load(self, entry, version, content):
        """-> ["ok"] | ["cpe", names_file, msg] | ["escape", class, signature, msg]"""
        try:
            if entry == "from_path":
                with open(os.path.join(self.dir, "config.yml"), "w") as f:
                    f.write(self.yml(version))
                with open(self.co, "w", encoding="utf-8") as f:
                    f.write(content)
                self.RailsConfig.from_path(self.dir)
            else:
                self.RailsConfig.from_content(colang_content=content, yaml_content=self.yml(version))
            return ["ok"]
        except self.CPE as e:
            name = self.co if entry == "from_path" else "main.co"
            if name in str(e):
                return ["cpe", True, str(e)]
            return ["escape", "ColangParsingError", exc_signature(entry, e), str(e)[:300]]
        except Exception as e:  # noqa
            return ["escape", type(e).__name__, exc_signature(entry, e), str(e)[:300]]

    def close(self):
        shutil.rmtree(self.dir, ignore_errors=True)


def _tok_streams(P, content):
    """Run the REAL parser on content, recording the token stream entering and leaving the
    real PythonIndenter.  -> dict(text, pre=[(type,start,end)], post=[type], err, complete)"""
    L = P._lark_parser
    ind = L.options.postlex
    text = P._apply_pre_parsing_expansions(content) + "\n"
    pre, post = [], []
    state = {"err": None, "exhausted": False}
    orig = type(ind).process

    def rec_in(stream):
        for t in stream:
            pre.append((t.type, t.start_pos, t.end_pos, str(t)))
            yield t

    def process(stream):
        try:
            for t in orig(ind, rec_in(stream)):
                post.append(t.type)
                yield t
            state["exhausted"] = True
        except Exception as e:  # raised by the lexer or by the indenter itself
            state["err"] = e
            raise

    ind.process = process
    perr = None
    try:
        L.parse(text)
    except Exception as e:  # noqa
        perr = e
    finally:
        del ind.process
    from lark.exceptions import UnexpectedCharacters
    from lark.indenter import DedentError

    e = state["err"]
    kind = None
    if isinstance(e, DedentError):
        kind = "DedentError"
    elif isinstance(e, AssertionError):
        kind = "ParenAssertion"
    elif isinstance(e, UnexpectedCharacters):
        kind = "Lex:" + repr(text[e.pos_in_stream:e.pos_in_stream + 1])
    elif e is not None:
        kind = "Other:" + type(e).__name__
    return {"text": text, "pre": pre, "post": post, "ierr": kind, "lex_pos": getattr(e, "pos_in_stream", None),
            "complete": state["exhausted"], "parse_error": type(perr).__name__ if perr else None}


OPEN_T = {"LPAR", "LSQB", "LBRACE"}
CLOSE_T = {"RPAR", "RSQB", "RBRACE"}


def _gap_segs(s):
    out, i = [], 0
    while i < len(s):
        c = s[i]
        if c == " ":
            out.append("SSp")
        elif c == "\t":
            out.append("STab")
        elif c == "#":
            j = s.find("\n", i)
            j = len(s) if j < 0 else j
            out.append("SComment")
            i = j
            continue
        else:
            return None
        i += 1
    return out


def lexdiff_case(P, content, codes):
    """-> dict(segs=[...], complete, expected=(...)) or dict(skip=reason)"""
    r = _tok_streams(P, content)
    text = r["text"]
    segs, pos = [], 0

    def code(t):
        return codes.setdefault(t, len(codes) + 1)

    for typ, a, b, val in r["pre"]:
        if a is None:
            continue
        g = _gap_segs(text[pos:a])
        if g is None:
            return {"skip": "unclassifiable gap %r" % text[pos:a][:20]}
        segs += g
        if typ == "_NEWLINE":
            for ch in val:
                if ch == "\n":
                    segs.append("SNl")
                elif ch == " ":
                    segs.append("SSp")
                elif ch == "\t":
                    segs.append("STab")
                else:
                    return {"skip": "carriage return in _NEWLINE"}
        elif typ in OPEN_T:
            segs.append("SOpen")
        elif typ in CLOSE_T:
            segs.append("SClose")
        else:
            segs.append("STok %d" % code(typ))
        pos = b
    post = []
    for typ in r["post"]:
        post.append({"_NEWLINE": "ONL", "_INDENT": "OIndent", "_DEDENT": "ODedent"}.get(typ)
                    or ("OOpen" if typ in OPEN_T else "OClose" if typ in CLOSE_T else "OOther %d" % code(typ)))
    nls = []
    for typ, a, b, val in r["pre"]:
        if typ == "_NEWLINE":
            ind = val.rsplit("\n", 1)[1]
            nls.append((ind.count(" "), ind.count("\t")))
    ierr = r["ierr"]
    if r["complete"]:
        g = _gap_segs(text[pos:])
        if g is None:
            return {"skip": "unclassifiable tail"}
        segs += g
        if not segs or segs[-1] != "SNl":
            return {"skip": "text does not end in a _NEWLINE token"}
        segs = segs[:-1]          # the model appends the final line break itself
        return {"segs": segs, "complete": True, "nls": nls, "post": post, "ierr": None, "parse_error": r["parse_error"]}
    if ierr and ierr.startswith("Lex:"):
        if ierr == "Lex:'\\t'":
            g = _gap_segs(text[pos:r["lex_pos"]])
            if g is None:
                return {"skip": "unclassifiable gap before lexing error"}
            return {"segs": segs + g + ["STab"], "complete": True, "lexerror": True, "parse_error": r["parse_error"]}
        return {"skip": "lexing error on content characters"}
    if ierr == "Other:UnexpectedToken":
        ierr = None      # the contextual lexer rejected a token on behalf of the parser: a parser stop, compare prefixes
    if ierr and ierr.startswith("Other:"):
        return {"skip": ierr}
    # the parser (or the indenter) stopped early: compare prefixes; a sentinel token ends the last _NEWLINE run
    return {"segs": segs + ["STok 0"], "complete": False, "nls": nls, "post": post, "ierr": ierr,
            "parse_error": r["parse_error"]}


def v1pre_case(content):
    """raw lines as model characters + what the real get_numbered_lines returns (None: IndexError)."""
    from nemoguardrails.colang.v1_0.lang.utils import get_numbered_lines

    if re.search(r"[^\S \t\n]", content):
        return {"skip": "other whitespace characters"}
    raw = content.split("\n")
    # which physical lines start a statement and which are appended by the join: the same walk as
    # get_numbered_lines (comment / blank lines are skipped BEFORE the continuation marker is looked
    # at; a line that starts a statement with an unterminated double quote opens a multi-line string)
    has_cont = False
    if any('"""' in l for l in raw):
        return {"skip": "multi-line construct"}
    k, n = 0, len(raw)
    while k < n:
        s = raw[k].strip()
        if s.startswith('"') and not s.endswith('"'):
            return {"skip": "multi-line construct"}
        if s == "" or s[0] == "#":
            k += 1
            continue
        text = s
        while (k < n - 1 and text[-1] == "\\") or text.endswith(" or"):
            k += 1
            has_cont = True
            if k >= n:
                break                      # IndexError in the real code
            if text[-1] == "\\":
                text = text[:-1]
            if not text:
                break                      # IndexError in the real code
            if text[-1] != " ":
                text += " "
            text += raw[k].strip()
        k += 1
    if has_cont and any("#" in re.sub(r'"[^"]*"', "", l) and not l.strip().startswith("#") for l in raw):
        return {"skip": "end-of-line comment in a text with continuations"}     # word_split is not modelled
    try:
        got = get_numbered_lines(content)
    except IndexError:
        return {"raw": raw, "expected": None}
    except Exception as e:  # noqa
        return {"skip": "get_numbered_lines raised " + type(e).__name__}
    cms = None
    if not has_cont:
        cms = [[g["number"], None if g["comment"] is None else g["comment"].split("\n")] for g in got]
    exp = []
    for g in got:
        txt = g["text"]
        comparable = "#" not in re.sub(r'"[^"]*"', "", raw[g["number"] - 1]) if not has_cont else True
        exp.append([g["number"], g["indentation"], txt if comparable else None])
    return {"raw": raw, "expected": exp, "comments": cms}


def worker_main(jobfile, outfile):
    sys.path.insert(0, C.REPO)
    job = json.load(open(jobfile))
    out = open(outfile, "w")

    def emit(i, res):
        out.write(json.dumps({"i": i, "res": res}) + "\n")
        out.flush()

    def begin(i):
        out.write(json.dumps({"begin": i}) + "\n")
        out.flush()

    _quiet()
    st = {}

    def loader():
        if "ld" not in st:
            st["ld"] = _Loader()
        return st["ld"]

    def parser():
        if "P" not in st:
            from nemoguardrails.colang.v2_x.lang.parser import ColangParser

            st["P"] = ColangParser()
            st["codes"] = {}
        return st["P"]

    out.write(json.dumps({"ready": True}) + "\n")
    out.flush()
    for i, case in job["cases"]:
        kind = case["kind"]
        begin(i)
        if kind == "hostile":
            res = {}
            for entry in case.get("entries", ["from_path", "from_content"]):
                r = loader().load(entry, case["version"], case["content"])
                res[entry] = r[:2] + [r[2][:160]] if r[0] == "cpe" else r
            emit(i, res)
        elif kind == "layout":
            P = parser()
            content, version = case["content"], case["version"]
            rng = random.Random(case["seed"])
            base = parse_canon(content, version)
            res = {"base": base, "edits": []}
            if base[0] == "ok":
                try:
                    S = v2_safe_newlines(P._lark_parser, content) if version == "2.x" else None
                except Exception:  # the context-free lexer cannot read this text: no edit positions
                    S = []
                for kind_e, k in case["edits"]:
                    if version == "2.x":
                        ed, ins = v2_edit(kind_e, content, S, rng, k)
                    else:
                        ed, ins = v1_edit(kind_e, content, rng, k), None
                    if ed == content:
                        res["edits"].append([kind_e, k, "same-text", None])
                        continue
                    r = parse_canon(ed, version)
                    if r == base:
                        res["edits"].append([kind_e, k, "equal", None])
                    else:
                        # minimise: a single insertion that already changes the result (v2)
                        small = ed
                        if ins and kind_e != "scale":     # a scale edit is only meaningful as a whole
                            for one in ins:
                                e1 = apply_inserts(content, [one])
                                if parse_canon(e1, version) != base:
                                    small = e1
                                    break
                        if version == "1.0" and kind_e == "blank":
                            a = content.split("\n")
                            for j in range(1, len(a)):                  # ONE blank line that already matters
                                e1 = "\n".join(a[:j] + [""] + a[j:])
                                if e1 != content and parse_canon(e1, version) != base:
                                    small = e1
                                    break
                        if version == "1.0" and kind_e in ("trailing_ws", "trailing_tab"):
                            a, b_ = content.split("\n"), ed.split("\n")
                            for j in range(min(len(a), len(b_))):     # the edit of ONE physical line that already matters
                                if a[j] != b_[j]:
                                    e1 = "\n".join(a[:j] + [b_[j]] + a[j + 1:])
                                    if parse_canon(e1, version) != base:
                                        small = e1
                                        break
                        res["edits"].append([kind_e, k, "DIFF", {"edited": small, "got": parse_canon(small, version)}])
            emit(i, res)
        elif kind == "lexdiff":
            P = parser()
            try:
                emit(i, lexdiff_case(P, case["content"], st["codes"]))
            except Exception as e:  # noqa
                emit(i, {"skip": "harness: " + type(e).__name__ + ": " + str(e)[:100]})
        elif kind == "v1pre":
            emit(i, v1pre_case(case["content"]))
    if "ld" in st:
        st["ld"].close()
    out.close()


# =======================================================================================
# parent side: batches in child processes under `timeout`


STARTUP_GRACE = 240     # s without output tolerated while a worker imports the library (loaded machine)
STALL = 60              # s without progress on one case => the worker is killed, the case re-run alone


def run_batches(cases, nchunks, tag, hard_timeout=1500):
    """cases: list of dicts with a "kind".  Every chunk runs in a child process under `timeout`;
    the parent also watches progress: a case that makes no progress for STALL seconds is re-run
    alone and, if it stalls again, reported as a hang.
    Returns (results: {index: res}, hangs: [index], crashed: [(index, stderr)])."""
    import signal

    d = os.path.join(C.BUILD, "c13", tag)
    shutil.rmtree(d, ignore_errors=True)
    os.makedirs(d)
    indexed = list(enumerate(cases))
    results, hangs, crashed = {}, [], []
    nchunks = max(1, min(nchunks, len(indexed)))
    queue = [indexed[k::nchunks] for k in range(nchunks)]
    running = []
    n = 0
    env = dict(os.environ)
    env.update(C.impl_env())
    env["PYTHONPATH"] = C.VERIF + os.pathsep + C.REPO

    def start(part):
        nonlocal n
        n += 1
        jf = os.path.join(d, f"job{n}.json")
        of = os.path.join(d, f"out{n}.jsonl")
        json.dump({"cases": part}, open(jf, "w"))
        p = subprocess.Popen(["timeout", "-k", "5", str(hard_timeout), C.PY, "-m", "harness.c13", "--worker", jf, of],
                             cwd=C.VERIF, env=env, stdout=subprocess.DEVNULL, stderr=subprocess.PIPE,
                             start_new_session=True)
        return {"p": p, "part": part, "of": of, "size": -1, "t": time.time(), "ready": False}

    def read(of):
        done, begun, ready = {}, None, False
        if os.path.exists(of):
            for line in open(of):
                try:
                    r = json.loads(line)
                except Exception:
                    continue
                if "ready" in r:
                    ready = True
                elif "begin" in r:
                    begun = r["begin"]
                else:
                    done[r["i"]] = r["res"]
        return done, begun, ready

    while queue or running:
        while queue and len(running) < C.NPROC:
            running.append(start(queue.pop(0)))
        time.sleep(0.1)
        still = []
        for w in running:
            rc = w["p"].poll()
            stalled = False
            if rc is None:
                try:
                    size = os.path.getsize(w["of"])
                except OSError:
                    size = -1
                if size != w["size"]:
                    w["size"], w["t"] = size, time.time()
                    if size > 0:
                        w["ready"] = True
                limit = STALL if w["ready"] else STARTUP_GRACE
                if time.time() - w["t"] > limit:
                    try:
                        os.killpg(w["p"].pid, signal.SIGKILL)
                    except Exception:
                        pass
                    w["p"].wait()
                    rc, stalled = 124, True
                else:
                    still.append(w)
                    continue
            done, begun, ready = read(w["of"])
            results.update(done)
            rest = [(i, c) for i, c in w["part"] if i not in done]
            if rest:
                culprit = begun if begun is not None and begun not in done else rest[0][0]
                if rc in (124, 137, -9) or stalled:
                    if len(w["part"]) == 1 and ready:
                        hangs.append(culprit)
                    elif len(w["part"]) == 1:
                        crashed.append((culprit, "worker never became ready (startup stalled)"))
                    else:
                        queue.append([(i, c) for i, c in rest if i == culprit])
                        others = [(i, c) for i, c in rest if i != culprit]
                        if others:
                            queue.append(others)
                else:
                    err = (w["p"].stderr.read() or b"").decode("utf-8", "replace")[-600:]
                    if len(w["part"]) == 1:
                        crashed.append((culprit, err))
                    else:
                        queue.append([(i, c) for i, c in rest if i == culprit])
                        others = [(i, c) for i, c in rest if i != culprit]
                        if others:
                            queue.append(others)
        running = still
    return results, hangs, crashed


# =======================================================================================
# hostile corpus

HOSTILE_CHARS = list("\"'()[]{}#\\:$.,=+-*/<>!@|&%^~`?;") + ["\t", "\n", "\r", "\x0b", "\x0c", " ", "é", "→",
                                                                   " ", "\U0001d4b3", "﻿", " ", "\u0000", "\"\"\"", "'''", "...", "\\\n"]
V2_WORDS = ["flow", "match", "send", "await", "start", "stop", "activate", "if", "else", "elif", "while", "when", "or when",
            "and", "or", "not", "in", "is", "as", "return", "abort", "break", "continue", "pass", "log", "print", "priority",
            "global", "import", "$x", "$y", "a", "b", "Ev", "1", "2.5", "\"s\"", "'t'", "\"\"\"", "(", ")", "[", "]", "{", "}",
            ",", ".", ":", "=", "==", "+=", "->", "@", "#", "*", "**", "...", "None", "True", "regex", "\\"]
V1_WORDS = ["define", "flow", "subflow", "user", "bot", "event", "if", "else", "else if", "else when", "when", "while", "for",
            "execute", "do", "stop", "goto", "label", "set", "meta", "return", "break", "continue", "any", "infer", "or",
            "and", "$x", "$y", "=", "==", "\"s\"", "\"", "\"\"\"", "(", ")", ":", "#", "\\", "...", "priority", "1", "a", "b",
            "express greeting", "with", "as", "something", "import", "include", "context", "expect", "checkpoint"]


def mutate_text(rng, text):
    n = rng.choice([1, 1, 1, 2, 3, 5])
    for _ in range(n):
        if not text:
            text = rng.choice(HOSTILE_CHARS)
            continue
        op = rng.randrange(9)
        i = rng.randrange(len(text))
        if op == 0:
            text = text[:i] + text[i + 1:]
        elif op == 1:
            text = text[:i] + rng.choice(HOSTILE_CHARS) + text[i:]
        elif op == 2:
            text = text[:i] + rng.choice(HOSTILE_CHARS) + text[i + 1:]
        elif op == 3:
            text = text[:i]                                   # truncation
        elif op == 4:
            j = min(len(text), i + rng.randint(1, 30))
            text = text[:i] + text[j:]                        # delete a span
        elif op == 5:
            lines = text.split("\n")
            k = rng.randrange(len(lines))
            lines[k] = " " * rng.randint(0, 9) + lines[k].lstrip(" ")   # re-indent a line
            text = "\n".join(lines)
        elif op == 6:
            lines = text.split("\n")
            k = rng.randrange(len(lines))
            if rng.random() < 0.5:
                lines.insert(k, lines[k])
            else:
                del lines[k]
            text = "\n".join(lines)
        elif op == 7:
            j = rng.randrange(len(text))
            a, b = min(i, j), max(i, j)
            text = text[:a] + text[b:b + 1] + text[a + 1:b] + text[a:a + 1] + text[b + 1:]
        else:
            text = text[:i] + text[i:i + rng.randint(1, 20)] * 2 + text[i:]
    return text


def token_soup(rng, words):
    out = []
    for _ in range(rng.randint(1, 40)):
        r = rng.random()
        if r < 0.2:
            out.append("\n" + " " * rng.choice([0, 0, 1, 2, 2, 3, 4, 8]))
        elif r < 0.25:
            out.append(rng.choice(HOSTILE_CHARS))
        else:
            out.append(rng.choice(words))
        if rng.random() < 0.8:
            out.append(" ")
    return "".join(out)


def unicode_text(rng):
    pool = ["é", "中", "文", "\U0001f600", "́", "​", "‮", " ", " ", "\u0085", "a", "flow", "define",
            " ", "\n", "  ", "\"", "$", "λ", "ل", "�"]
    return "".join(rng.choice(pool) for _ in range(rng.randint(1, 60)))


def hostile_cases(rng, n, v1_files, v2_files):
    srcs = {"1.0": [], "2.x": []}
    for ver, files in (("1.0", v1_files), ("2.x", v2_files)):
        for rel in files:
            try:
                t = open(os.path.join(C.REPO, rel), encoding="utf-8").read()
            except Exception:
                continue
            srcs[ver].append((rel, t))
    cases, dist = [], {}
    fixed = [
        ("2.x", "flow main\n    match A\n  match B\n", "seed:dedent"),
        ("2.x", "flow main\n  match (A\n", "seed:eof-in-bracket"),
        ("2.x", "flow main", "seed:eof"),
        ("2.x", "flow main\n  )\n", "seed:rpar"),
        ("2.x", "flow main\n  match A\t\n", "seed:tab"),
        ("2.x", "import nosuchmodule\n\nflow main\n  match A\n", "seed:import"),
        ("1.0", "define flow a\n  \\\n  bot hello\n", "seed:backslash"),
        ("1.0", "define flow a\n  user hi or", "seed:trailing-or"),
        ("1.0", "define flow\n", "seed:anonymous"),
        ("1.0", "define flow a\n  else\n", "seed:else"),
        ("2.x", "flow a\n  $x = \"" + "\\" * 3000 + "\n", "seed:backslashes"),
        ("2.x", "flow a\n  match " + "(" * 400 + "\n", "seed:deep-brackets"),
        ("1.0", "define flow a\n" + "  if $x\n" * 1 + "".join("  " * (i + 2) + "if $x\n" for i in range(60)), "seed:deep-ifs"),
    ]
    for ver, t, kind in fixed:
        cases.append({"version": ver, "content": t, "origin": kind})
    while len(cases) < n:
        ver = rng.choice(["1.0", "2.x", "2.x"])
        r = rng.random()
        if r < 0.62 and srcs[ver]:
            rel, t = rng.choice(srcs[ver])
            if len(t) > 2500:                       # a window of lines keeps batches fast
                ls = t.split("\n")
                a = rng.randrange(len(ls))
                t = "\n".join(ls[a:a + rng.randint(5, 60)])
            kind = "mutation"
            content = mutate_text(rng, t)
            origin = "mutation:" + rel
        elif r < 0.72:
            unit, ls = (gen_v2 if ver == "2.x" else gen_v1)(rng)
            content = mutate_text(rng, render(unit, ls))
            kind, origin = "mutation-of-generated", "mutation:generated"
        elif r < 0.92:
            content = token_soup(rng, V2_WORDS if ver == "2.x" else V1_WORDS)
            kind, origin = "token-soup", "token-soup"
        else:
            content = unicode_text(rng)
            kind, origin = "unicode", "unicode"
        try:
            content.encode("utf-8")
        except UnicodeEncodeError:
            continue
        dist[kind + ":" + ver] = dist.get(kind + ":" + ver, 0) + 1
        cases.append({"version": ver, "content": content, "origin": origin})
    return cases, dist


# =======================================================================================
# wrapper injection (in-process: the parser is replaced, nothing can hang)


def injection_cases(rng, n):
    """Exception shapes: (class spec, line, column, str, content lines)."""
    import lark
    from lark.indenter import DedentError

    class Plain(Exception):
        pass

    class V(ValueError):
        pass

    class LarkLike(lark.exceptions.LarkError):
        pass

    classes = {"Plain": Plain, "V": V, "LarkLike": LarkLike, "DedentError": DedentError, "IndexError": IndexError,
               "KeyError": KeyError, "TypeError": TypeError, "AssertionError": AssertionError, "ValueError": ValueError,
               "RecursionError": RecursionError, "Exception": Exception, "AttributeError": AttributeError,
               "UnicodeError": UnicodeError, "NotImplementedError": NotImplementedError}
    ABSENT = "<absent>"
    cases = []
    for _ in range(n):
        nlines = rng.choice([0, 1, 1, 2, 3, 5])
        content = "\n".join(rng.choice(["flow a", "  match B", "", "x = 1", "define flow q"]) for _ in range(nlines))
        if nlines and rng.random() < 0.5:
            content += "\n"
        cname = rng.choice(sorted(classes))
        line = rng.choice([ABSENT, ABSENT, None, None, "3", 2.5, True, False] + list(range(-6, 9)))
        col = rng.choice([ABSENT, ABSENT, None, "1", 1.5, True] + list(range(-3, 12)))
        msg = rng.choice(["boom", "Unexpected token", "no \"quotes\" please", "", "x: y", "a\nb"])
        entry = rng.choice(["from_path", "from_content"])
        ok = rng.random() < 0.04
        cases.append({"cls": cname, "line": line, "column": col, "str": msg, "content": content, "entry": entry,
                      "version": rng.choice(["1.0", "2.x"]), "returns": ok})
    return cases, classes, ABSENT


def run_injection(case, classes, ABSENT, ld):
    import nemoguardrails.rails.llm.config as cfgmod

    cls = classes[case["cls"]]
    if case["cls"] == "KeyError":
        exc = cls(case["str"])
        expected_str = str(exc)
    else:
        exc = cls(case["str"])
        expected_str = str(exc)
    for attr in ("line", "column"):
        v = case[attr]
        if v != ABSENT:
            try:
                setattr(exc, attr, v)
            except Exception:
                pass

    def fake(filename, content=None, include_source_mapping=True, version="1.0"):
        if case["returns"]:
            return {}
        raise exc

    orig = cfgmod.parse_colang_file
    cfgmod.parse_colang_file = fake
    try:
        content = case["content"] or " "       # from_content skips an empty colang_content
        res = ld.load(case["entry"], case["version"], content)
    finally:
        cfgmod.parse_colang_file = orig
    mro = [c.__name__ for c in type(exc).__mro__ if c is not object]
    return res, mro, expected_str, content, hasattr(exc, "line"), hasattr(exc, "column"), getattr(exc, "line", None), getattr(exc, "column", None)


def coq_attr(present, v):
    if not present:
        return "AAbsent"
    if v is None:
        return "ANone"
    if isinstance(v, bool):
        return f"(AInt {C.coq_Z(int(v))})"
    if isinstance(v, int):
        return f"(AInt {C.coq_Z(v)})"
    return "AOther"


def coq_s(s):
    """Coq string expression for an ASCII str (newline -> nl)."""
    parts = s.split("\n")
    out = []
    for i, p in enumerate(parts):
        if p or len(parts) == 1:
            out.append(C.coq_string(p))
        if i < len(parts) - 1:
            out.append("nl")
    return out[0] if len(out) == 1 else "(" + " ++ ".join(out) + ")"


# =======================================================================================


def _coq_segs(segs):
    return "[" + "; ".join(segs) + "]"


def _lexdiff_term(r):
    if r.get("lexerror"):
        return f"({_coq_segs(r['segs'])}, true, ELexError)"
    nls = "[" + "; ".join(f"({a}, {b})" for a, b in r["nls"]) + "]"
    ierr = {None: "None", "DedentError": "(Some DedentError)", "ParenAssertion": "(Some ParenAssertion)"}[r["ierr"]]
    return f"({_coq_segs(r['segs'])}, {C.coq_bool(r['complete'])}, EStream {nls} {_coq_segs(r['post'])} {ierr})"


def _coq_chars(s):
    out = []
    for c in s:
        out.append({" ": "CSp", "\t": "CTab", "#": "CHash"}.get(c) or f"CChr {ord(c)}")
    return "[" + "; ".join(out) + "]"


def _v1pre_term(r):
    raw = "[" + "; ".join(_coq_chars(l) for l in r["raw"]) + "]"
    if r["expected"] is None:
        return f"({raw}, @None (list (N * N * option (list ch))))"
    exp = "[" + "; ".join(
        f"({n}, {ind}, {'None' if t is None else '(Some ' + _coq_chars(t) + ')'})" for n, ind, t in r["expected"]) + "]"
    return f"({raw}, Some {exp})"


def _v1cm_term(r):
    raw = "[" + "; ".join(_coq_chars(l) for l in r["raw"]) + "]"
    items = []
    for n, cm in r["comments"]:
        c = "(@None (list (list ch)))" if cm is None else "(Some [" + "; ".join(_coq_chars(x) for x in cm) + "])"
        items.append(f"({n}, {c})")
    return f"({raw}, [" + "; ".join(items) + "])"


def classify_layout_diff(version, kind, content, edited):
    """Signature of a layout-edit sensitivity (defect class by edit kind + the line it hits)."""
    if kind == "trailing_tab":
        return f"v{version[0]}:trailing-tab-changes-parse"
    if kind == "comment" and edited:
        # the line that received the comment
        a, b = content.split("\n"), edited.split("\n")
        for x, y in zip(a, b):
            if x != y:
                s = x.strip()
                if s.startswith("..."):
                    return "v2:eol-comment-after-ellipsis(pre-parsing-expansion)"
                if s.endswith('"""') or s.endswith("'''"):
                    return "v2:eol-comment-after-docstring-close(pre-parsing-expansion)"
                break
    return f"v{version[0]}:{kind}-changes-parse"


def run(tier, seed, replay=None):
    out = C.Outcome(PID, tier, seed)
    rng = random.Random(seed * 1000003 + 13)
    sys.path.insert(0, C.REPO)
    b = C.build_and_audit(PID, GEN)
    C.proof_coverage(out, b, "make theories/Props/C13.vo && coqc Props/C13.v (Print Assumptions)")
    for br in b["broken"]:
        out.add_broken(br, b["log"])
    with C.BuildLock():
        okm, logm = C.coq_make(["theories/Svc/ParseWrapRun.vo", "theories/Svc/IndentRun.vo"])
    if any(br.startswith("translator:") for br in b["broken"]):
        # no constants for the current source: the models cannot be instantiated; the correspondences are
        # skipped (the direct oracles below still run and look for a failing input)
        okm = False
        out.notes.append("model correspondences skipped: translator failed")
    elif not okm:
        out.add_broken("coq:Svc/ParseWrapRun.v|IndentRun.v", logm)

    quick = tier == "quick"
    n_inject = 1500 if quick else 12000
    n_hostile = 5000 if quick else 60000
    n_gen = 150 if quick else 1500          # generated valid programs per language
    scale_ks = [2, 3] if quick else [2, 3, 5, 7]
    if replay:
        n_inject = n_hostile = n_gen = 0

    _quiet()
    v1_files, v2_files = shipped_files()
    t_start = time.time()
    timings = {}

    # ---------------------------------------------------------------- replay / corpus
    replay_cases = []
    corpus_dir = os.path.join(C.VERIF, "corpus", PID)
    corpus_n = 0
    if os.path.isdir(corpus_dir):
        for fn in sorted(os.listdir(corpus_dir)):
            if fn.endswith(".json"):
                replay_cases.append(json.load(open(os.path.join(corpus_dir, fn))))
                corpus_n += 1
    if replay:
        d = json.load(open(replay))
        replay_cases = [d.get("replay", d)]

    # ---------------------------------------------------------------- (X) wrapper injection
    ld = _Loader()
    inj, classes, ABSENT = injection_cases(rng, n_inject)
    for rc in replay_cases:
        if rc.get("kind") == "inject":
            inj.insert(0, rc["case"])
    terms, kept = [], []
    inj_hist = {}
    seen = set()
    nontrivial = 0
    for case in inj:
        if case["line"] == "<absent>":
            case["line"] = ABSENT
        if case["column"] == "<absent>":
            case["column"] = ABSENT
        res, mro, estr, content, hl, hc, lv, cv = run_injection(case, classes, ABSENT, ld)
        inj_hist[res[0]] = inj_hist.get(res[0], 0) + 1
        path = ld.co
        if res[0] == "ok":
            obs = "XOk"
        elif res[0] == "cpe":
            obs = None  # message needed in full
        else:
            obs = f"(XEscape {C.coq_string(res[1])})"
        # direct oracle
        if res[0] == "escape":
            out.findings.append(C.Finding(res[2], f"{case['entry']} raised {res[1]} instead of ColangParsingError for a parser exception "
                                          f"{case['cls']}(line={case['line']!r}, column={case['column']!r})",
                                          {"kind": "inject", "case": case, "observed": res}))
        if res[0] == "cpe":
            try:
                obs = f"(XParsingError {coq_s(res[2])})"
            except ValueError:
                continue
        try:
            lines = content.splitlines()
            o = "POk" if case["returns"] else (
                "(PRaise {| e_isa := %s; e_line := %s; e_column := %s; e_str := %s |})"
                % (C.coq_list([C.coq_string(m) for m in mro]), coq_attr(hl, lv), coq_attr(hc, cv), coq_s(estr)))
            t = ("{| w_content_entry := %s; w_path := %s; w_version := %s; w_outcome := %s; w_lines := %s; w_observed := %s |}"
                 % (C.coq_bool(case["entry"] == "from_content"), C.coq_string(path), C.coq_string(case["version"]), o,
                    C.coq_list([coq_s(l) for l in lines]), obs))
        except ValueError:
            continue
        terms.append(t)
        kept.append((case, res))
        h = C.canon_hash([case["cls"], str(case["line"]), str(case["column"]), case["entry"], len(lines), case["returns"]])
        if h not in seen:
            seen.add(h)
            if not case["returns"] and (case["line"] is None or case["line"] == ABSENT or not isinstance(case["line"], int)
                                        or isinstance(case["line"], bool) or not (1 <= case["line"] <= len(lines))):
                nontrivial += 1
    ld.close()
    timings["inject_s"] = round(time.time() - t_start, 1)
    inj_disagree = []
    if okm and terms:
        bools, err = C.run_cases(PID + "_wrap", PRE_WRAP, terms, "check_wrap")
        if err:
            out.add_broken("correspondence:C13-wrapper(coqc)", err)
        else:
            inj_disagree = [c for ok, c in zip(bools, kept) if not ok]
            if inj_disagree:
                case, res = min(inj_disagree, key=lambda c: len(json.dumps(c[0], default=str)))
                i = kept.index((case, res))
                model = C.eval_term(PID + "_wrap", PRE_WRAP, f"model_of ({terms[i]})")
                out.add_broken("correspondence:C13-wrapper",
                               f"{len(inj_disagree)} disagreements; smallest: case={case} impl={res} model={model[-600:]}")

    # ---------------------------------------------------------------- programs for the layout checks
    progs = {"1.0": [], "2.x": []}
    for ver, files in (("1.0", v1_files), ("2.x", v2_files)):
        for rel in files:
            try:
                progs[ver].append(("shipped:" + rel, open(os.path.join(C.REPO, rel), encoding="utf-8").read()))
            except Exception:
                pass
    if replay:
        progs = {"1.0": [], "2.x": []}
    for _ in range(n_gen):
        u, ls = gen_v2(rng)
        tabbed = rng.random() < 0.12            # Colang 2.x also accepts tab indentation (a tab counts 8 columns)
        progs["2.x"].append(("generated-tabs" if tabbed else "generated",
                             render(1 if tabbed else u, ls, tail_newline=rng.random() < 0.8, ch="\t" if tabbed else " ")))
        u, ls = gen_v1(rng)
        progs["1.0"].append(("generated", render(u, ls, tail_newline=rng.random() < 0.8)))
    # a few v2 programs whose first line is indented / with broken indentation (lexdiff only)
    broken_v2 = []
    for _ in range(n_gen // 2):
        u, ls = gen_v2(rng)
        t = render(u, ls).split("\n")
        k = rng.randrange(len(t))
        t[k] = " " * rng.randint(0, 7) + t[k].lstrip(" ")
        if rng.random() < 0.2:
            t[rng.randrange(len(t))] += rng.choice(["\t", " )", " ]"])
        broken_v2.append(("generated-broken-indent", "\n".join(t)))

    # ---------------------------------------------------------------- layout end-to-end differential (oracle, first half)
    lay_cases = []
    for ver in ("1.0", "2.x"):
        kinds = ["blank", "trailing_ws", "trailing_tab"] + (["comment"] if ver == "2.x" else [])
        for origin, content in progs[ver]:
            edits = [[k, 0] for k in kinds] + [["blank", 1]] + [["scale", k] for k in scale_ks]
            lay_cases.append({"version": ver, "content": content, "origin": origin, "edits": edits,
                              "seed": rng.randrange(1 << 30)})
    for rc in replay_cases:
        if rc.get("kind") == "layout":
            lay_cases.insert(0, {"version": rc["version"], "content": rc["content"], "origin": "replay",
                                 "edits": [], "seed": 0, "explicit_edit": rc["edited"], "edit_kind": rc["edit"]})
    explicit = [c for c in lay_cases if "explicit_edit" in c]
    lay_cases = [c for c in lay_cases if "explicit_edit" not in c]
    lex_cases = [{"content": c, "origin": o} for o, c in progs["2.x"]] + [{"content": c, "origin": o} for o, c in broken_v2]
    # edited variants of a sample (so that blank/comment/scale edits are exercised through the model as well)
    lex_extra = []
    if not replay:
        sys.path.insert(0, C.REPO)
        from nemoguardrails.colang.v2_x.lang.parser import ColangParser
        Pp = ColangParser()
        sample = progs["2.x"][:: max(1, len(progs["2.x"]) // (60 if quick else 400))]
        for o, c in sample:
            try:
                S = v2_safe_newlines(Pp._lark_parser, c)
            except Exception:
                continue
            for kind_e, k in (("blank", 0), ("comment", 0), ("trailing_ws", 0), ("trailing_tab", 0), ("scale", 3)):
                ed, _ = v2_edit(kind_e, c, S, rng, k)
                if ed != c:
                    lex_extra.append({"content": ed, "origin": o + "+" + kind_e})
    lex_cases += lex_extra
    v1_cases = [{"content": rc["content"], "origin": "corpus"} for rc in replay_cases if rc.get("kind") == "v1pre"]
    v1_cases += [{"content": c, "origin": o} for o, c in progs["1.0"]]
    v1_extra = []
    for o, c in progs["1.0"][:: max(1, len(progs["1.0"]) // (80 if quick else 500))]:
        for kind_e, k in (("blank", 0), ("trailing_ws", 0), ("trailing_tab", 0), ("scale", 3)):
            v1_extra.append({"content": v1_edit(kind_e, c, rng, k), "origin": o + "+" + kind_e})
        ls = c.split("\n")
        if ls:
            k = rng.randrange(len(ls))
            ls[k] = rng.choice(["\t", " \t ", "   # c", "#x"]) + ls[k]
            v1_extra.append({"content": "\n".join(ls), "origin": o + "+prefix"})
    v1_cases += v1_extra
    hcases, hdist = hostile_cases(rng, n_hostile, v1_files, v2_files) if n_hostile else ([], {})
    for rc in replay_cases:
        if rc.get("kind") == "hostile":
            hcases.insert(0, {"version": rc["version"], "content": rc["content"], "origin": "replay",
                              "entries": rc.get("entries", ["from_path", "from_content"])})

    # ---------------------------------------------------------------- one pool of child processes for everything that runs the real parsers
    pool_cases, pool_ranges = [], {}
    for kind_p, lst in (("layout", lay_cases), ("lexdiff", lex_cases), ("v1pre", v1_cases), ("hostile", hcases)):
        pool_ranges[kind_p] = (len(pool_cases), len(lst))
        pool_cases += [dict(c, kind=kind_p) for c in lst]
    t0 = time.time()
    order = list(range(len(pool_cases)))
    random.Random(seed + 1).shuffle(order)          # mix cheap and expensive cases in every chunk
    p_res, p_hangs, p_crashed = run_batches([pool_cases[i] for i in order], 3 * C.NPROC, "pool") if pool_cases else ({}, [], [])
    p_res = {order[i]: r for i, r in p_res.items()}
    p_hangs = [order[i] for i in p_hangs]
    p_crashed = [(order[i], e) for i, e in p_crashed]
    timings["pool_s"] = round(time.time() - t0, 1)

    def pooled(kind_p):
        a, n = pool_ranges[kind_p]
        return ({i - a: r for i, r in p_res.items() if a <= i < a + n}, [i - a for i in p_hangs if a <= i < a + n],
                [(i - a, e) for i, e in p_crashed if a <= i < a + n])

    for c in explicit:
        sys.path.insert(0, C.REPO)
        base, got = parse_canon(c["content"], c["version"]), parse_canon(c["explicit_edit"], c["version"])
        if base[0] == "ok" and got != base:
            sig = classify_layout_diff(c["version"], c["edit_kind"], c["content"], c["explicit_edit"])
            out.findings.append(C.Finding(sig, f"replay: {c['edit_kind']} edit changes the parse result ({got[:2]})",
                                          {"kind": "layout", "version": c["version"], "edit": c["edit_kind"],
                                           "content": c["content"], "edited": c["explicit_edit"], "got": got}))
    lay_res, lay_hangs, lay_crashed = pooled("layout")
    lay_stats = {"programs_ok": 0, "programs_rejected": 0, "edits_equal": 0, "edits_same_text": 0, "edits_diff": 0}
    lay_by_kind = {}
    rejected_shipped = []
    for i, c in enumerate(lay_cases):
        r = lay_res.get(i)
        if r is None:
            continue
        if r["base"][0] != "ok":
            lay_stats["programs_rejected"] += 1
            if c["origin"].startswith("shipped:"):
                rejected_shipped.append(c["origin"])
            continue
        lay_stats["programs_ok"] += 1
        for kind_e, k, verdict, info in r["edits"]:
            key = f"v{c['version'][0]}:{kind_e}" + (f"x{k}" if kind_e == "scale" else "-every-gap" if kind_e == "blank" and k else "")
            lay_by_kind.setdefault(key, [0, 0])
            if verdict == "equal":
                lay_stats["edits_equal"] += 1
                lay_by_kind[key][0] += 1
            elif verdict == "same-text":
                lay_stats["edits_same_text"] += 1
            else:
                lay_stats["edits_diff"] += 1
                lay_by_kind[key][1] += 1
                sig = classify_layout_diff(c["version"], kind_e, c["content"], info["edited"])
                out.findings.append(C.Finding(sig, f"{c['origin']}: {kind_e} edit changes the parse result ({info['got'][:2]})",
                                              {"kind": "layout", "version": c["version"], "edit": kind_e, "k": k,
                                               "content": c["content"], "edited": info["edited"], "got": info["got"]}))
    for i in lay_hangs:
        c = lay_cases[i]
        out.findings.append(C.Finding(f"v{c['version'][0]}:parser-hang", f"{c['origin']}: parse did not finish within the timeout",
                                      {"kind": "hostile", "version": c["version"], "content": c["content"], "entries": ["from_path"]}))
    for i, err in lay_crashed:
        out.add_broken("harness:layout-worker-crash", err)

    # ---------------------------------------------------------------- (X) lexer/indenter differential
    lex_res, lex_hangs, lex_crashed = pooled("lexdiff")
    lterms, lkept, lskip = [], [], {}
    lex_shapes = {"complete": 0, "prefix": 0, "lexerror": 0, "dedent_error": 0}
    for i, c in enumerate(lex_cases):
        r = lex_res.get(i)
        if r is None:
            continue
        if "skip" in r:
            lskip[r["skip"][:40]] = lskip.get(r["skip"][:40], 0) + 1
            continue
        if r.get("lexerror"):
            lex_shapes["lexerror"] += 1
        elif r["complete"]:
            lex_shapes["complete"] += 1
        else:
            lex_shapes["prefix"] += 1
        if r.get("ierr") == "DedentError":
            lex_shapes["dedent_error"] += 1
        lterms.append(_lexdiff_term(r))
        lkept.append((c, r))
    lex_disagree = 0
    if okm and lterms:
        t0 = time.time()
        bools, err = C.run_cases(PID + "_lex", PRE_LAYOUT, lterms, "check_layout", shard=60)
        timings["lexdiff_coq_s"] = round(time.time() - t0, 1)
        if err:
            out.add_broken("correspondence:C13-layout(coqc)", err)
        else:
            bad = [(c, r, t) for ok, (c, r), t in zip(bools, lkept, lterms) if not ok]
            lex_disagree = len(bad)
            if bad:
                c, r, t = min(bad, key=lambda x: len(x[0]["content"]))
                model = C.eval_term(PID + "_lex", PRE_LAYOUT,
                                    f"layout ignore_tab_now tab_len_now {_coq_segs([s for s in r['segs']])}")
                out.add_broken("correspondence:C13-layout",
                               f"{len(bad)} disagreements; smallest ({c['origin']}): content={c['content']!r} recorded={ {k: r.get(k) for k in ('nls', 'post', 'ierr', 'complete', 'lexerror')} } model={model[-800:]}")
    for i, err in lex_crashed:
        out.add_broken("harness:lexdiff-worker-crash", err)

    # ---------------------------------------------------------------- (X) v1 pre-processing differential
    t0 = time.time()
    v1_res, _, v1_crashed = pooled("v1pre")
    vterms, vkept, vskip = [], [], 0
    cterms, ckept = [], []
    for i, c in enumerate(v1_cases):
        r = v1_res.get(i)
        if r is None:
            continue
        if "skip" in r:
            vskip += 1
            continue
        vterms.append(_v1pre_term(r))
        vkept.append(c)
        if r.get("comments") is not None:
            cterms.append(_v1cm_term(r))
            ckept.append(c)
    v1_disagree = 0
    if okm and vterms:
        bools, err = C.run_cases(PID + "_v1pre", PRE_LAYOUT, vterms, "check_v1", shard=40)
        if err:
            out.add_broken("correspondence:C13-v1-lines(coqc)", err)
        else:
            bad = [c for ok, c in zip(bools, vkept) if not ok]
            v1_disagree = len(bad)
            if bad:
                c = min(bad, key=lambda x: len(x["content"]))
                out.add_broken("correspondence:C13-v1-lines",
                               f"{len(bad)} disagreements with get_numbered_lines; smallest ({c['origin']}): {c['content']!r}")
    if okm and cterms:
        bools, err = C.run_cases(PID + "_v1cm", PRE_LAYOUT, cterms, "check_v1cm", shard=40)
        if err:
            out.add_broken("correspondence:C13-v1-comments(coqc)", err)
        else:
            bad = [c for ok, c in zip(bools, ckept) if not ok]
            v1_disagree += len(bad)
            if bad:
                c = min(bad, key=lambda x: len(x["content"]))
                out.add_broken("correspondence:C13-v1-comments",
                               f"{len(bad)} disagreements on the pending comment of get_numbered_lines; smallest ({c['origin']}): {c['content']!r}")
    timings["v1pre_s"] = round(time.time() - t0, 1)
    for i, err in v1_crashed:
        out.add_broken("harness:v1pre-worker-crash", err)

    # ---------------------------------------------------------------- hostile corpus through the real loaders (oracle, second half)
    h_res, h_hangs, h_crashed = pooled("hostile")
    h_hist = {}
    h_by_sig = {}
    for i, c in enumerate(hcases):
        r = h_res.get(i)
        if r is None:
            continue
        for entry, res in r.items():
            h_hist[entry + ":" + res[0]] = h_hist.get(entry + ":" + res[0], 0) + 1
            if res[0] == "escape":
                h_by_sig.setdefault(res[2], []).append((c, entry, res))
    for sig, lst in sorted(h_by_sig.items()):
        c, entry, res = min(lst, key=lambda x: len(x[0]["content"]))
        c2 = _shrink_hostile(c, entry, sig)
        out.findings.append(C.Finding(sig, f"{entry} raised {res[1]} ({res[3][:80]!r}) for a colang_version {c['version']} file; {len(lst)} inputs",
                                      {"kind": "hostile", "version": c["version"], "content": c2, "entries": [entry],
                                       "origin": c["origin"], "observed": res}))
    for i in sorted(h_hangs, key=lambda i: len(hcases[i]["content"])):
        c = hcases[i]
        out.findings.append(C.Finding(f"v{c['version'][0]}:loader-hang", f"loading did not finish within the timeout ({c['origin']})",
                                      {"kind": "hostile", "version": c["version"], "content": c["content"]}))
    for i, err in h_crashed:
        c = hcases[i]
        out.findings.append(C.Finding(f"v{c['version'][0]}:loader-crashes-process", f"loader killed the process ({c['origin']}): {err[-200:]}",
                                      {"kind": "hostile", "version": c["version"], "content": c["content"]}))

    # ---------------------------------------------------------------- evidence
    hostile_loads = sum(h_hist.values())
    distinct_hostile = len({C.canon_hash([c["version"], c["content"]]) for c in hcases})
    out.coverage.update({
        "evaluations": len(terms) + len(lterms) + len(vterms) + hostile_loads
                       + lay_stats["edits_equal"] + lay_stats["edits_diff"],
        "distinct_nontrivial": nontrivial + lex_shapes["prefix"] + lex_shapes["lexerror"] + lex_shapes["complete"],
        "rule": "wrapper: distinct (class, line, column, entry, #lines) shapes whose position is NOT directly usable "
                "(attribute absent / None / non-int / outside 1..#lines) - the shapes on which the pinned formatter raises; "
                "layout: distinct programs whose real token stream was compared with the model (complete, prefix up to the "
                "parser's own error, or lexing error)",
        "samples": [{"inject": kept[i][0], "impl": kept[i][1]} for i in range(min(3, len(kept)))]
                   + [{"layout": lkept[i][0]["origin"], "recorded_nls": lkept[i][1].get("nls", [])[:8]} for i in range(min(2, len(lkept)))]
                   + [{"hostile": {k: hcases[i][k] for k in ("version", "origin")}, "content": hcases[i]["content"][:80], "impl": h_res.get(i)}
                      for i in range(13, min(16, len(hcases)))],
        "input_distribution": {
            "injection_results": inj_hist, "hostile_kinds": hdist, "hostile_results": h_hist,
            "hostile_distinct_contents": distinct_hostile,
            "hostile_escape_signatures": {k: len(v) for k, v in h_by_sig.items()},
            "layout_e2e": lay_stats, "layout_e2e_by_edit[equal,diff]": lay_by_kind,
            "shipped_files": {"v1": len(v1_files), "v2": len(v2_files), "rejected_by_parser_unedited": rejected_shipped},
            "generated_programs_per_language": n_gen,
            "lexdiff_shapes": lex_shapes, "lexdiff_skipped": lskip, "v1pre_compared": len(vterms), "v1_comment_carry_over_compared": len(cterms), "v1pre_skipped_multiline": vskip,
            "corpus_cases": corpus_n, "timings": timings,
        },
        "traces_validated_against_impl": len(terms) + len(lterms) + len(vterms) + len(cterms),
        "correspondence_disagreements": len(inj_disagree) + lex_disagree + v1_disagree,
        "oracle_violations": len(out.findings),
        "hangs": len(h_hangs) + len(lay_hangs),
    })
    out.assumptions += [
        "PARTIAL BY NATURE: the Lark LALR tables + contextual lexer for content tokens, ColangTransformer, _apply_pre_parsing_expansions "
        "and the Colang 1.0 parser behind get_numbered_lines are NOT modelled; that they are functions of the modelled token stream / "
        "numbered lines, terminate and raise only Exception subclasses is explored by the timeout-guarded corpus, not proved",
        "the parser is an oracle in C13_wrapper_total: any outcome, any Exception subclass with any line/column/str; BaseException-only "
        "exceptions (KeyboardInterrupt, SystemExit) are excluded by hypothesis; str(exception) itself is assumed not to raise",
        "str.splitlines(), f-string rendering and isinstance are Python's; non-int line/column objects are one abstract value (AOther)",
        "steps after parsing (import resolution, RailsConfig validation) are outside the wrapper model; covered by the hostile corpus only",
        "layout model: carriage returns are not modelled; content tokens incl. multi-line strings and the and/or tokens that swallow a "
        "line break are opaque; segmentation of real text uses the token positions recorded from the real lexer",
        "Colang 1.0 model covers strip/skip/indentation counting only (no multi-line strings, triple-quoted comments, continuations)",
    ]
    if tier == "thorough" and b["ok"]:
        ok, log = C.coqchk(PID, b["files"])
        out.coverage["coqchk"] = "ok" if ok else "FAILED"
        if not ok:
            out.add_broken("coqchk", log)
    return C.finish(out)


def _shrink_hostile(c, entry, sig, budget=60):
    """Greedy line/character deletion keeping the same signature (run in a child under timeout)."""
    content = c["content"]
    if len(content) <= 12:
        return content

    def same(cands):
        res, hangs, crashed = run_batches([{"kind": "hostile", "version": c["version"], "content": x, "entries": [entry]} for x in cands],
                                          8, "shrink")
        return [i for i in range(len(cands)) if res.get(i, {}).get(entry, [None, None, None])[0] == "escape"
                and res[i][entry][2] == sig]

    rounds = 0
    while rounds < 6:
        rounds += 1
        lines = content.split("\n")
        cands = []
        if len(lines) > 1:
            step = max(1, len(lines) // 8)
            for a in range(0, len(lines), step):
                cands.append("\n".join(lines[:a] + lines[a + step:]))
        else:
            step = max(1, len(content) // 8)
            for a in range(0, len(content), step):
                cands.append(content[:a] + content[a + step:])
        cands = [x for x in cands if x and x != content][:budget]
        if not cands:
            break
        ok = same(cands)
        if not ok:
            break
        content = min((cands[i] for i in ok), key=len)
    return content


if __name__ == "__main__":
    if len(sys.argv) >= 4 and sys.argv[1] == "--worker":
        worker_main(sys.argv[2], sys.argv[3])
