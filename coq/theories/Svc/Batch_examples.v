(* C19 - non-vacuity: the hypotheses of the batching theorems are inhabited by a concrete
   three-request run (max_batch_size 2, request 2 finds the queue full, two batches in flight,
   the model answers the second batch first). *)
From Coq Require Import List Bool Arith Lia.
From NG Require Import Svc.EmbCache Svc.EmbCache_proofs Svc.Batch Svc.Batch_proofs Svc.Batch_live.
Import ListNotations.

Definition texts3 : list nat := [7; 8; 7].

Definition sched3 : list label :=
  [LReq 0; LReq 1; LReq 2;
   LBatch 0; LBatch 0;
   LReq 2;
   LBatch 1; LTimer 1; LBatch 1;
   LModel 1; LReq 2;
   LModel 0; LReq 1; LReq 0].

Definition emb3 (t : nat) : nat := 100 + t.
Definition s0_3 : state nat nat nat := init texts3 [].
Definition exec3 := exec Nat.eq_dec Nat.eq_dec (fun t : nat => t) emb3 2 CacheOff.
Definition run3 := run Nat.eq_dec Nat.eq_dec (fun t : nat => t) emb3 2 CacheOff.
Definition enabled3 := enabled Nat.eq_dec Nat.eq_dec (fun t : nat => t) emb3 2 CacheOff.

Definition final3 : state nat nat nat :=
  mkState [] [] 3 None (Some 1) true [0; 1] [0]
          [(7, RDone (Some 107)); (8, RDone (Some 108)); (7, RDone (Some 107))]
          [BDone; BDone] [].

(* hypotheses of C19_batch_safety: a schedule of enabled steps that completes every request *)
Example ex_exec3 : exec3 sched3 s0_3 = Some final3 /\ all_done final3 = true.
Proof. split; vm_compute; reflexivity. Qed.

(* an intermediate state of the same run: two batches awaiting the model, three requests
   waiting for their finished events *)
Example ex_exec3_mid :
  match exec3 (firstn 9 sched3) s0_3 with
  | Some s => batches s = [BModel (Some 0) [(0, 7); (1, 8)] [] [7; 8]; BModel (Some 1) [(2, 7)] [] [7]]
              /\ reqs s = [(7, RWaitFin 0 0); (8, RWaitFin 1 0); (7, RWaitFin 2 1)]
  | None => False
  end.
Proof. vm_compute. split; reflexivity. Qed.

Example ex_inj : inj_on (fun t : nat => t) (fun _ => True).
Proof. intros a b _ _ E. exact E. Qed.

(* hypothesis of C19_batch_liveness: a weakly fair infinite schedule *)
Definition isched3 (n : nat) : label := nth n sched3 (LReq 0).

Lemma run3_14 : run3 isched3 s0_3 14 = final3.
Proof. vm_compute. reflexivity. Qed.

Lemma final3_dead : forall l, enabled3 l final3 = false.
Proof.
  intros [i|k|k|k].
  - destruct i as [|[|[|[|i]]]]; reflexivity.
  - destruct k as [|[|[|k]]]; reflexivity.
  - destruct k as [|[|[|k]]]; reflexivity.
  - destruct k as [|[|[|k]]]; reflexivity.
Qed.

Lemma run3_ge : forall m, run3 isched3 s0_3 (14 + m) = final3.
Proof.
  induction m as [|m IH].
  - exact run3_14.
  - replace (14 + S m) with (S (14 + m)) by lia.
    change (run3 isched3 s0_3 (S (14 + m)))
      with (step_or_stay Nat.eq_dec Nat.eq_dec (fun t : nat => t) emb3 2 CacheOff (isched3 (14 + m)) (run3 isched3 s0_3 (14 + m))).
    rewrite IH. unfold step_or_stay.
    pose proof (final3_dead (isched3 (14 + m))) as Hd. unfold enabled3, enabled in Hd.
    destruct (step Nat.eq_dec Nat.eq_dec (fun t : nat => t) emb3 2 CacheOff (isched3 (14 + m)) final3); [discriminate|reflexivity].
Qed.

Example ex_fair3 :
  weakly_fair nat nat nat Nat.eq_dec Nat.eq_dec (fun t : nat => t) emb3 2 CacheOff isched3 s0_3.
Proof.
  intros n l _. exists (14 + n). split; [lia|]. left. rewrite run3_ge. apply final3_dead.
Qed.

(* cache: a history with hits, misses, duplicates and an "empty" text (0) on one store *)
Example ex_cache_history :
  let kg := fun t : nat => 2 * t in
  let emb := fun t : nat => 100 + t in
  let h := [[3; 1; 3]; []; [0; 1]] in
  w_results (wrapper Nat.eq_dec Nat.eq_dec kg true (map emb) (store_after Nat.eq_dec Nat.eq_dec kg (map emb) [] h) [1; 2; 0; 2; 3])
  = map (fun t => Some (emb t)) [1; 2; 0; 2; 3]
  /\ w_calls (wrapper Nat.eq_dec Nat.eq_dec kg true (map emb) (store_after Nat.eq_dec Nat.eq_dec kg (map emb) [] h) [1; 2; 0; 2; 3])
  = [[2; 2]].
Proof. vm_compute. split; reflexivity. Qed.
