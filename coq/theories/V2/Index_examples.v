(* C09 - examples: the hypotheses of the property theorems are inhabited by non-trivial states. *)
From Coq Require Import NArith List Bool.
From NG Require Import V2.Index V2.Index_proofs V2.IndexRun.
Import ListNotations.
Open Scope N_scope.

(* ---------------------------------------------------------------- the hypotheses of the
   property theorems are inhabited by a non-trivial reachable state *)

Definition s_ex : state :=
  mkS [(1, mkI FStarted [(10, mkH 1 HInactive); (11, mkH 3 HActive); (12, mkH 6 HActive)])]
      [(1, []); (2, [(1, 11)]); (3, [(1, 12)])]
      [((1, 11), 2); ((1, 12), 3)].

Definition sn_ex : snapshot := mkSnap 0 [] [(1, mkR [] [] [] [] [10])] s_ex.

Example reachable_nontrivial :
  run (prog_of t0) empty_state ops0 = Ok s_ex
  /\ ix_get s_ex 2 = [(1, 11)]
  /\ quiescentb (prog_of t0) sn_ex = true
  /\ exactb (prog_of t0) s_ex = true.
Proof. vm_compute. repeat split. Qed.

Example no_stopping_inhabited : no_stopping s_ex.
Proof.
  intros f i H. unfold find_inst in H. apply Ng_Some_in in H.
  destruct H as [H|[]]. inversion H; subst. simpl. intro X. discriminate X.
Qed.

(* a `stopping` instance keeps stale entries until _abort_flow clears the heads: the sandwich,
   not exactness, is what holds there (Abort element in a forked flow) *)
Example stopping_state_is_not_exact :
  match run (prog_of t0) empty_state (ops0 ++ [OInstStatus 1 FStopping; OSetPos 1 11 9 Fire]) with
  | Ok s => negb (exactb (prog_of t0) s) && existsb (key_eqb (1, 12)) (ix_get s 3)
  | Fail _ => false
  end = true.
Proof. vm_compute. reflexivity. Qed.

Example inv_inhabited : Inv (prog_of t0) s_ex.
Proof. apply (reachable_inv (prog_of t0) ops0). vm_compute. reflexivity. Qed.
