"""Regenerate seeded/RESULTS.md from seeded/*/meta.json."""
import json
import os

VERIF = os.path.dirname(os.path.dirname(os.path.abspath(__file__)))
d = os.path.join(VERIF, "seeded")
rows = []
for n in sorted(os.listdir(d)):
    mp = os.path.join(d, n, "meta.json")
    if not os.path.exists(mp):
        continue
    m = json.load(open(mp))
    c = m.get("confirmed_by_coordinator", {})
    rows.append((n, m.get("property", n.split("-")[0]), m.get("caught_by", "?"),
                 c.get("demo_clean_exit"), c.get("demo_patched_exit"),
                 (m.get("summary", "") or "").replace("\n", " ")[:160],
                 (str(m.get("needs_to_manifest", "")) or "").replace("\n", " ")[:160]))
with open(os.path.join(d, "RESULTS.md"), "w") as f:
    f.write("# Seeded changes and what the checks did with them\n\n")
    f.write("`caught-with-replay` = `./check` exit 1 with a VIOLATION line and a concrete failing input; "
            "`caught-no-failing-input` = exit 1, a proof obligation / translator / correspondence broke but the search found no input; "
            "`MISSED` = exit 0.\n\n")
    f.write("| id | property | result | demo clean/patched | change | needs to manifest |\n|---|---|---|---|---|---|\n")
    for r in rows:
        f.write(f"| {r[0]} | {r[1]} | {r[2]} | {r[3]}/{r[4]} | {r[5]} | {r[6]} |\n")
    n = len(rows)
    f.write(f"\n{n} changes: " + ", ".join(f"{k}: {sum(1 for r in rows if r[2] == k)}" for k in sorted({r[2] for r in rows})) + "\n")
print(open(os.path.join(d, "RESULTS.md")).read()[-300:])
