(* C15 - Conversations served by one LLMRails instance do not influence each other.
   Property theorems only; every proof is `exact <lemma>`; Print Assumptions beneath each.
   `hist_lookup_verifies_messages`, `sep_now`, `contributes_now` are read from the CURRENT source
   by translator/gen_c15.py (Gen/C15Consts.v): without the verified lookup of
   fixes/C15-cache-verify.patch the first two theorems fail to check. *)
From Coq Require Import List String Ascii Bool Arith ZArith.
From NG Require Import Gen.C15Consts Svc.HistKey Svc.HistKey_proofs Svc.HistCache Svc.HistCache_proofs
                       Svc.HistCache_more Svc.HistRun Svc.Hist_now Svc.HistEvict
                       Svc.Params Svc.Params_proofs Svc.Params_more Svc.Ctx Svc.Ctx_proofs.
Import ListNotations.
Open Scope string_scope.
Open Scope list_scope.

(* (T) the current source takes a cache hit only for exactly the looked-up message list,
   LLMParams.__exit__ restores every saved parameter, and generate_async writes the
   generation-options context variable on entry of EVERY request (also with options = None) *)
Theorem C15_lookup_verified_in_source :
  hist_lookup_verifies_messages = true /\ params_exit_restores_all = true /\ ctx_options_always_set = true.
Proof. exact (conj eq_refl (conj eq_refl eq_refl)). Qed.
Print Assumptions C15_lookup_verified_in_source.

(* History cache, lookup of the current source, join key with ANY separator / role cases /
   alphabet, ANY generation function G and event conversion: for every schedule (sequence of
   requests of any number of conversations) every honest conversation - its requests are its
   own earlier requests and replies plus new messages that do not impersonate the service -
   is turned into exactly the events, and gets exactly the replies, it gets alone on a fresh
   instance.  Texts may contain the separator and mimic other messages. *)
Theorem C15_cache_isolation :
  forall (A : Type) (A_eq_dec : forall x y : A, {x = y} + {x <> y})
         (sep : list A) (contributes : role -> bool)
         (Ev : Type) (conv : list (msg A) -> list Ev) (G : list Ev -> list Ev)
         (reply : list Ev -> msg A) (is_reply : role -> bool),
    (forall ev, is_reply (m_role (reply ev)) = true) ->
    forall convs, honest A is_reply convs ->
    forall sched c,
      shared_trace A A_eq_dec (list A) (str_eqb A_eq_dec) (key sep contributes) Ev conv G reply
                   hist_lookup_verifies_messages convs sched c
      = firstn (count c sched)
               (alone A A_eq_dec (list A) (str_eqb A_eq_dec) (key sep contributes) Ev conv G reply
                      hist_lookup_verifies_messages (convs c)).
Proof. exact isolation_now. Qed.
Print Assumptions C15_cache_isolation.

(* The lookup as shipped (hit on the key alone) isolates conversations for every key function
   that is injective on the message lists in play *)
Theorem C15_cache_isolation_injective_key :
  forall (A : Type) (A_eq_dec : forall x y : A, {x = y} + {x <> y})
         (K : Type) (K_eqb : K -> K -> bool), (forall x y, K_eqb x y = true <-> x = y) ->
  forall (keyf : list (msg A) -> K)
         (Ev : Type) (conv : list (msg A) -> list Ev) (G : list Ev -> list Ev)
         (reply : list Ev -> msg A) (is_reply : role -> bool),
    (forall ev, is_reply (m_role (reply ev)) = true) ->
    forall convs, honest A is_reply convs ->
    keyf_injective_on A K keyf (in_play A Ev conv G reply convs) ->
    forall sched c,
      shared_trace A A_eq_dec K K_eqb keyf Ev conv G reply false convs sched c
      = firstn (count c sched) (alone A A_eq_dec K K_eqb keyf Ev conv G reply false (convs c)).
Proof. exact isolation_injective. Qed.
Print Assumptions C15_cache_isolation_injective_key.

(* ... and the key of the source is NOT injective, for every separator string: the separator
   is not escaped ("a<sep>R" vs "a","R"), roles are not part of it, other roles are invisible *)
Theorem C15_key_not_injective_any_separator :
  forall (A : Type) (sep : list A) (contributes : role -> bool),
    (exists r, contributes r = true) -> forall (a r : list A),
    ~ key_injective_on sep contributes (fun _ => True).
Proof. exact key_not_injective. Qed.
Print Assumptions C15_key_not_injective_any_separator.

(* defect F6 (regression documentation): with the key of the current source and the lookup as
   shipped, an honest conversation is turned into another conversation's events *)
Theorem C15_key_collision_refuted :
  (key_now [mk (RUser, "a:R")] = key_now [mk (RUser, "a"); mk (RAssistant, "R")] /\
   key_now [mk (RUser, "a")] = key_now [mk (RAssistant, "a")] /\
   key_now [mk (RUser, "a"); mk (ROther 0, "x")] = key_now [mk (RUser, "a")]) /\
  exists convs sched c,
    honest ascii is_reply_c convs /\
    shared_c false convs sched c <> firstn (count c sched) (alone_c false (convs c)).
Proof. exact (conj key_now_collisions collision_changes_events). Qed.
Print Assumptions C15_key_collision_refuted.

(* Verified lookup, ARBITRARY clients and cache contents (no honesty needed): entries stored for
   other message lists are never used - a request none of whose proper prefixes literally is a
   message list something was stored for is turned into the plain conversion of its messages,
   whatever keys those entries have *)
Theorem C15_unrelated_entries_ignored :
  forall (A : Type) (A_eq_dec : forall x y : A, {x = y} + {x <> y})
         (K : Type) (K_eqb : K -> K -> bool) (keyf : list (msg A) -> K)
         (Ev : Type) (conv : list (msg A) -> list Ev) (c : cache A K Ev) ms,
    (forall p e, 0 < p < List.length ms -> In e c -> e_msgs _ _ _ e <> firstn p ms) ->
    events_for A A_eq_dec K K_eqb keyf Ev conv true c ms = conv ms.
Proof. exact unrelated_entries_ignored. Qed.
Print Assumptions C15_unrelated_entries_ignored.

(* why the repair keeps one entry per MESSAGE LIST under a key: a repair that verifies the
   messages on a hit but keeps a single entry per key is refuted - another conversation evicts
   the entry and the continuing conversation is turned into different events *)
Theorem C15_evicting_repair_refuted :
  key_now (ev_xR ++ [reply_exc]) = key_now (ev_x ++ [reply_R]) /\
  events_for_c true cache_shared req2 <> events_for_c true cache_alone req2.
Proof. exact evicting_store_refuted. Qed.
Print Assumptions C15_evicting_repair_refuted.

(* LLMParams, one manager: when every altered parameter has a proper place (an attribute or an
   existing model_kwargs entry) exit after enter gives back exactly the configured object *)
Theorem C15_params_sequential :
  forall alt l, normal l alt -> exit_ (snd (enter alt l [])) (fst (enter alt l [])) = l.
Proof. exact exit_enter. Qed.
Print Assumptions C15_params_sequential.

(* LLMParams, any number of tasks, under the explicit no-overlap hypothesis (every call's
   enter / LLM call / exit run back to back): afterwards the object is the configured one,
   nothing is in flight, and every call saw the configured object with exactly its own
   parameters *)
Theorem C15_params_quiescent :
  forall l tasks sched,
    (forall t, Forall (normal l) (tasks t)) -> serial sched ->
    p_llm (s_st (fst (srun sched (sinit l tasks)))) = l /\
    quiescent (fst (srun sched (sinit l tasks))) /\
    Forall (fun ob => po_seen ob = with_params (po_own ob) l) (snd (srun sched (sinit l tasks))).
Proof. exact serial_ok. Qed.
Print Assumptions C15_params_quiescent.

(* ... and not only at the end: at EVERY moment of a no-overlap schedule at which nothing is in
   flight the parameters are the configured ones *)
Theorem C15_params_quiescent_always :
  forall l tasks sched pre post,
    (forall t, Forall (normal l) (tasks t)) -> serial sched -> sched = pre ++ post ->
    quiescent (fst (srun pre (sinit l tasks))) ->
    p_llm (s_st (fst (srun pre (sinit l tasks)))) = l.
Proof. exact quiescent_always_configured. Qed.
Print Assumptions C15_params_quiescent_always.

(* properly nested managers (LIFO) also restore the configured object *)
Theorem C15_params_nested_restores :
  forall l a b,
    normal l a -> normal (fst (enter a l [])) b ->
    let '(l1, sa) := enter a l [] in
    let '(l2, sb) := enter b l1 [] in
    exit_ sa (exit_ sb l2) = l.
Proof. exact nested_restores. Qed.
Print Assumptions C15_params_nested_restores.

(* known finding (regression documentation): two overlapping tasks - task 0's call runs with
   task 1's temperature and, after both finished, the temperature is not the configured one *)
Theorem C15_params_concurrent_refuted :
  exists l tasks sched,
    (forall t, Forall (normal l) (tasks t)) /\
    let s' := fst (srun sched (sinit l tasks)) in
    let log := snd (srun sched (sinit l tasks)) in
    (forall t, t < 2 -> s_prog s' t = [] /\ p_open (s_st s') t = []) /\
    p_llm (s_st s') <> l /\
    exists ob, In ob log /\ po_task ob = 0 /\ po_own ob = [(0, PVal 200)] /\
               po_seen ob = with_params [(0, PVal 900)] l /\ po_seen ob <> with_params (po_own ob) l.
Proof. exact overlap_refuted. Qed.
Print Assumptions C15_params_concurrent_refuted.

(* known finding: a parameter passed through model_kwargs that was absent before is left
   behind as None, even sequentially (pinned by tests/test_llm_params.py) *)
Theorem C15_params_absent_kwarg_refuted :
  exists l alt, NoDup (keys alt) /\ exit_ (snd (enter alt l [])) (fst (enter alt l [])) <> l.
Proof. exact absent_kwarg_refuted. Qed.
Print Assumptions C15_params_absent_kwarg_refuted.

(* Per-request context variables, entry code of the current source: for every sequence of
   requests and task creations - requests served one after the other by the same coroutine
   share a context, a new task starts with a copy - the LLM calls of a request see exactly that
   request's own generation options (llm_params, rails, ...), never those of a request served
   before in the same or any other context *)
Theorem C15_request_context_own :
  forall (V : Type) (ops : list (cop V)) (c : ctxs V),
    Forall (fun x => snd x = fst x) (crun V ctx_options_always_set c ops).
Proof. exact own_options_seen. Qed.
Print Assumptions C15_request_context_own.

(* regression documentation: writing the variable only for requests that carry options lets an
   option-less request see the options of the request served before it in the same context *)
Theorem C15_stale_context_refuted :
  exists (ops : list (cop nat)) own seen,
    In (own, seen) (crun nat false (cinit nat) ops) /\ own = None /\ seen = Some 7.
Proof. exact conditional_set_refuted. Qed.
Print Assumptions C15_stale_context_refuted.
