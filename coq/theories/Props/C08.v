(* C08 - Flow calls bind parameters, defaults and return values; locals are private.
   Property theorems only; every proof is `exact <lemma>`; Print Assumptions beneath each.
   The model (V2/Bind.v) transcribes create_flow_instance, _start_flow, the Assignment/Return/
   Global cases of slide, finished_event and the call-argument parsing of the transformer; it is
   tied to the source on every run by the correspondence check of harness/c08.py.
   [eval : ctx -> expr -> value] is arbitrary (every expression language, every value).
   Theorems named C08_obs_* state what the code does OUTSIDE the premise `well_formed_call`
   (observations O1-O4 of DESIGN.md); they are reported, not claimed as part of the property. *)
From Coq Require Import ZArith List String Arith Bool.
From NG Require Import Val.Value V2.Bind V2.Bind_proofs.
Import ListNotations.
Open Scope string_scope.

(* For every signature (any number of parameters, any defaults, return members) and every
   well-formed call (no more positional arguments than parameters; no parameter bound both
   positionally and by name), parameter i's value in the callee's context - and in
   `arguments` - is positional argument i if given, else the named argument, else the
   declared default evaluated in the EMPTY context, else None.  [cc] is the context in which
   the argument expressions are evaluated. *)
Theorem C08_binding :
  forall (expr : Type) (eval : ctx -> expr -> value)
         (ps rs : list (param expr)) (l : list (arg expr)) (cc : ctx) (R : reserved) (activated : bool),
    wf_signature expr ps rs = true ->
    syntactic_call expr l = true ->
    well_formed_call expr ps l = true ->
    exists a c,
      bind expr eval ps rs (start_event_args R activated (eval_args expr eval cc (parse_args expr l 0 []))) = Bound a c /\
      forall i p, nth_error ps i = Some p ->
        aget (p_name p) c = Some (spec_value expr eval cc l i p) /\
        aget (p_name p) a = Some (spec_value expr eval cc l i p).
Proof. exact bind_call_spec. Qed.
Print Assumptions C08_binding.

(* the same rule on an arbitrary evaluated event_arguments dict whose positional keys are
   $0..$(k-1), k <= number of parameters (also when a parameter is bound both ways: the
   positional value wins) *)
Theorem C08_binding_event_arguments :
  forall (expr : Type) (eval : ctx -> expr -> value) (ps rs : list (param expr)) (ev : ctx) (k : nat),
    wf_signature expr ps rs = true ->
    pos_contig ev k -> k <= List.length ps ->
    exists a c, bind expr eval ps rs ev = Bound a c /\
      (forall i p, nth_error ps i = Some p ->
         aget (p_name p) c = Some (ev_value expr eval ev i p) /\
         aget (p_name p) a = Some (ev_value expr eval ev i p)) /\
      map fst a = (map p_name ps ++ map pos_key (seq 0 k))%list.
Proof. exact bind_spec. Qed.
Print Assumptions C08_binding_event_arguments.

(* the premises are inhabited by a non-trivial signature and call, and well_formed_call is
   not trivially true *)
Theorem C08_premises_inhabited :
  wf_signature Examples.xe Examples.ps Examples.rs = true /\
  syntactic_call Examples.xe Examples.call1 = true /\
  well_formed_call Examples.xe Examples.ps Examples.call1 = true /\
  well_formed_call Examples.xe Examples.ps [APos (Examples.XVar "y"); ANamed "a" (Examples.XVar "loc")] = false /\
  well_formed_call Examples.xe Examples.ps
    [APos (Examples.XLit VNone); APos (Examples.XLit VNone); APos (Examples.XLit VNone); APos (Examples.XLit VNone)] = false.
Proof. exact Examples.premises_inhabited. Qed.
Print Assumptions C08_premises_inhabited.

(* The call as a step of the machine: the values are those of the argument expressions
   evaluated in the CALLER's context at the call (eval_ctx st caller); the call changes no
   other instance's context and no global. *)
Theorem C08_caller_eval :
  forall (expr : Type) (eval : ctx -> expr -> value)
         (st : mstate) (caller callee : nat) (ps rs : list (param expr)) (R : reserved) (activated : bool)
         (l : list (arg expr)) (ec : ctx),
    wf_signature expr ps rs = true ->
    syntactic_call expr l = true ->
    well_formed_call expr ps l = true ->
    bounded st ->
    eval_ctx st caller = Some ec ->
    exists st',
      step expr eval st (OStart expr caller callee ps rs R activated (parse_args expr l 0 [])) = Ok st' /\
      (forall i p, nth_error ps i = Some p ->
         aget (p_name p) (ctx_of st' callee) = Some (spec_value expr eval ec l i p) /\
         aget (p_name p) (m_args st' callee) = Some (spec_value expr eval ec l i p)) /\
      (forall j, j <> callee -> ctx_of st' j = ctx_of st j) /\
      m_gctx st' = m_gctx st.
Proof. exact caller_eval. Qed.
Print Assumptions C08_caller_eval.

(* every state reached from the initial one satisfies the side condition `bounded` *)
Theorem C08_reachable_bounded :
  forall (expr : Type) (eval : ctx -> expr -> value) (os : list (op expr)) (st : mstate),
    run expr eval m_init os = Ok st -> bounded st.
Proof. exact (fun expr eval os st => run_bounded expr eval os m_init st init_bounded). Qed.
Print Assumptions C08_reachable_bounded.

(* inside the premise every argument of the call is echoed, with the same value, by
   `arguments` and hence by the FlowStarted event the caller waits for *)
Theorem C08_call_args_echoed :
  forall (expr : Type) (eval : ctx -> expr -> value) (ps rs : list (param expr)) (ev : ctx) (k : nat),
    wf_signature expr ps rs = true -> pos_contig ev k -> k <= List.length ps ->
    (forall i p, i < k -> nth_error ps i = Some p -> ahas (p_name p) ev = false) ->
    exists a c, bind expr eval ps rs ev = Bound a c /\
      (forall j v, aget (pos_key j) ev = Some v -> aget (pos_key j) a = Some v) /\
      (forall p v, In p ps -> aget (p_name p) ev = Some v -> aget (p_name p) a = Some v).
Proof. exact call_args_echoed. Qed.
Print Assumptions C08_call_args_echoed.

(* `$x = await f(..)`: after the callee executed `return e` (bare `return`: None), the
   expansion's assignment stores exactly that value - evaluated in the callee's context at
   the return - in the caller's x; no third instance and no global changes *)
Theorem C08_return :
  forall (expr : Type) (eval : ctx -> expr -> value)
         (st : mstate) (callee : nat) (e : option expr) (st1 : mstate) (caller : nat) (x : string)
         (uid fid : value) (st2 : mstate) (ec : ctx),
    eval_ctx st callee = Some ec ->
    step expr eval st (OReturn expr callee e) = Ok st1 ->
    m_cell st caller <> m_cell st callee ->
    ahas (global_key x) (ctx_of st caller) = false ->
    step expr eval st1 (OAwaitAssign expr caller callee uid fid x) = Ok st2 ->
    aget x (ctx_of st2 caller) = Some (match e with Some e' => eval ec e' | None => VNone end) /\
    (forall j, m_cell st j <> m_cell st caller -> ctx_of st2 j = ctx_of st1 j) /\
    m_gctx st2 = m_gctx st.
Proof. exact return_spec. Qed.
Print Assumptions C08_return.

Theorem C08_return_inhabited :
  exists st st1 st2 ec,
    run Examples.xe Examples.xeval m_init Examples.ops1 = Ok st /\ eval_ctx st 1 = Some ec /\
    step Examples.xe Examples.xeval st (OReturn Examples.xe 1 (Some (Examples.XVar "b"))) = Ok st1 /\
    m_cell st 0 <> m_cell st 1 /\ ahas (global_key "x") (ctx_of st 0) = false /\
    step Examples.xe Examples.xeval st1 (OAwaitAssign Examples.xe 0 1 (VStr "(f)1") (VStr "f") "x") = Ok st2 /\
    aget "x" (ctx_of st2 0) = Some (VInt 3).
Proof. exact Examples.return_inhabited. Qed.
Print Assumptions C08_return_inhabited.

(* In every state reached without a shared-context start, an Assign to a key that instance
   i has not declared global changes instance i's context at that key and NOTHING else:
   no other instance's context (caller, callee or sibling), no `arguments`, no global. *)
Theorem C08_locals_private :
  forall (expr : Type) (eval : ctx -> expr -> value)
         (os : list (op expr)) (st : mstate) (i : nat) (k : string) (e : expr) (st' : mstate),
    no_shared_start expr os -> run expr eval m_init os = Ok st ->
    step expr eval st (OAssign expr i k e) = Ok st' ->
    ahas (global_key k) (ctx_of st i) = false ->
    (forall j, j <> i -> ctx_of st' j = ctx_of st j) /\
    m_gctx st' = m_gctx st /\
    (forall j, m_args st' j = m_args st j) /\
    exists ec, eval_ctx st i = Some ec /\ ctx_of st' i = aset k (eval ec e) (ctx_of st i).
Proof. exact locals_private. Qed.
Print Assumptions C08_locals_private.

Theorem C08_locals_private_inhabited :
  exists st st',
    no_shared_start Examples.xe Examples.ops1 /\ run Examples.xe Examples.xeval m_init Examples.ops1 = Ok st /\
    step Examples.xe Examples.xeval st (OAssign Examples.xe 1 "loc" (Examples.XLit (VInt 3))) = Ok st' /\
    ahas (global_key "loc") (ctx_of st 1) = false /\
    aget "loc" (ctx_of st 0) = Some (VInt 1) /\ aget "loc" (ctx_of st 1) = Some (VInt 2) /\
    aget "loc" (ctx_of st' 0) = Some (VInt 1) /\ aget "loc" (ctx_of st' 1) = Some (VInt 3) /\
    aget "c" (ctx_of st' 1) = Some (VInt 1).
Proof. exact Examples.locals_private_inhabited. Qed.
Print Assumptions C08_locals_private_inhabited.

(* the same frame statement in any state, shared-context starts included: only instances
   that own the SAME context cell as i see the assignment *)
Theorem C08_locals_private_cells :
  forall (expr : Type) (eval : ctx -> expr -> value) (st : mstate) (i : nat) (k : string) (e : expr) (st' : mstate),
    step expr eval st (OAssign expr i k e) = Ok st' ->
    ahas (global_key k) (ctx_of st i) = false ->
    (forall j, m_cell st j <> m_cell st i -> ctx_of st' j = ctx_of st j) /\
    m_gctx st' = m_gctx st /\
    (forall j, m_args st' j = m_args st j) /\
    (forall j, m_cell st' j = m_cell st j) /\
    exists ec, eval_ctx st i = Some ec /\ ctx_of st' i = aset k (eval ec e) (ctx_of st i).
Proof. exact assign_local_frame. Qed.
Print Assumptions C08_locals_private_cells.

(* the stated exception: StartFlow(.., context=$self.context) makes the two instances share
   one context, so an assignment in one is visible in the other *)
Theorem C08_shared_context_start_shares :
  forall (expr : Type) (eval : ctx -> expr -> value)
         (st : mstate) (caller callee : nat) (rs : list (param expr)) (st1 : mstate) (k : string) (e : expr) (st2 : mstate),
    step expr eval st (OStartShared expr caller callee rs) = Ok st1 ->
    step expr eval st1 (OAssign expr callee k e) = Ok st2 ->
    ahas (global_key k) (ctx_of st1 callee) = false ->
    m_cell st1 callee = m_cell st1 caller /\ ctx_of st2 caller = ctx_of st2 callee /\
    exists v, aget k (ctx_of st2 caller) = Some v.
Proof. exact shared_context_is_shared. Qed.
Print Assumptions C08_shared_context_start_shares.

(* ---- observations: what the code does outside the premise (reported, not claimed) ---- *)

(* O1: surplus positional arguments (k > n).  The call is rejected ("To many parameters")
   only when the flow has no parameter or more than 2n arguments were given.  Otherwise the
   callee runs with the first n values, `arguments` (hence FlowStarted) has no `$n` - the
   caller's FlowStarted match mentions `$n` and can never succeed - and the callee's context
   gains a key `$0` holding argument number n. *)
Theorem C08_obs_surplus_positional :
  forall (expr : Type) (eval : ctx -> expr -> value) (ps rs : list (param expr)) (ev : ctx) (k : nat),
    wf_signature expr ps rs = true ->
    pos_contig ev k -> List.length ps < k ->
    (bind expr eval ps rs ev = BTooMany <-> (List.length ps = 0 \/ 2 * List.length ps < k)) /\
    (forall a c, bind expr eval ps rs ev = Bound a c ->
       (forall i p, nth_error ps i = Some p ->
          aget (p_name p) c = aget (pos_key i) ev /\ aget (p_name p) a = aget (pos_key i) ev) /\
       aget (pos_key (List.length ps)) a = None /\
       aget (pos_key 0) c = aget (pos_key (List.length ps)) ev).
Proof. exact obs_surplus. Qed.
Print Assumptions C08_obs_surplus_positional.

Theorem C08_obs_surplus_witness :
  wf_signature Examples.xe Examples.gs [] = true /\ pos_contig [("$0", VInt 1); ("$1", VInt 2)] 2 /\
  bind Examples.xe Examples.xeval Examples.gs [] [("$0", VInt 1); ("$1", VInt 2)]
  = Bound [("a", VInt 1); ("$0", VInt 1)] [("a", VInt 1); ("$0", VInt 2)] /\
  bind Examples.xe Examples.xeval Examples.gs [] [("$0", VInt 1); ("$1", VInt 2); ("$2", VInt 3)] = BTooMany.
Proof.
  exact (conj (proj1 Examples.surplus_premises)
           (conj (proj2 Examples.surplus_premises) (conj Examples.surplus_not_rejected Examples.surplus_rejected))).
Qed.
Print Assumptions C08_obs_surplus_witness.

(* O2: a parameter given positionally AND by name gets the positional value, in the context
   and in `arguments`; the caller's FlowStarted match on name=w fails when v <> w *)
Theorem C08_obs_double_binding :
  forall (expr : Type) (eval : ctx -> expr -> value) (ps rs : list (param expr)) (ev : ctx) (k i : nat)
         (p : param expr) (v w : value),
    wf_signature expr ps rs = true -> pos_contig ev k -> k <= List.length ps ->
    nth_error ps i = Some p ->
    aget (pos_key i) ev = Some v -> aget (p_name p) ev = Some w ->
    exists a c, bind expr eval ps rs ev = Bound a c /\ aget (p_name p) c = Some v /\ aget (p_name p) a = Some v.
Proof. exact obs_double. Qed.
Print Assumptions C08_obs_double_binding.

(* O3: a named argument that is no parameter is ignored: it is not in `arguments`, so the
   caller's FlowStarted match that mentions it fails *)
Theorem C08_obs_unknown_named :
  forall (expr : Type) (eval : ctx -> expr -> value) (ps rs : list (param expr)) (ev : ctx) (k : nat) (z : string),
    wf_signature expr ps rs = true -> pos_contig ev k -> k <= List.length ps ->
    plain z = true -> ~ In z (map p_name ps) ->
    exists a c, bind expr eval ps rs ev = Bound a c /\ aget z a = None.
Proof. exact obs_unknown_named. Qed.
Print Assumptions C08_obs_unknown_named.

(* O4: the callee ended without executing `return`: `.arguments.return_value` raises and the
   caller fails (it is NOT assigned None) *)
Theorem C08_obs_no_return :
  forall (expr : Type) (eval : ctx -> expr -> value) (st : mstate) (caller callee : nat) (uid fid : value) (x : string),
    aget "_return_value" (ctx_of st callee) = None ->
    aget "return_value" (m_args st callee) = None ->
    step expr eval st (OAwaitAssign expr caller callee uid fid x) = Err ENoReturnValue.
Proof. exact obs_no_return. Qed.
Print Assumptions C08_obs_no_return.

(* ---- the caller's wait for FlowStarted (known finding O5) ---- *)

(* If the FlowStarted match carries only flow_id and flow_instance_uid (the candidate repair
   fixes/C08-flowstarted-match.patch), every call that binds - well-formed or not, whatever the
   callee does to globals before it is started - is echoed by the callee's FlowStarted event:
   the caller is never left waiting for the start. *)
Theorem C08_caller_resumes_if_match_is_uid_only :
  forall (expr : Type) (eval : ctx -> expr -> value) (ps rs : list (param expr)) (ev a c : ctx)
         (R : reserved) (evargs_at_match : ctx),
    wf_signature expr ps rs = true ->
    bind expr eval ps rs ev = Bound a c ->
    forall k v, aget k (started_pattern false R evargs_at_match) = Some v ->
                aget k (started_args (r_instance_uid R) (r_flow_id R) a) = Some v.
Proof. exact started_uid_only_echoed. Qed.
Print Assumptions C08_caller_resumes_if_match_is_uid_only.

(* Regression documentation for the source as it is (the match carries the call arguments,
   started_pattern true): a WELL-FORMED call `$x = await g1($g)` whose callee assigns the
   global $g before it is started binds a = 1, yet the caller's pattern - evaluated when the
   event arrives - demands `$0` = 2 while the event carries `$0` = 1: the caller waits forever
   and `$x` is never assigned.  Recorded in KNOWN_FINDINGS.txt
   (sig=await-hangs-callee-changes-global-used-in-argument). *)
Theorem C08_await_hang_refuted :
  wf_signature Examples.xe Examples.gs [] = true /\ syntactic_call Examples.xe Examples.call5 = true /\
  well_formed_call Examples.xe Examples.gs Examples.call5 = true /\
  exists st ec2,
    run Examples.xe Examples.xeval m_init Examples.ops5 = Ok st /\ eval_ctx st 0 = Some ec2 /\
    aget "a" (ctx_of st 1) = Some (VInt 1) /\
    aget "$0" (started_pattern true Examples.R1
                 (eval_args Examples.xe Examples.xeval ec2 (parse_args Examples.xe Examples.call5 0 []))) = Some (VInt 2) /\
    aget "$0" (started_args (r_instance_uid Examples.R1) (r_flow_id Examples.R1) (m_args st 1)) = Some (VInt 1).
Proof. exact Examples.await_hang_witness. Qed.
Print Assumptions C08_await_hang_refuted.

(* ---- `activate f(..)` of an already activated flow (_get_reference_activated_flow_instance) ---- *)

(* Two activations are identified (the second reuses the first's instance instead of starting
   one) iff the parameter values they BIND - by the rule of C08_binding - are equal under
   Python's == [veq]; for every signature and every pair of calls in which no parameter is bound
   both ways and every omitted parameter has a declared default.  Hence an activation with a
   new parameter vector is never mistaken for an earlier one: it starts an instance, which by
   C08_binding receives exactly those values. *)
Theorem C08_activation_identified_iff_bound_values_equal :
  forall (expr : Type) (eval : ctx -> expr -> value) (veq : value -> value -> bool)
         (ps rs : list (param expr)) (ev0 : ctx) (k0 : nat) (a0 c0 : ctx) (ev : ctx),
    wf_signature expr ps rs = true -> pos_contig ev0 k0 -> k0 <= List.length ps ->
    bind expr eval ps rs ev0 = Bound a0 c0 ->
    (forall i p, nth_error ps i = Some p -> ahas (pos_key i) ev && ahas (p_name p) ev = false) ->
    (forall i p, nth_error ps i = Some p -> ahas (pos_key i) ev || ahas (p_name p) ev || has_default expr p = true) ->
    (params_match expr eval veq ps 0 ev a0 = Some true <->
     forall i p, nth_error ps i = Some p -> veq (ev_value expr eval ev0 i p) (ev_value expr eval ev i p) = true).
Proof. exact two_activations_identified_iff. Qed.
Print Assumptions C08_activation_identified_iff_bound_values_equal.

(* the same against any `arguments` dict of an activated instance *)
Theorem C08_activation_identified_iff :
  forall (expr : Type) (eval : ctx -> expr -> value) (veq : value -> value -> bool)
         (ps : list (param expr)) (ev act : ctx),
    (forall i p, nth_error ps i = Some p -> ahas (pos_key i) ev && ahas (p_name p) ev = false) ->
    (forall i p, nth_error ps i = Some p -> ahas (pos_key i) ev || ahas (p_name p) ev || has_default expr p = true) ->
    (forall p, In p ps -> ahas (p_name p) act = true) ->
    (params_match expr eval veq ps 0 ev act = Some true <->
     forall i p, nth_error ps i = Some p -> veq (getN (p_name p) act) (ev_value expr eval ev i p) = true).
Proof. exact activation_identified_iff. Qed.
Print Assumptions C08_activation_identified_iff.

(* observation O6: an omitted parameter WITHOUT default never matches, so such an activation
   is never identified with an earlier one (a further instance is started each time) *)
Theorem C08_obs_activation_omitted_without_default :
  forall (expr : Type) (eval : ctx -> expr -> value) (veq : value -> value -> bool)
         (ps : list (param expr)) (ev act : ctx) (i : nat) (p : param expr),
    nth_error ps i = Some p ->
    ahas (pos_key i) ev = false -> ahas (p_name p) ev = false -> p_default p = None ->
    params_match expr eval veq ps 0 ev act <> Some true.
Proof. exact obs_activation_omitted_without_default. Qed.
Print Assumptions C08_obs_activation_omitted_without_default.

(* regression documentation: the `or`-chain variant of the test (a falsy named argument counts
   as absent) identifies `activate watch $level=0` with the default activation level = 1,
   although the two calls bind 0 and 1; the transcribed test does not *)
Theorem C08_activation_or_chain_variant_refuted :
  Examples.or_chain_matched Examples.ev_level0 (VInt 1) 0 (mkParam "level" (Some (Examples.XLit (VInt 1)))) = true /\
  params_match Examples.xe Examples.xeval Examples.xveq Examples.watch 0 Examples.ev_level0 [("level", VInt 1)] = Some false /\
  ev_value Examples.xe Examples.xeval Examples.ev_level0 0 (mkParam "level" (Some (Examples.XLit (VInt 1)))) = VInt 0 /\
  ev_value Examples.xe Examples.xeval [("flow_id", VStr "watch")] 0 (mkParam "level" (Some (Examples.XLit (VInt 1)))) = VInt 1.
Proof. exact Examples.or_chain_variant_refuted. Qed.
Print Assumptions C08_activation_or_chain_variant_refuted.

(* ---- restart of an activated flow (FlowState.start_event in _finish_flow/_abort_flow) ---- *)

(* The successor instance is started from the predecessor's `arguments`; it therefore binds
   every parameter to exactly the value the ORIGINAL call bound (positional, else named, else
   default) - whatever the predecessor assigned to its parameter variables and locals, which
   live in its context only (C08_locals_private: no Assign changes `arguments`). *)
Theorem C08_restart_binds_original_call :
  forall (expr : Type) (eval : ctx -> expr -> value) (ps rs : list (param expr)) (ev : ctx) (k : nat)
         (a c : ctx) (R : reserved) (activated : value),
    wf_signature expr ps rs = true -> pos_contig ev k -> k <= List.length ps ->
    bind expr eval ps rs ev = Bound a c ->
    exists a' c', bind expr eval ps rs (restart_event_args R activated a) = Bound a' c' /\
      forall i p, nth_error ps i = Some p ->
        aget (p_name p) c' = Some (ev_value expr eval ev i p) /\
        aget (p_name p) a' = Some (ev_value expr eval ev i p).
Proof. exact restart_rebinds_original_values. Qed.
Print Assumptions C08_restart_binds_original_call.
